/-
JSON helpers shared by all suite drivers (core Lean only, no Mathlib).
-/
import Lean.Data.Json

namespace ErdosVerif.Driver
open Lean

/-- Python exception classes are plain strings in replies. -/
def errJ (cls : String) : Json := Json.mkObj [("err", Json.str cls)]

def fld (j : Json) (k : String) : Except String Json := j.getObjVal? k
def fldNat (j : Json) (k : String) : Except String Nat := do (← fld j k).getNat?
def fldInt (j : Json) (k : String) : Except String Int := do (← fld j k).getInt?
def fldStr (j : Json) (k : String) : Except String String := do (← fld j k).getStr?
def fldBool (j : Json) (k : String) : Except String Bool := do (← fld j k).getBool?
def fldArr (j : Json) (k : String) : Except String (List Json) := do
  return (← (← fld j k).getArr?).toList
def fldOpt (j : Json) (k : String) : Option Json :=
  match j.getObjVal? k with
  | .ok .null => none
  | .ok v => some v
  | .error _ => none

def jList {α} (f : α → Json) (l : List α) : Json := Json.arr (l.map f).toArray
def jNat (n : Nat) : Json := toJson n
def jInt (n : Int) : Json := toJson n
def jOptNat : Option Nat → Json
  | none => Json.null
  | some n => jNat n
def jOptInt : Option Int → Json
  | none => Json.null
  | some n => jInt n

def mapM' {α β} (f : α → Except String β) : List α → Except String (List β)
  | [] => .ok []
  | a :: as => do
    let b ← f a
    let bs ← mapM' f as
    return b :: bs

/-- Wrap a handler so that protocol errors become a reply, never a crash. -/
def guardE (r : Except String Json) : Json :=
  match r with
  | .ok j => j
  | .error e => Json.mkObj [("protocol_error", Json.str e)]

end ErdosVerif.Driver
