/-
Driver for TetriSched-CPLEX invocations in batching mode (suite "mip_tetri" with
`inst.batching = true`; `Driver/MipTetri.lean` dispatches here).

in : {"suite":"mip_tetri","inst":{"batching":true,…},"sigma":{"<label>":int,…}|null,"model":bool}
out: {"nomodel":bool,"raises":bool,"wf":bool,"den":S,"scaled":[labels],
      "vars":[…],"constrs":[…],"obj":{…},"obj_const":[num,den],
      "batches":[{"name":…, "members":[uniq…], "kind":…, "release":…, "deadline":…}],
      "sat":bool,"violated":[names],"decode":[…],"objval":int,      -- when sigma is given
      "decode_fail":[…],"decode_nomodel":[…]}

`den` is the common scale `100 · (last slot − first slot)`: rows whose JSON carries `"den"` and
the objective are the real ones multiplied by it; a variable listed in `"scaled"` stands for
`den ·` the real continuous variable.  `obj_const` is the exact constant of the real objective
(the rewards of the RUNNING batches), not scaled.
-/
import ErdosVerif.Driver.Util
import ErdosVerif.Model.TetriBatch
namespace ErdosVerif.Driver.MipTetriBatch
open Lean ErdosVerif.Driver ErdosVerif.Mip ErdosVerif.Tetri ErdosVerif.TetriBatch

def parsePairs (j : Json) (k : String) : Except String (List (String × Nat)) := do
  let l ← fldArr j k
  mapM' (fun e => do
    let a ← e.getArr?
    match a.toList with
    | [n, q] => return ((← n.getStr?), (← q.getNat?))
    | _ => throw "bad-pair") l

def parseBStrat (j : Json) : Except String BStrat := do
  return { runtime := ← fldNat j "runtime", batch := ← fldNat j "batch", req := ← parsePairs j "req" }

def parseState (s : String) : TState :=
  match s with
  | "VIRTUAL" => .virtual
  | "RELEASED" => .released
  | "SCHEDULED" => .scheduled
  | "RUNNING" => .running
  | _ => .other

def parseProfile (j : Json) : Except String Profile := do
  return { name := ← fldStr j "name", strats := ← mapM' parseBStrat (← fldArr j "strats") }

def parseTask (j : Json) : Except String BTask := do
  return { uniq := ← fldStr j "uniq", state := parseState (← fldStr j "state"),
           release := ← fldInt j "release", deadline := ← fldInt j "deadline",
           profile := ← fldNat j "profile", prevW := ← fldNat j "prevW", prevG := ← fldNat j "prevG",
           remaining := ← fldNat j "remaining" }

def parseWorker (j : Json) : Except String WorkerI := do
  return { name := ← fldStr j "name", pool := ← fldStr j "pool", res := ← parsePairs j "res" }

def parseInst (j : Json) : Except String BInst := do
  return { now := ← fldInt j "now",
           disc := ← fldNat j "disc",
           planAheadOpt := ← fldInt j "plan_ahead",
           workers := ← mapM' parseWorker (← fldArr j "workers"),
           profiles := ← mapM' parseProfile (← fldArr j "profiles"),
           prevStrats := ← mapM' parseBStrat (← fldArr j "prevStrats"),
           tasks := ← mapM' parseTask (← fldArr j "tasks"),
           nOffered := ← fldNat j "nOffered",
           setOrder := ← mapM' (fun e => e.getNat?) (← fldArr j "setOrder"),
           enforceDeadlines := ← fldBool j "enforce_deadlines",
           retract := ← fldBool j "retract" }

/-- `name#k` labels in declaration order. -/
def labels (I : BInst) (m : Model BVar) : List (BVar × String) :=
  let rec go (ds : List (VarDecl BVar)) (seen : List String) (acc : List (BVar × String)) : List (BVar × String) :=
    match ds with
    | [] => acc.reverse
    | d :: ds =>
      let n := I.varName d.v
      let k := (seen.filter (· == n)).length
      go ds (n :: seen) ((d.v, s!"{n}#{k}") :: acc)
  go m.vars [] []

def labelOf (I : BInst) (ls : List (BVar × String)) (v : BVar) : String :=
  match ls.find? (fun p => p.1 == v) with
  | some p => p.2
  | none => s!"UNDECLARED:{I.varName v}"

def jLin (lab : BVar → String) (e : LinExpr BVar) : Json :=
  Json.mkObj [("t", jList (fun (p : Int × BVar) => Json.arr #[jInt p.1, Json.str (lab p.2)]) e.terms),
              ("c", jInt e.const)]

def jSense : Sense → Json
  | .le => Json.str "<"
  | .ge => Json.str ">"
  | .eq => Json.str "="

def jConstr (I : BInst) (lab : BVar → String) : Constr BVar → Json
  | .lin n e s rhs =>
    Json.mkObj ([("kind", Json.str "lin"), ("name", Json.str n), ("e", jLin lab e), ("sense", jSense s), ("rhs", jInt rhs)] ++
      (if I.scaledRow n then [("den", jNat I.scale)] else []))
  | .quad n _ _ _ => Json.mkObj [("kind", "quad"), ("name", n)]
  | .ind n .. => Json.mkObj [("kind", "ind"), ("name", n)]
  | .and n .. => Json.mkObj [("kind", "and"), ("name", n)]

def jDecl (lab : BVar → String) (d : VarDecl BVar) : Json :=
  Json.mkObj [("name", Json.str (lab d.v)),
              ("vtype", Json.str (match d.vtype with | .bin => "B" | .int => "I")),
              ("lb", jOptInt d.lb), ("ub", jOptInt d.ub)]

def jReq (l : List (String × Nat)) : Json := jList (fun (p : String × Nat) => Json.arr #[Json.str p.1, jNat p.2]) l

def jDecision (I : BInst) (d : BDecision) : Json :=
  match d.out with
  | .unplaced => Json.mkObj [("task", Json.str (I.tname d.task)), ("kind", "unplaced")]
  | .cancel => Json.mkObj [("task", Json.str (I.tname d.task)), ("kind", "cancel")]
  | .placed w b t => Json.mkObj [("task", Json.str (I.tname d.task)), ("kind", "placed"),
      ("worker", jNat w), ("pool", Json.str (I.worker w).pool), ("batch", Json.str (I.bname b)),
      ("runtime", jNat (I.batch b).strat.runtime), ("batch_size", jNat (I.batch b).strat.batch),
      ("req", jReq (I.batch b).strat.req), ("time", jInt t)]

def jBatch (I : BInst) (b : Batch) : Json :=
  Json.mkObj [("name", Json.str b.name), ("members", jList (fun t => Json.str (I.tname t)) b.members),
    ("kind", Json.str (if I.bRunning b then "running" else if I.bMust b then "must" else "free")),
    ("release", jInt (I.bRelease b)), ("deadline", jInt (I.bDeadline b)),
    ("runtime", jNat b.strat.runtime), ("batch_size", jNat b.strat.batch), ("req", jReq b.strat.req),
    ("prio", jInt b.prio)]

def sigmaOf (ls : List (BVar × String)) (j : Json) : BVar → Int := fun v =>
  match ls.find? (fun p => p.1 == v) with
  | none => 0
  | some p => match j.getObjVal? p.2 >>= Json.getInt? with
    | .ok n => n
    | .error _ => 0

def handleE (j : Json) : Except String Json := do
  let I ← parseInst (← fld j "inst")
  let fixed : List (String × Json) :=
    [("nomodel", Json.bool I.noModel), ("wf", Json.bool I.wf), ("acyclic", Json.bool true),
     ("raises", Json.bool (!I.noModel && I.raises)),
     ("decode_fail", jList (jDecision I) (decodeFailB I)),
     ("decode_nomodel", jList (jDecision I) (decodeNoModelB I))]
  if I.noModel || I.raises then return Json.mkObj fixed
  let m := genB I
  let ls := labels I m
  let lab := labelOf I ls
  let wantModel := (fldBool j "model").toOption.getD true
  let base : List (String × Json) :=
    if wantModel then
      [("vars", jList (jDecl lab) m.vars), ("constrs", jList (jConstr I lab) m.constrs),
       ("obj", jLin lab m.obj.lin), ("den", jNat I.scale),
       ("obj_const", Json.arr #[jInt I.objConst.1, jInt I.objConst.2]),
       ("scaled", jList (fun v => Json.str (lab v)) I.scaledVars),
       ("batches", jList (jBatch I) I.batches),
       ("slots_vars", jNat I.nSlotsV), ("slots_rows", jNat I.nSlotsR)]
    else [("den", jNat I.scale)]
  let withSigma : List (String × Json) :=
    match fldOpt j "sigma" with
    | none => []
    | some sj =>
      let σ := sigmaOf ls sj
      [("sat", Json.bool (decide (sat σ m))),
       ("violated", jList Json.str ((m.vars.filter (fun d => !decide (d.ok σ))).map (fun d => "domain:" ++ lab d.v) ++ violated σ m)),
       ("decode", jList (jDecision I) (decodeB I σ)),
       ("objval", jInt (objective σ m))]
  return Json.mkObj (fixed ++ base ++ withSigma)

def handle (j : Json) : Json := guardE (handleE j)

end ErdosVerif.Driver.MipTetriBatch
