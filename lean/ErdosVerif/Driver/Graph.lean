/-
Driver for suite "graph" (property C17): runs the M3 model (`Model/Graph.lean`).

A case is `{"suite":"graph","ops":[op, …]}`; the ops are applied in order to one
graph that starts empty and the reply is `{"res":[r, …]}` with one entry per op.

Mutating ops (reply `null` or `{"err":cls}`):
  {"op":"init","map":[[n,[c,…]],…]}      Graph(nodes=mapping) (replaces the state)
  {"op":"update_edges","map":[[n,[c,…]],…]}   TaskGraph.update_edges(mapping) on the live object
  {"op":"add_node","n":n,"cs":[c,…]}
  {"op":"add_child","n":n,"c":c}
  {"op":"remove","n":n}
Observing ops:
  {"op":"snapshot"}  → {"children":[[n,[c…]]…] (dict order), "parents":[[n,[p…]]…] (non-empty, sorted by key)}
  {"op":"query","ns":[n…],"pairs":[[a,b]…],"ws":[[[n,w]…]…],"falsy":[n…]}
      → every public observation: see `query` below
  {"op":"jobcost","rt":[[n,r]…],"live":[n…],"cost":[[n,c]…]} → int | {"err":cls}
-/
import ErdosVerif.Driver.Util
import ErdosVerif.Model.Graph
namespace ErdosVerif.Driver.Graph
open Lean ErdosVerif.Driver ErdosVerif.Model

def jE {α} (f : α → Json) : Except String α → Json
  | .ok a => f a
  | .error e => errJ e

def jNats (l : List Nat) : Json := jList jNat l
def jBool (b : Bool) : Json := Json.bool b

/-- Result of a generator: yielded prefix and the exception ending it. -/
def jGen (r : List Nat × Option String) : Json :=
  Json.mkObj [("y", jNats r.1), ("err", match r.2 with | none => Json.null | some e => Json.str e)]

/-- The harness stops following a real generator after 1000 yields and reports
`Runaway` with the first 50; the model side does the same through capped fuel
(a terminating run with `k` yields needs fuel `k + 1`). -/
def yieldCap : Nat := 1000

def bfsCapped (g : Graph) (start : Option Nat) (truthy : Bool) : List Nat × Option String :=
  match Graph.breadthFirstWithFuel (yieldCap + 1) g start truthy with
  | (ys, some "OutOfFuel") => (ys.take 50, some "Runaway")
  | (ys, e) =>
    -- a finished run that the model's own fuel `bfsFuel g` would not have covered is exposed
    if ys.length + 1 > Graph.bfsFuel g then (ys, some "OutOfFuel") else (ys, e)

def jAdj (d : Dict (List Nat)) : Json :=
  jList (fun p : Nat × List Nat => Json.arr #[jNat p.1, jNats p.2]) d

def insertSorted (p : Nat × List Nat) : List (Nat × List Nat) → List (Nat × List Nat)
  | [] => [p]
  | q :: r => if p.1 ≤ q.1 then p :: q :: r else q :: insertSorted p r

def snapshot (g : Graph) : Json :=
  let ps := (g.parents.filter (fun p => !p.2.isEmpty)).foldl (fun acc p => insertSorted p acc) []
  Json.mkObj [("children", jAdj g.children), ("parents", jAdj ps)]

def natList (j : Json) : Except String (List Nat) := do
  mapM' (fun x => x.getNat?) (← j.getArr?).toList

def pairNatList (j : Json) : Except String (Nat × List Nat) := do
  let a ← j.getArr?
  match a.toList with
  | [n, cs] => return (← n.getNat?, ← natList cs)
  | _ => throw "pair expected"

def pairNatInt (j : Json) : Except String (Nat × Int) := do
  let a ← j.getArr?
  match a.toList with
  | [n, w] => return (← n.getNat?, ← w.getInt?)
  | _ => throw "pair expected"

def pairNatNat (j : Json) : Except String (Nat × Nat) := do
  let a ← j.getArr?
  match a.toList with
  | [n, w] => return (← n.getNat?, ← w.getNat?)
  | _ => throw "pair expected"

def table (t : List (Nat × Int)) (n : Nat) : Int := (List.lookup n t).getD 0

def optArr (j : Json) (k : String) : Except String (List Json) :=
  match fldOpt j k with
  | none => .ok []
  | some v => do return (← v.getArr?).toList

def jDepth : Except String (Option Nat) → Json := jE jOptNat

def query (g : Graph) (j : Json) : Except String Json := do
  let ns ← mapM' (fun x => x.getNat?) (← optArr j "ns")
  let pairs ← mapM' pairNatNat (← optArr j "pairs")
  let ws ← mapM' (fun t => do mapM' pairNatInt (← t.getArr?).toList) (← optArr j "ws")
  let falsy ← mapM' (fun x => x.getNat?) (← optArr j "falsy")
  let per := ns.map fun n => Json.mkObj [
    ("n", jNat n),
    ("children", jE jNats (g.getChildren n)),
    ("parents", jE jNats (g.getParents n)),
    ("is_source", jE jBool (g.isSource n)),
    ("dmax", jDepth (g.getNodeDepth n false)),
    ("dmin", jDepth (g.getNodeDepth n true)),
    ("bfs", jGen (bfsCapped g (some n) (!falsy.contains n))),
    ("dfs", jGen (g.depthFirst (some n)))]
  let dep := pairs.map fun p => jE jBool (g.areDependent p.1 p.2)
  let lw := ws.map fun t => Json.mkObj [
    ("path", jE jNats (g.getLongestPath (table t))),
    ("cpr", jE jInt (g.criticalPathRuntime (table t)))]
  return Json.mkObj [
    ("nodes", jNats g.getNodes),
    ("len", jNat g.size),
    ("edges", jList (fun e : Nat × Nat => Json.arr #[jNat e.1, jNat e.2]) g.getEdges),
    ("sources", jNats g.getSources),
    ("sinks", jNats g.getSinks),
    ("topo", jE jNats g.topologicalSort),
    ("bfs", jGen (bfsCapped g none true)),
    ("dfs", jGen (g.depthFirst none)),
    ("longest", jE jNats g.getLongestPathDefault),
    ("per", Json.arr per.toArray),
    ("dep", Json.arr dep.toArray),
    ("lw", Json.arr lw.toArray)]

def jobcost (g : Graph) (j : Json) : Except String Json := do
  let rt ← mapM' pairNatInt (← fldArr j "rt")
  let live ← mapM' (fun x => x.getNat?) (← fldArr j "live")
  let cost ← mapM' pairNatInt (← fldArr j "cost")
  return jE jInt (g.jobPathCost (table rt) (fun n => live.contains n) (table cost))

def step (g : Graph) (j : Json) : Except String (Graph × Json) := do
  let op ← fldStr j "op"
  match op with
  | "init" =>
    let m ← mapM' pairNatList (← fldArr j "map")
    return (Graph.ofMapping m, Json.null)
  | "update_edges" =>
    let m ← mapM' pairNatList (← fldArr j "map")
    return (g.updateEdges m, Json.null)
  | "add_node" =>
    return (g.addNode (← fldNat j "n") (← natList (← fld j "cs")), Json.null)
  | "add_child" =>
    match g.addChild (← fldNat j "n") (← fldNat j "c") with
    | .ok g' => return (g', Json.null)
    | .error e => return (g, errJ e)
  | "remove" =>
    let (g', e) := g.remove (← fldNat j "n")
    return (g', match e with | none => Json.null | some e => errJ e)
  | "snapshot" => return (g, snapshot g)
  | "query" => return (g, ← query g j)
  | "jobcost" => return (g, ← jobcost g j)
  | s => throw s!"unknown op {s}"

def runOps : List Json → Graph → List Json → Except String (List Json)
  | [], _, acc => .ok acc.reverse
  | j :: js, g, acc => do
    let (g', r) ← step g j
    runOps js g' (r :: acc)

/-- Suite handler: one JSON case in, one JSON reply out. -/
def handle (j : Json) : Json := guardE do
  let ops ← fldArr j "ops"
  let res ← runOps ops Graph.empty []
  return Json.mkObj [("res", Json.arr res.toArray)]

end ErdosVerif.Driver.Graph
