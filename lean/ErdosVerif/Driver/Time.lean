/-
Driver for suite "time" (M1, property C16).

Case: {"suite":"time","kind":"unary"|"pair"|"triple","a":{"t":int,"u":"US"|"MS"|"S"},"b":…,"c":…,"k":int}
Reply: an object with one entry per observation; an EventTime is {"t":int,"u":…},
a raised exception is {"err":"<class>"}.
-/
import ErdosVerif.Driver.Util
import ErdosVerif.Model.Time
namespace ErdosVerif.Driver.Time
open Lean ErdosVerif.Driver ErdosVerif.Model.Time

def getET (j : Json) (k : String) : Except String EventTime := do
  let o ← fld j k
  let t ← fldInt o "t"
  let u ← fldStr o "u"
  match TUnit.ofName? u with
  | some u => return ⟨t, u⟩
  | none => throw s!"bad unit {u}"

def jET (a : EventTime) : Json := Json.mkObj [("t", jInt a.time), ("u", Json.str a.unit.name)]

def jRes {β} (f : β → Json) : Except String β → Json
  | .ok b => f b
  | .error e => errJ e

def jBool (b : Bool) : Json := Json.bool b

def unaryObs (p : String) (a : EventTime) : List (String × Json) :=
  [ (p ++ "to_US", jRes jET (a.to .US)),
    (p ++ "to_MS", jRes jET (a.to .MS)),
    (p ++ "to_S", jRes jET (a.to .S)),
    (p ++ "hash", jRes jInt a.hash),
    (p ++ "is_invalid", jBool a.isInvalid) ]

def pairObs (p : String) (a b : EventTime) : List (String × Json) :=
  [ (p ++ "add", jRes jET (a.add b)),
    (p ++ "sub", jRes jET (a.sub b)),
    (p ++ "eq", jRes jBool (a.eq b)),
    (p ++ "ne", jRes jBool (a.ne b)),
    (p ++ "lt", jRes jBool (a.lt b)),
    (p ++ "le", jRes jBool (a.le b)),
    (p ++ "gt", jRes jBool (a.gt b)),
    (p ++ "ge", jRes jBool (a.ge b)),
    (p ++ "min", jRes jET (a.min b)),
    (p ++ "max", jRes jET (a.max b)) ]

def tripleObs (a b c : EventTime) : List (String × Json) :=
  [ ("add_l", jRes jET (do let x ← a.add b; x.add c)),
    ("add_r", jRes jET (do let x ← b.add c; a.add x)),
    ("sub_l", jRes jET (do let x ← a.sub b; x.sub c)),
    ("sub_r", jRes jET (do let x ← b.add c; a.sub x)),
    ("lt_ab", jRes jBool (a.lt b)),
    ("lt_bc", jRes jBool (b.lt c)),
    ("lt_ac", jRes jBool (a.lt c)),
    ("eq_ab", jRes jBool (a.eq b)),
    ("eq_bc", jRes jBool (b.eq c)),
    ("eq_ac", jRes jBool (a.eq c)) ]

def handleE (j : Json) : Except String Json := do
  let kind ← fldStr j "kind"
  match kind with
  | "unary" =>
    let a ← getET j "a"
    let k ← fldInt j "k"
    return Json.mkObj (unaryObs "" a ++ [("mul", jET (a.mul k)),
      ("zero", jET EventTime.zero), ("invalid", jET EventTime.invalid)])
  | "pair" =>
    let a ← getET j "a"
    let b ← getET j "b"
    return Json.mkObj (pairObs "" a b)
  | "triple" =>
    let a ← getET j "a"
    let b ← getET j "b"
    let c ← getET j "c"
    return Json.mkObj (tripleObs a b c)
  | k => throw s!"unknown kind {k}"

/-- Suite handler: one JSON case in, one JSON reply out. -/
def handle (j : Json) : Json := guardE (handleE j)

end ErdosVerif.Driver.Time
