/-
Driver for suite "release" (property C19): release policies, fuzz, closed-loop
bookkeeping, workload loader, worker loader.  One JSON case in, one reply out.
-/
import ErdosVerif.Driver.Util
import ErdosVerif.Model.Release
import ErdosVerif.Model.Loader
namespace ErdosVerif.Driver.Release
open Lean ErdosVerif.Driver ErdosVerif.Release ErdosVerif.Loader

/-! ### decoding -/

def oInt (j : Json) (k : String) : Except String (Option Int) :=
  match fldOpt j k with
  | none => pure none
  | some v => do pure (some (← v.getInt?))

def oStr (j : Json) (k : String) : Except String (Option String) :=
  match fldOpt j k with
  | none => pure none
  | some v => do pure (some (← v.getStr?))

def dBool (j : Json) (k : String) : Bool :=
  match fldOpt j k with
  | some (.bool b) => b
  | _ => false

def oArr (j : Json) (k : String) : Except String (Option (List Json)) :=
  match fldOpt j k with
  | none => pure none
  | some v => do pure (some (← v.getArr?).toList)

def dInt (j : Json) (k : String) (d : Int) : Except String Int := do
  pure ((← oInt j k).getD d)

def intList (l : List Json) : Except String (List Int) := mapM' (fun (v : Json) => v.getInt?) l

def parseKind : String → Except String Kind
  | "periodic" => pure .periodic
  | "fixed" => pure .fixed
  | "poisson" => pure .poisson
  | "gamma" => pure .gamma
  | "closed_loop" => pure .closedLoop
  | s => .error s!"bad-kind {s}"

def kindStr : Kind → String
  | .periodic => "periodic"
  | .fixed => "fixed"
  | .poisson => "poisson"
  | .gamma => "gamma"
  | .closedLoop => "closed_loop"

def parseDraws (v : Option Json) : Except String Draws :=
  match v with
  | none => pure .none
  | some j =>
    match fldOpt j "ints" with
    | some a => do pure (.ints (← intList (← a.getArr?).toList))
    | none => do
      let den ← fldNat j "den"
      let nums ← intList (← fldArr j "nums")
      pure (.dyadic den nums)

def parsePolicy (j : Json) : Except String Policy := do
  pure { kind := ← parseKind (← fldStr j "kind")
         period := ← dInt j "period" (-1)
         n := ← dInt j "n" (-1)
         conc := ← dInt j "conc" 0
         start := ← dInt j "start" 0 }

def parseResReq (j : Json) : Except String ResReqD := do
  pure { key := ← fldStr j "key", qty := ← fldInt j "qty" }

def parseStrategy (j : Json) : Except String StrategyD := do
  let res ← match ← oArr j "res" with
    | none => pure none
    | some l => do pure (some (← mapM' parseResReq l))
  pure { res := res, batch := ← oInt j "batch", runtime := ← oInt j "runtime" }

def parseStrategies (j : Json) (k : String) : Except String (Option (List StrategyD)) := do
  match ← oArr j k with
  | none => pure none
  | some l => do pure (some (← mapM' parseStrategy l))

def parseProfile (j : Json) : Except String ProfileD := do
  pure { name := ← oStr j "name", loading := ← parseStrategies j "loading", exec := ← parseStrategies j "exec" }

def parseNode (j : Json) : Except String NodeD := do
  let ch ← match ← oArr j "children" with
    | none => pure none
    | some l => do pure (some (← mapM' (fun (v : Json) => v.getStr?) l))
  pure { name := ← fldStr j "name", profile := ← oStr j "profile", slo := ← oInt j "slo"
         cond := dBool j "cond", term := dBool j "term", prob := ← oInt j "prob", children := ch }

def parseGraph (j : Json) : Except String GraphD := do
  let nodes ← match ← oArr j "nodes" with
    | none => pure none
    | some l => do pure (some (← mapM' parseNode l))
  let var ← match ← oArr j "variance" with
    | some [a, b] => do pure (some ((← a.getInt?), (← b.getInt?)))
    | none => pure none
    | _ => .error "bad-variance"
  pure { name := ← oStr j "name", nodes := nodes, policy := ← oStr j "policy"
         period := ← oInt j "period", invocations := ← oInt j "invocations"
         concurrency := ← oInt j "concurrency", start := ← oInt j "start"
         rate := dBool j "rate", coefficient := dBool j "coefficient", variance := var }

def parseWorkloadD (j : Json) : Except String WorkloadD := do
  let ps ← match ← oArr j "profiles" with
    | none => pure none
    | some l => do pure (some (← mapM' parseProfile l))
  let gs ← match ← oArr j "graphs" with
    | none => pure none
    | some l => do pure (some (← mapM' parseGraph l))
  pure { profiles := ps, graphs := gs }

def parseFlags (j : Json) : Except String Flags := do
  pure { period := ← dInt j "period" 0, n := ← dInt j "n" 0, rate := dBool j "rate", coef := dBool j "coef"
         slo := ← dInt j "slo" (-1), unique := dBool j "unique", repl := ← dInt j "repl" 1
         minDeadline := ← dInt j "min_deadline" 0
         maxDeadline := ← dInt j "max_deadline" 9223372036854775807
         loopTimeout := ← dInt j "loop_timeout" 9223372036854775807 }

def parsePool (j : Json) : Except String PoolD := do
  let ws ← match ← oArr j "workers" with
    | none => pure none
    | some l => do
      pure (some (← mapM' (fun (w : Json) => do
        let rs ← match ← oArr w "resources" with
          | none => pure none
          | some rl => do
            pure (some (← mapM' (fun (r : Json) => do
              pure ({ name := ← oStr r "name", qty := ← oInt r "quantity" } : WResD)) rl))
        pure ({ name := ← oStr w "name", resources := rs } : WorkerD)) l))
  pure { name := ← oStr j "name", workers := ws }

/-! ### encoding -/

def jStr (s : String) : Json := Json.str s

def resJ (r : Res) : Json := Json.arr #[jStr r.name, jStr r.id, jInt r.qty]

def strategyJ (s : Strategy) : Json :=
  Json.mkObj [("res", match s.res with | none => Json.null | some l => jList resJ l),
              ("batch", jInt s.batch), ("runtime", jInt s.runtime)]

def instJ (p : ProfileInst) : Json :=
  Json.mkObj [("name", jStr p.name), ("loading", jList strategyJ p.loading), ("exec", jList strategyJ p.exec)]

def policyJ (p : Policy) : Json :=
  Json.mkObj [("kind", jStr (kindStr p.kind)), ("period", jInt p.period), ("n", jInt p.n),
              ("conc", jInt p.conc), ("start", jInt p.start)]

def nameOf (jobs : List Job) (i : Nat) : String := (jobs.getD i default).name

def jobGraphJ (insts : List ProfileInst) (jg : JobGraph) (ls : LoopState) : Json :=
  Json.mkObj [
    ("name", jStr jg.name), ("policy", policyJ jg.policy),
    ("variance", Json.arr #[jInt jg.variance.1, jInt jg.variance.2]),
    ("jobs", jList (fun (p : Job × List Nat) =>
      Json.mkObj [("name", jStr p.1.name), ("profile", jNat p.1.profile), ("slo", jInt p.1.slo),
                  ("cond", Json.bool p.1.cond), ("term", Json.bool p.1.term), ("prob", jInt p.1.prob),
                  ("children", jList (fun c => jStr (nameOf jg.jobs c)) p.2)])
      (jg.jobs.zip jg.children)),
    -- an empty graph has `completion_time = None` (only `None.fuzz` fails, on the first release)
    ("T", if jg.jobs.isEmpty then jStr "None" else
          match completionTime insts jg with | .ok t => jInt t | .error e => jStr e),
    ("remaining", jInt ls.remaining), ("index", jInt ls.index)]

def taskGraphJ (jg : JobGraph) (tg : TaskGraph) : Json :=
  Json.mkObj [
    ("name", jStr tg.name),
    ("ids", jList (fun (t : Task) => jNat t.id) tg.tasks),
    ("tasks", jList (fun i =>
      let t := tg.tasks.getD i default
      Json.mkObj [("name", jStr t.name), ("tg", jStr t.taskGraph), ("job", jStr (nameOf jg.jobs t.job)),
                  ("ts", jInt t.timestamp), ("release", jInt t.release), ("deadline", jInt t.deadline),
                  ("profile", jNat t.profile), ("prob", jInt t.prob),
                  ("children", jList (fun c => jStr (tg.tasks.getD c default).name) (tg.children.getD i []))])
      tg.order)]

def loadedJ (ld : Loaded) : Json :=
  Json.mkObj [
    ("insts", jList instJ ld.insts),
    ("job_graphs", jList (fun (p : JobGraph × LoopState) => jobGraphJ ld.insts p.1 p.2) (ld.jobGraphs.zip ld.loops)),
    ("task_graphs", Json.arr ((ld.jobGraphs.zip ld.taskGraphs).flatMap
        (fun (p : JobGraph × List TaskGraph) => p.2.map (taskGraphJ p.1))).toArray)]

def poolJ (p : Pool) : Json :=
  Json.mkObj [("name", jStr p.name),
    ("workers", jList (fun (w : Worker) =>
      Json.mkObj [("name", jStr w.name), ("resources", jList resJ w.resources)]) p.workers)]

def exceptJ (r : Except String Json) : Json :=
  match r with
  | .ok j => Json.mkObj [("ok", j)]
  | .error e => errJ e

/-! ### operations -/

/-- history of completions against a loaded workload: `[[graph index, tg index, finish]]` -/
def runHistory (f : Flags) : Loaded → List (Nat × Int × Int) → List Json → Loaded × List Json
  | ld, [], acc => (ld, acc)
  | ld, (gi, idx, fin) :: h, acc =>
    match notifyCompletion f ld gi idx fin with
    | .error e => (ld, acc ++ [errJ e])
    | .ok (ld1, none) => runHistory f ld1 h (acc ++ [Json.null])
    | .ok (ld1, some tg) => runHistory f ld1 h (acc ++ [taskGraphJ (ld1.jobGraphs.getD gi default) tg])

def parseHistory (l : List Json) : Except String (List (Nat × Int × Int)) :=
  mapM' (fun (v : Json) => do
    match (← v.getArr?).toList with
    | [a, b, c] => pure ((← a.getNat?), (← b.getInt?), (← c.getInt?))
    | _ => .error "bad-history") l

def handleE (j : Json) : Except String Json := do
  match ← fldStr j "op" with
  | "policy" =>
    let p0 ← parsePolicy j
    match (if p0.kind = .closedLoop then mkClosedLoop p0.conc p0.n p0.start else .ok p0) with
    | .error e => pure (errJ e)
    | .ok p =>
    let h ← oInt j "horizon"
    let d ← parseDraws (fldOpt j "draws")
    pure (exceptJ ((getReleaseTimes p h d).map (jList jInt)))
  | "fuzz" =>
    pure (Json.mkObj [("ok", jInt (fuzz (← fldInt j "T") (← fldInt j "a") (← fldInt j "b")
      (← fldInt j "minb") (← fldInt j "maxb") (← fldInt j "rn")))])
  | "loop" =>
    let s0 := loopInit (← fldInt j "conc") (← fldInt j "n") (← fldInt j "start")
    let hist ← mapM' (fun (v : Json) => do
      match (← v.getArr?).toList with
      | [a, b] => pure ((← a.getInt?), (← b.getInt?))
      | _ => .error "bad-history") (← fldArr j "history")
    let (_, trace) := hist.foldl (fun (acc : LoopState × List Json) (e : Int × Int) =>
      let (s, tr) := acc
      let (s1, r) := loopComplete s e.1 e.2
      (s1, tr ++ [Json.mkObj [("released", jOptInt r), ("inflight", jList jInt s1.inflight),
                              ("remaining", jInt s1.remaining), ("index", jInt s1.index)]])) (s0, [])
    let sf := loopRun s0 hist
    pure (Json.mkObj [("init", Json.mkObj [("inflight", jList jInt s0.inflight), ("remaining", jInt s0.remaining),
                                            ("index", jInt s0.index)]),
                      ("trace", Json.arr trace.toArray),
                      ("released", jList (fun (p : Int × Int) => Json.arr #[jInt p.1, jInt p.2]) sf.released)])
  | "workload" =>
    let d ← parseWorkloadD (← fld j "desc")
    let f ← parseFlags (← fld j "flags")
    let tape ← intList (← fldArr j "tape")
    let draws ← mapM' (fun v => parseDraws (some v)) (← fldArr j "draws")
    let hist ← parseHistory ((← oArr j "history").getD [])
    match loadWorkload d f tape draws with
    | .error e => pure (errJ e)
    | .ok ld =>
      let (ld1, rel) := runHistory f ld hist []
      pure (Json.mkObj [("ok", loadedJ ld), ("history", Json.arr rel.toArray),
                        ("loops", jList (fun (s : LoopState) =>
                          Json.mkObj [("remaining", jInt s.remaining), ("index", jInt s.index)]) ld1.loops),
                        ("tape_left", jNat ld1.gen.tape.length)])
  | "workers" =>
    let ps ← mapM' parsePool (← fldArr j "pools")
    pure (exceptJ ((loadWorkerPools ps).map (jList poolJ)))
  | op => .error s!"unknown-op {op}"

/-- Suite handler: one JSON case in, one JSON reply out. -/
def handle (j : Json) : Json := guardE (handleE j)

end ErdosVerif.Driver.Release
