import ErdosVerif.Driver.Util
import ErdosVerif.Driver.Ledger
import ErdosVerif.Model.Greedy
/-!
Suite "greedy": one invocation of EDF / FIFO / LSF `schedule()` (C13, greedy clauses of C10, C12).

case:  {"suite":"greedy","policy":"EDF"|"FIFO"|"LSF","enforce":bool,"now":int,
        "pools":[{"workers":[[[name,id|null,q]…]…],                 -- one total vector per worker
                  "running":[{"lid":n,"w":i,"s":strategy,"strats":[strategy…]}…]}…],   -- really placed tasks
        "offer":[{"g":n,"t":n,"graph":str,"state":str,"deadline":int,"release":int,
                  "remaining":int|null,"strats":[strategy…]}…]}      -- get_schedulable_tasks(), in order
reply: {"order":[[g,t]…],"placements":[{"task":[g,t],"kind":"place"|"cancel","pool":i|null,
        "strat":sid|null,"time":int|null}…],"virt0":[pool…],"virt":[pool…],
        "accounted":bool}                 -- virt == the reported placements charged to virt0
     | {"err":"<ExceptionClass>"}
-/
namespace ErdosVerif.Driver.Greedy
open Lean ErdosVerif.Driver ErdosVerif.Model ErdosVerif.Model.Greedy

def parseOffered (j : Json) : Except String Offered := do
  let strats ← mapM' Ledger.parseStrat (← fldArr j "strats")
  let stName ← fldStr j "state"
  let some st := TState.ofName? stName | throw s!"bad state {stName}"
  let remaining ← match fldOpt j "remaining" with
    | none => pure none
    | some v => some <$> v.getInt?
  let task : TaskS :=
    { name := "", conditional := false, terminal := false, prob := 1000, strategies := strats,
      profile := 0, state := st, release := ← fldInt j "release", deadline := ← fldInt j "deadline",
      remaining := remaining }
  return ⟨⟨← fldNat j "g", ← fldNat j "t"⟩, ← fldStr j "graph", task⟩

def parsePool (j : Json) : Except String Pool := do
  let vecs ← mapM' Ledger.parseVec (← fldArr j "workers")
  let mut p : Pool := ⟨vecs.map Worker.ofVec, []⟩
  -- the cluster's construction history: the really placed tasks in placement order; `gone` = tasks that ran on the
  -- worker earlier and were removed since (they leave holes in the per-instance ledger)
  match fldOpt j "history" with
  | some hj =>
    for r in ← hj.getArr? do
      if (← fldStr r "op") == "remove" then
        match p.removeTask (← fldNat r "lid") with
        | (p', .ok) => p := p'
        | _ => throw "earlier task could not be removed"
      else
        let strats ← mapM' Ledger.parseStrat (← fldArr r "strats")
        let s ← Ledger.parseStrat (← fld r "s")
        match p.placeTask (← fldNat r "lid") strats (some s) (some (← fldNat r "w")) with
        | (p', .ok true) => p := p'
        | _ => throw "task of the construction history does not fit the worker it is said to run on"
  | none =>
    for r in ← fldArr j "running" do
      let strats ← mapM' Ledger.parseStrat (← fldArr r "strats")
      let s ← Ledger.parseStrat (← fld r "s")
      match p.placeTask (← fldNat r "lid") strats (some s) (some (← fldNat r "w")) with
      | (p', .ok true) => p := p'
      | _ => throw "running task does not fit the worker it is said to run on"
  -- work profiles whose load is in progress on a worker (`Worker.load_profile` called, not yet stepped)
  match fldOpt j "profiles" with
  | none => pure ()
  | some pj =>
    for r in ← pj.getArr? do
      let s ← Ledger.parseStrat (← fld r "s")
      match p.loadProfile (← fldNat r "p") s (some (← fldNat r "w")) with
      | (p', .ok) => p := p'
      | _ => throw "loading profile does not fit the worker it is said to load on"
  return p

def jWorkerV (w : Worker) : Json :=
  Json.mkObj [
    ("avail", Ledger.jVec w.res.avail),
    ("placed", jList (fun p => Json.arr #[jNat p.1, jNat p.2.sid]) w.placed)]

def jPoolV (p : Pool) : Json :=
  Json.mkObj [
    ("placed", jList (fun q => Json.arr #[jNat q.1, jNat q.2]) p.placed),
    ("workers", jList jWorkerV p.workers)]

def jTid (t : TaskId) : Json := Json.arr #[jNat t.g, jNat t.t]

def jPlacement (p : PlacementS) : Json :=
  Json.mkObj [
    ("task", jTid p.task),
    ("kind", Json.str (match p.kind with | .cancel => "cancel" | .place => "place" | .load => "load" | .evict => "evict")),
    ("pool", jOptNat p.pool),
    ("worker", jOptNat p.worker),
    ("strat", jOptNat (p.strat.map (·.sid))),
    ("time", jOptInt p.time)]

def runCase (j : Json) : Except String Json := do
  let polName ← fldStr j "policy"
  let some pol := Policy.ofName? polName | throw s!"bad policy {polName}"
  let cfg : Cfg := ⟨pol, ← fldBool j "enforce", ← fldInt j "now"⟩
  let live ← mapM' parsePool (← fldArr j "pools")
  let offer ← mapM' parseOffered (← fldArr j "offer")
  match schedule cfg offer live with
  | .error e => return errJ e.name
  | .ok r =>
    let acc := accountAll r.virt0 r.order r.placements
    return Json.mkObj [
      ("order", jList (fun o => jTid o.id) r.order),
      ("placements", jList jPlacement r.placements),
      ("virt0", jList jPoolV r.virt0),
      ("virt", jList jPoolV r.virt),
      ("accounted", Json.bool ((jList jPoolV acc).compress == (jList jPoolV r.virt).compress))]

def handle (j : Json) : Json := guardE (runCase j)

end ErdosVerif.Driver.Greedy
