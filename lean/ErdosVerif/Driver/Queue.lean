/-
Driver for suite "queue" (M2, property C16).

Case: {"suite":"queue",
       "events":[{"time":int(µs),"etype":nat,"task":str|null}, …]      -- eid = position
       "ops":[{"op":"add","e":eid} | {"op":"remove","e":eid} | {"op":"next"} | {"op":"peek"}
              | {"op":"next_of_type","t":nat} | {"op":"retime","e":eid,"t":int}
              | {"op":"reheapify"} | {"op":"retime_reheapify","e":eid,"t":int}
              | {"op":"len"} | {"op":"sorted","es":[eid…]} | {"op":"lt","e":eid,"f":eid}
              | {"op":"task_types"}]}
Reply: {"steps":[{"out":…,"q":[eid…]}, …]}: the outcome of every operation and the
internal list (identities, in list order) after it. Events are mutable objects: `retime`
changes the object whether or not it is queued.
-/
import ErdosVerif.Driver.Util
import ErdosVerif.Model.Event
namespace ErdosVerif.Driver.Queue
open Lean ErdosVerif.Driver ErdosVerif.Model

structure St where
  evs : Array Event
  q : EventQueue

def getEvent (i : Nat) (j : Json) : Except String Event := do
  let t ← fldInt j "time"
  let ty ← fldNat j "etype"
  let task ← match fldOpt j "task" with
    | none => pure none
    | some v => do pure (some (← v.getStr?))
  return ⟨i, t, ty, task⟩

def getEvents : Nat → List Json → Except String (List Event)
  | _, [] => .ok []
  | i, j :: js => do
    let e ← getEvent i j
    let es ← getEvents (i + 1) js
    return e :: es

def lookup (s : St) (i : Nat) : Except String Event :=
  match s.evs[i]? with
  | some e => .ok e
  | none => .error s!"bad eid {i}"

def jOptEid : Option Event → Json
  | none => Json.null
  | some e => jNat e.eid

def step (s : St) (j : Json) : Except String (St × Json) := do
  let op ← fldStr j "op"
  match op with
  | "add" =>
    let e ← lookup s (← fldNat j "e")
    return ({ s with q := s.q.addEvent e }, Json.null)
  | "remove" =>
    let e ← lookup s (← fldNat j "e")
    match s.q.removeEvent e.eid with
    | .ok q => return ({ s with q := q }, Json.null)
    | .error c => return (s, errJ c)
  | "next" =>
    match s.q.next with
    | .ok (e, q) => return ({ s with q := q }, jNat e.eid)
    | .error c => return (s, errJ c)
  | "peek" => return (s, jOptEid s.q.peek)
  | "next_of_type" => return (s, jOptEid (s.q.nextOfType (← fldNat j "t")))
  | "retime" =>
    let e ← lookup s (← fldNat j "e")
    let t ← fldInt j "t"
    return ({ evs := s.evs.set! e.eid { e with time := t }, q := s.q.retime e.eid t }, Json.null)
  | "reheapify" => return ({ s with q := s.q.reheapify }, Json.null)
  | "retime_reheapify" =>
    let e ← lookup s (← fldNat j "e")
    let t ← fldInt j "t"
    return ({ evs := s.evs.set! e.eid { e with time := t }, q := s.q.retimeReheapify e.eid t }, Json.null)
  | "len" => return (s, jNat s.q.size)
  | "task_types" =>
    -- values of the event types the model treats as task-carrying (ties `taskEventTypeNames`
    -- and the generated enum table to the constructor checks of the real `Event`)
    return (s, jList jNat ((taskEventTypeNames.filterMap eventTypeValue?).toArray.qsort (· < ·)).toList)
  | "sorted" =>
    let ids ← fldArr j "es"
    let es ← mapM' (fun v => do lookup s (← v.getNat?)) ids
    return (s, jList (fun e => jNat e.eid) (EventQueue.sorted es))
  | "lt" =>
    let e ← lookup s (← fldNat j "e")
    let f ← lookup s (← fldNat j "f")
    return (s, Json.bool (Event.lt e f))
  | o => throw s!"unknown op {o}"

def runOps : St → List Json → Except String (List Json)
  | _, [] => .ok []
  | s, j :: js => do
    let (s', out) ← step s j
    let rest ← runOps s' js
    return Json.mkObj [("out", out), ("q", jList (fun e => jNat e.eid) s'.q.toList)] :: rest

def handleE (j : Json) : Except String Json := do
  let evs ← getEvents 0 (← fldArr j "events")
  let ops ← fldArr j "ops"
  let steps ← runOps ⟨evs.toArray, EventQueue.empty⟩ ops
  return Json.mkObj [("steps", Json.arr steps.toArray)]

/-- Suite handler: one JSON case in, one JSON reply out. -/
def handle (j : Json) : Json := guardE (handleE j)

end ErdosVerif.Driver.Queue
