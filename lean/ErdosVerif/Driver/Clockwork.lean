import ErdosVerif.Driver.Util
import ErdosVerif.Model.Clockwork
namespace ErdosVerif.Driver.Clockwork
open Lean ErdosVerif.Driver ErdosVerif.Clockwork

/-
Case:
  {"suite":"clockwork","goal":"clockwork"|"least_slack",
   "models":[{"strategies":[{"batch":b,"runtime":r,"req":[[name,q],..]}],"has_load":bool}],
   "tasks":[{"model":m,"deadline":d}],            -- task id = position
   "start":[m,..],                                 -- models registered by start(), in order
   "invocations":[{"now":t,"offered":[tid..],
                   "workers":[{"pool":p,"loaded":[m..],"avail":[[name,q],..]}],
                   "load_err":null|cls}]}
Reply:
  {"steps":[{"err":null|cls,"cancels":[tid],"batches":[{"model","strategy","worker","tids"}],
             "fuel_out":bool,
             "state":[{"mid":m,"tasks":[[tid,cnt]..],"queues":[[tid..]..]}]}]}
-/

def parseResVec (j : Json) : Except String ResVec := do
  let arr ← j.getArr?
  mapM' (fun e => do
    let p ← e.getArr?
    match p.toList with
    | [a, b] => return ((← a.getNat?), (← b.getNat?))
    | _ => throw "bad-resvec") arr.toList

def parseStrategy (j : Json) : Except String Strategy := do
  return { batch := ← fldNat j "batch", runtime := ← fldInt j "runtime",
           req := ← parseResVec (← fld j "req") }

def parseModel (j : Json) : Except String ModelCfg := do
  return { strategies := ← mapM' parseStrategy (← fldArr j "strategies"),
           hasLoad := ← fldBool j "has_load" }

def parseTask (j : Json) : Except String TaskCfg := do
  return { model := ← fldNat j "model", deadline := ← fldInt j "deadline" }

def parseNats (l : List Json) : Except String (List Nat) := mapM' (fun x => x.getNat?) l

def parseWorker (j : Json) : Except String WorkerView := do
  return { pool := ← fldNat j "pool", loaded := ← parseNats (← fldArr j "loaded"),
           avail := ← parseResVec (← fld j "avail") }

def parseInvocation (j : Json) : Except String Invocation := do
  return { now := ← fldInt j "now", offered := ← parseNats (← fldArr j "offered"),
           workers := ← mapM' parseWorker (← fldArr j "workers"),
           loadErr := (fldOpt j "load_err").bind (fun x => x.getStr?.toOption) }

def jOptStr : Option String → Json
  | none => Json.null
  | some s => Json.str s

def jBatch (b : Batch) : Json :=
  Json.mkObj [("model", jNat b.model), ("strategy", jNat b.strategy), ("worker", jNat b.worker),
              ("tids", jList jNat b.tids)]

def jMState (s : MState) : Json :=
  Json.mkObj [("mid", jNat s.mid),
              ("tasks", jList (fun e => Json.arr #[jNat e.tid, jInt e.cnt]) s.tasks),
              ("queues", jList (fun q => jList (fun r => jNat r.tid) q) s.queues)]

def jStep (r : SState × StepOut) : Json :=
  Json.mkObj [("err", jOptStr r.2.err), ("cancels", jList jNat r.2.cancels),
              ("batches", jList jBatch r.2.batches), ("fuel_out", Json.bool r.2.fuelOut),
              ("state", jList jMState r.1)]

def handleE (j : Json) : Except String Json := do
  let goal := match fldStr j "goal" with
    | .ok "least_slack" => Goal.leastSlack
    | _ => Goal.clockwork
  let cfg : Cfg := { models := ← mapM' parseModel (← fldArr j "models"),
                     tasks := ← mapM' parseTask (← fldArr j "tasks"), goal := goal }
  let start ← parseNats (← fldArr j "start")
  let invs ← mapM' parseInvocation (← fldArr j "invocations")
  let steps := run cfg (startModels cfg start) invs
  return Json.mkObj [("steps", jList jStep steps)]

/-- Suite handler: one JSON case in, one JSON reply out. -/
def handle (j : Json) : Json := guardE (handleE j)

end ErdosVerif.Driver.Clockwork
