import ErdosVerif.Driver.Util
import ErdosVerif.Model.Ledger
/-!
Suite "ledger": histories of operations over pools of workers (C04, and the
ledger part of C01/C10/C13).

case:  {"suite":"ledger","init":[[[name,id|null,q]…]…],           -- one vector per worker of pool object 0
        "ops":[{"op":…,"obj":i,…}…], "keys":[[name,id|null]…], "strats":[strategy…]}
reply: {"obs":[{"out":"ok"|"<ExceptionClass>","ret":…,"snap":[pool…]}…]}  -- snapshot of every object after every op
-/
namespace ErdosVerif.Driver.Ledger
open Lean ErdosVerif.Driver ErdosVerif.Model

def parseRes (j : Json) : Except String Res := do
  let a ← j.getArr?
  let name ← (a[0]?.getD Json.null).getStr?
  let id ← match a[1]?.getD Json.null with
    | .null => pure none
    | v => (some <$> v.getNat?)
  return ⟨name, id⟩

def parseVec (j : Json) : Except String Vec := do
  let a ← j.getArr?
  mapM' (fun e => do
    let r ← parseRes e
    let q ← ((← e.getArr?)[2]?.getD Json.null).getNat?
    return (r, q)) a.toList

def parseComp (j : Json) : Except String Comp := do
  let a ← j.getArr?
  let kind ← (a[0]?.getD Json.null).getStr?
  let n ← (a[1]?.getD Json.null).getNat?
  match kind with
  | "task" => return .task n
  | "profile" => return .profile n
  | "batch" => return .batch n
  | k => throw s!"bad comp kind {k}"

def parseStrat (j : Json) : Except String Strategy := do
  return ⟨← fldNat j "sid", ← fldBool j "batch", ← fldInt j "bs", ← fldInt j "rt", ← parseVec (← fld j "req")⟩

def optNat (j : Json) (k : String) : Except String (Option Nat) :=
  match fldOpt j k with
  | none => pure none
  | some v => some <$> v.getNat?

def parseOp (j : Json) : Except String Op := do
  let op ← fldStr j "op"
  match op with
  | "add_resource" => return .addResource (← fldNat j "w") (← parseRes (← fld j "k")) (← fldNat j "q")
  | "allocate" => return .allocate (← fldNat j "w") (← parseRes (← fld j "k")) (← parseComp (← fld j "c")) (← fldNat j "q")
  | "allocate_multiple" => return .allocateMultiple (← fldNat j "w") (← parseVec (← fld j "req")) (← parseComp (← fld j "c"))
  | "deallocate" => return .deallocate (← fldNat j "w") (← parseComp (← fld j "c"))
  | "get_allocated_res" => return .getAllocatedRes (← fldNat j "w") (← parseComp (← fld j "c"))
  | "w_place" => return .wPlace (← fldNat j "w") (← fldNat j "t") (← parseStrat (← fld j "s"))
  | "w_remove" => return .wRemove (← fldNat j "w") (← fldNat j "t")
  | "w_load" => return .wLoad (← fldNat j "w") (← fldNat j "p") (← parseStrat (← fld j "s"))
  | "w_evict" => return .wEvict (← fldNat j "w") (← fldNat j "p")
  | "w_get_allocated" => return .wGetAllocated (← fldNat j "w") (← fldNat j "t")
  | "step" => return .step (← fldInt j "dt")
  | "p_place" =>
    let strats ← mapM' parseStrat (← fldArr j "strats")
    let s? ← match fldOpt j "s" with
      | none => pure none
      | some v => some <$> parseStrat v
    return .pPlace (← fldNat j "t") strats s? (← optNat j "wid")
  | "p_remove" => return .pRemove (← fldNat j "t")
  | "p_load" => return .pLoad (← fldNat j "p") (← parseStrat (← fld j "s")) (← optNat j "wid")
  | "p_evict" => return .pEvict (← fldNat j "p") (← optNat j "wid")
  | o => throw s!"bad op {o}"

def jRes (r : Res) : List Json := [Json.str r.name, jOptNat r.id]
def jVec (v : Vec) : Json := jList (fun p => Json.arr (jRes p.1 ++ [jNat p.2]).toArray) v
def jPairs (v : List (Res × Nat)) : Json := jVec v

def jComp (w : Worker) : Comp → Json
  | .task n => Json.str s!"t{n}"
  | .profile n => Json.str s!"p{n}"
  | .batch g =>
    match w.batchTask.find? (fun p => p.2 == Comp.batch g) with
    | some (sid, _) => Json.str s!"B{sid}"
    | none => Json.str "Borphan"

def jProf (l : AList Nat Strategy) : Json :=
  jList (fun p => Json.arr #[jNat p.1, jInt p.2.runtime, jVec p.2.req]) l

def jWorker (keys : List Res) (strats : List Strategy) (w : Worker) : Json :=
  Json.mkObj [
    ("avail", jVec w.res.avail),
    ("total", jVec w.res.total),
    ("allocs", jList (fun p => Json.arr #[jComp w p.1, jPairs p.2]) w.res.allocs),
    ("placed", jList (fun p => Json.arr #[jNat p.1, jNat p.2.sid]) w.placed),
    ("batches", jList (fun p => Json.arr #[jNat p.1, jList jNat (p.2.mergeSort (· ≤ ·))]) w.batches),
    ("batch_task", jList (fun p => Json.arr #[jNat p.1, jComp w p.2]) w.batchTask),
    ("avail_prof", jProf w.availProf),
    ("pend_prof", jProf w.pendProf),
    ("q_avail", jList (fun k => jNat (w.res.availQ k)) keys),
    ("q_total", jList (fun k => jNat (w.res.totalQ k)) keys),
    ("q_alloc", jList (fun k => jInt (w.res.allocatedQ k)) keys),
    ("can", jList (fun s => Json.bool (w.canAccommodate s)) strats),
    ("full", Json.bool w.isFull)]

def jPool (keys : List Res) (strats : List Strategy) (p : Pool) : Json :=
  Json.mkObj [
    ("placed", jList (fun q => Json.arr #[jNat q.1, jNat q.2]) p.placed),
    ("workers", jList (jWorker keys strats) p.workers),
    ("can", jList (fun s => Json.bool (p.canAccommodate s)) strats),
    ("full", Json.bool p.isFull)]

def jOutcome : Outcome → Json
  | .ok => Json.str "ok"
  | .raised e => Json.str e.name

/-- Return value of the Python call where it has one. -/
def retOf (p : Pool) : Op → Json
  | .pPlace t strats s? wid? =>
    match (p.placeTask t strats s? wid?).2 with
    | .ok b => Json.bool b
    | .error _ => Json.null
  | .getAllocatedRes w c =>
    match p.workers[w]? with
    | some x => jList (fun q => Json.arr (jRes q.1 ++ [jNat q.2]).toArray) (x.res.getAllocated c).2
    | none => Json.null
  | .wGetAllocated w t =>
    match p.workers[w]? with
    | some x => match (x.getAllocated t).2 with
      | .ok l => jList (fun q => Json.arr (jRes q.1 ++ [jNat q.2]).toArray) l
      | .error _ => Json.null
    | none => Json.null
  | _ => Json.null

def runCase (j : Json) : Except String Json := do
  let init ← mapM' parseVec (← fldArr j "init")
  let keys ← mapM' parseRes (← fldArr j "keys")
  let strats ← mapM' parseStrat (← fldArr j "strats")
  let ops ← fldArr j "ops"
  let mut objs : Array Pool := #[⟨init.map Worker.ofVec, []⟩]
  let mut obs : Array Json := #[]
  for oj in ops do
    let name ← fldStr oj "op"
    let oi ← fldNat oj "obj"
    -- an operation addressed to a copy that was never made (the copy raised): both sides report it and go on
    let some p := objs[oi]?
      | do
        obs := obs.push (Json.mkObj [("out", Json.str "no-such-object"), ("ret", Json.null),
          ("snap", Json.arr (objs.map (jPool keys strats)))])
        continue
    let mut out := Json.str "ok"
    let mut ret := Json.null
    if name == "copy" then
      let (c, o) := p.copy
      out := jOutcome o
      if o == .ok then objs := objs.push c
    else if name == "deepcopy" then
      objs := objs.push p.deepcopy
    else
      let op ← parseOp oj
      ret := retOf p op
      let (p', o) := p.apply op
      objs := objs.set! oi p'
      out := jOutcome o
    obs := obs.push (Json.mkObj [("out", out), ("ret", ret),
      ("snap", Json.arr (objs.map (jPool keys strats)))])
  return Json.mkObj [("obs", Json.arr obs)]

def handle (j : Json) : Json := guardE (runCase j)

end ErdosVerif.Driver.Ledger
