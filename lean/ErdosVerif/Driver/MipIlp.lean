/-
Driver for suite "mip_ilp": one case = one ILPScheduler invocation.

in : {"suite":"mip_ilp","inst":{…},"sigma":{"<label>":int,…}|null,"opt":bool}
out: {"vars":[…],"constrs":[…],"obj":{…},            -- `gen inst`, rendered with the code's names
      "sat":bool,"violated":[names],"decode":[…],"objval":int,   -- when sigma is given
      "decode_fail":[…], "opt":…}                         -- brute-force optimum when "opt" is true

Variable labels are `name#k` (k-th variable of that name in creation order), the
same labelling the harness applies to the captured Gurobi model.
-/
import ErdosVerif.Driver.Util
import ErdosVerif.Model.Ilp
import ErdosVerif.Model.IlpSpec
namespace ErdosVerif.Driver.MipIlp
open Lean ErdosVerif.Driver ErdosVerif.Mip ErdosVerif.Ilp

def parsePairs (j : Json) (k : String) : Except String (List (String × Nat)) := do
  let l ← fldArr j k
  mapM' (fun e => do
    let a ← e.getArr?
    match a.toList with
    | [n, q] => return ((← n.getStr?), (← q.getNat?))
    | _ => throw "bad-pair") l

def parseStrat (j : Json) : Except String Strat := do
  return { batch := ← fldNat j "batch", runtime := ← fldNat j "runtime", req := ← parsePairs j "req" }

def parseState (s : String) : TState :=
  match s with
  | "VIRTUAL" => .virtual
  | "RELEASED" => .released
  | "SCHEDULED" => .scheduled
  | "RUNNING" => .running
  | _ => .other

def parseTask (j : Json) : Except String TaskI := do
  let strats ← mapM' parseStrat (← fldArr j "strats")
  return { uniq := ← fldStr j "uniq", name := ← fldStr j "name", ts := ← fldInt j "ts",
           graph := ← fldStr j "graph", state := parseState (← fldStr j "state"),
           release := ← fldInt j "release", deadline := ← fldInt j "deadline", strats := strats,
           prevW := ← fldNat j "prevW", prevS := ← fldNat j "prevS" }

def parseWorker (j : Json) : Except String WorkerI := do
  return { name := ← fldStr j "name", pool := ← fldStr j "pool", res := ← parsePairs j "res" }

def parseNode (j : Json) : Except String Node := do
  let st := match fldStr j "state" with
    | .ok s => parseState s
    | .error _ => TState.other
  return { uniq := ← fldStr j "uniq", name := ← fldStr j "name", ts := ← fldInt j "ts",
           graph := ← fldStr j "graph", state := st }

def parseEdge (j : Json) : Except String (String × String) := do
  let a ← j.getArr?
  match a.toList with
  | [p, c] => return ((← p.getStr?), (← c.getStr?))
  | _ => throw "bad-edge"

def parseInst (j : Json) : Except String Inst := do
  let allowed ← mapM' (fun (e : Json) => e.getStr?) (← fldArr j "allowed0")
  return { now := ← fldInt j "now",
           workers := ← mapM' parseWorker (← fldArr j "workers"),
           tasks := ← mapM' parseTask (← fldArr j "tasks"),
           nOffered := ← fldNat j "nOffered",
           nodes := ← mapM' parseNode (← fldArr j "nodes"),
           edges := ← mapM' parseEdge (← fldArr j "edges"),
           enforceDeadlines := ← fldBool j "enforce_deadlines",
           retract := ← fldBool j "retract",
           releaseTaskgraphs := ← fldBool j "release_taskgraphs",
           goalSlack := ← fldBool j "goal_slack",
           allowed0 := allowed }

/-- `name#k` labels in declaration order. -/
def labels (I : Inst) : List (Var × String) :=
  let rec go (ds : List (VarDecl Var)) (seen : List String) (acc : List (Var × String)) : List (Var × String) :=
    match ds with
    | [] => acc.reverse
    | d :: ds =>
      let n := I.varName d.v
      let k := (seen.filter (· == n)).length
      go ds (n :: seen) ((d.v, s!"{n}#{k}") :: acc)
  go I.vars [] []

def labelOf (I : Inst) (ls : List (Var × String)) (v : Var) : String :=
  match ls.find? (fun p => p.1 == v) with
  | some p => p.2
  | none => s!"UNDECLARED:{I.varName v}"

def jLin (lab : Var → String) (e : LinExpr Var) : Json :=
  Json.mkObj [("t", jList (fun (p : Int × Var) => Json.arr #[jInt p.1, Json.str (lab p.2)]) e.terms),
              ("c", jInt e.const)]

def jQuad (lab : Var → String) (q : QuadExpr Var) : Json :=
  Json.mkObj [("q", jList (fun (p : Int × Var × Var) =>
                  Json.arr #[jInt p.1, Json.str (lab p.2.1), Json.str (lab p.2.2)]) q.quad),
              ("l", jLin lab q.lin)]

def jSense : Sense → Json
  | .le => Json.str "<"
  | .ge => Json.str ">"
  | .eq => Json.str "="

def jConstr (lab : Var → String) : Constr Var → Json
  | .lin n e s rhs => Json.mkObj [("kind", "lin"), ("name", n), ("e", jQuad lab (QuadExpr.ofLin e)), ("sense", jSense s), ("rhs", jInt rhs)]
  | .quad n e s rhs => Json.mkObj [("kind", "lin"), ("name", n), ("e", jQuad lab e), ("sense", jSense s), ("rhs", jInt rhs)]
  | .ind n b val e s rhs => Json.mkObj [("kind", "ind"), ("name", n), ("b", Json.str (lab b)), ("val", jInt val),
      ("e", jQuad lab (QuadExpr.ofLin e)), ("sense", jSense s), ("rhs", jInt rhs)]
  | .and n r args => Json.mkObj [("kind", "and"), ("name", n), ("r", Json.str (lab r)), ("args", jList (fun a => Json.str (lab a)) args)]

def jDecl (lab : Var → String) (d : VarDecl Var) : Json :=
  Json.mkObj [("name", Json.str (lab d.v)),
              ("vtype", Json.str (match d.vtype with | .bin => "B" | .int => "I")),
              ("lb", jOptInt d.lb), ("ub", jOptInt d.ub)]

def jDecision (I : Inst) (d : Decision) : Json :=
  match d.placed with
  | none => Json.mkObj [("task", Json.str (I.tname d.task)), ("placed", Json.bool false)]
  | some (w, s, t) => Json.mkObj [("task", Json.str (I.tname d.task)), ("placed", Json.bool true),
      ("worker", jNat w), ("pool", Json.str (I.worker w).pool), ("strategy", jNat s), ("time", jInt t)]

def sigmaOf (ls : List (Var × String)) (j : Json) : Var → Int := fun v =>
  match ls.find? (fun p => p.1 == v) with
  | none => 0
  | some p => match j.getObjVal? p.2 >>= Json.getInt? with
    | .ok n => n
    | .error _ => 0

def handleE (j : Json) : Except String Json := do
  let I ← parseInst (← fld j "inst")
  if let some cls := I.crash then return errJ cls
  let ls := labels I
  let lab := labelOf I ls
  let m := gen I
  let wantModel := (fldBool j "model").toOption.getD true
  let base : List (String × Json) :=
    if wantModel then
      [("vars", jList (jDecl lab) m.vars), ("constrs", jList (jConstr lab) m.constrs),
       ("obj", jQuad lab m.obj)]
    else []
  let base := base ++ [("decode_fail", jList (jDecision I) (decodeFail I)), ("wf", Json.bool I.wf)]
  let withSigma : List (String × Json) :=
    match fldOpt j "sigma" with
    | none => []
    | some sj =>
      let σ := sigmaOf ls sj
      [("sat", Json.bool (decide (sat σ m))),
       ("violated", jList Json.str ((m.vars.filter (fun d => !decide (d.ok σ))).map (fun d => "domain:" ++ lab d.v) ++ violated σ m)),
       ("decode", jList (jDecision I) (decode I σ)),
       ("objval", jInt (objective σ m)),
       ("plan_valid", Json.bool (IlpSpec.validPlanB I (IlpSpec.planOf I σ))),
       ("plan_goodput", jNat (IlpSpec.goodput I (IlpSpec.planOf I σ)))]
  let withOpt : List (String × Json) :=
    match fldOpt j "opt" with
    | some (Json.bool true) =>
      [("opt", jOptNat (IlpSpec.optGoodput I)), ("opt_pw", jOptNat (IlpSpec.optGoodputPW I))]
    | _ => []
  return Json.mkObj (base ++ withSigma ++ withOpt)

def handle (j : Json) : Json := guardE (handleE j)

end ErdosVerif.Driver.MipIlp
