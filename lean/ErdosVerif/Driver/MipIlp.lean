import ErdosVerif.Driver.Util
namespace ErdosVerif.Driver.MipIlp
open Lean ErdosVerif.Driver

/-- Suite handler: one JSON case in, one JSON reply out (stub until the suite is built). -/
def handle (_j : Json) : Json := Json.mkObj [("protocol_error", Json.str "suite-not-built")]

end ErdosVerif.Driver.MipIlp
