import ErdosVerif.Driver.TaskGraph
import ErdosVerif.Model.Sim
/-!
Suite "sim": end-to-end replay of one simulation (world + scheduler-decision tape +
draw tape) through the simulator model; the reply is the full row stream.

case:  {"suite":"sim","flags":{…},"pools":[{"name":…,"workers":[vec…]}…],
        "jobs":[{"name","closed_loop","remaining","index","critical","template":graph}…],
        "graphs":[{"job","timestamp","critical","graph":graph}…],
        "decisions":[{"runtime":…,"placements":[…]}…],"tape":[draw…],"fuel":n}
reply: {"err":null|"<Exception>","rows":[[…]…],"ended":bool,"decisions_left":n,"tape_left":n,"final":[[states…]…]}
-/
namespace ErdosVerif.Driver.Sim
open Lean ErdosVerif.Driver ErdosVerif.Model

def optInt (j : Json) (k : String) : Except String (Option Int) :=
  match fldOpt j k with
  | none => pure none
  | some v => some <$> v.getInt?

def parseFlags (j : Json) : Except String SimFlags := do
  return { loopTimeout := ← fldInt j "loop_timeout", schedFrequency := ← fldInt j "scheduler_frequency",
           schedDelay := ← fldInt j "scheduler_delay", dropSkipped := ← fldBool j "drop_skipped_tasks",
           runAtWorkerFree := ← fldBool j "scheduler_run_at_worker_free",
           updateInterval := ← fldInt j "workload_update_interval", lookahead := ← fldInt j "lookahead",
           preemptive := ← fldBool j "preemptive", retract := ← fldBool j "retract_schedules",
           policy := ← TaskGraph.parsePolicy (← fldStr j "policy"),
           releaseTaskGraphs := ← fldBool j "release_taskgraphs" }

def parsePlacement (j : Json) : Except String PlacementS := do
  let kind ← match ← fldStr j "kind" with
    | "place" => pure PKind.place | "cancel" => pure PKind.cancel
    | "load" => pure PKind.load | "evict" => pure PKind.evict
    | k => throw s!"bad placement kind {k}"
  let strat ← match fldOpt j "strat" with
    | none => pure none
    | some v => some <$> Ledger.parseStrat v
  return { kind := kind, task := ⟨(← Ledger.optNat j "g").getD 0, (← Ledger.optNat j "t").getD 0⟩,
           profile := (← Ledger.optNat j "profile").getD 0, time := ← optInt j "time",
           pool := ← Ledger.optNat j "pool", worker := ← Ledger.optNat j "worker", strat := strat }

def parseErr : String → Except String SErr
  | "ValueError" => pure .valueError | "RuntimeError" => pure .runtimeError
  | "AssertionError" => pure .assertionError | "AttributeError" => pure .attributeError
  | "TypeError" => pure .typeError | "KeyError" => pure .keyError
  | "NotImplementedError" => pure .notImplementedError | "IndexError" => pure .indexError
  | e => throw s!"bad exception class {e}"

def parseDecision (j : Json) : Except String Decision := do
  let raised ← match fldOpt j "raised" with
    | none => pure none
    | some (Json.str e) => some <$> parseErr e
    | some _ => pure none
  return ⟨← mapM' parsePlacement (← fldArr j "placements"), ← fldInt j "runtime", raised⟩

def parsePool (j : Json) : Except String (String × Pool) := do
  let ws ← mapM' Ledger.parseVec (← fldArr j "workers")
  return (← fldStr j "name", ⟨ws.map Worker.ofVec, []⟩)

def parseJob (j : Json) : Except String JobS := do
  return ⟨← fldStr j "name", ← fldBool j "closed_loop", ← fldInt j "remaining", ← fldNat j "index",
          ← TaskGraph.parseGraph (← fld j "template"), ← fldInt j "critical"⟩

def runCase (j : Json) : Except String Json := do
  let flags ← parseFlags (← fld j "flags")
  let pools ← mapM' parsePool (← fldArr j "pools")
  let jobs ← mapM' parseJob (← fldArr j "jobs")
  let graphs ← mapM' (fun gj => do
    let g ← TaskGraph.parseGraph (← fld gj "graph")
    let m : GraphMeta := ⟨← fldNat gj "job", ← fldNat gj "timestamp", ← fldInt gj "critical"⟩
    return (g, m)) (← fldArr j "graphs")
  let decisions ← mapM' parseDecision (← fldArr j "decisions")
  let tape ← mapM' TaskGraph.parseDraw (← fldArr j "tape")
  let fuel ← fldNat j "fuel"
  let s0 : SimS := { flags := flags, jobs := jobs.toArray, allGraphs := (graphs.map (·.1)).toArray,
                     allMeta := (graphs.map (·.2)).toArray, pools := (pools.map (·.2)).toArray,
                     poolNames := (pools.map (·.1)).toArray, tape := tape, decisions := decisions }
  let (err, s) := Sim.simulate s0 fuel
  return Json.mkObj [
    ("err", match err with | none => Json.null | some e => Json.str e.name),
    ("rows", Json.arr (s.rows.map (fun r => Json.arr (r.map Json.str).toArray))),
    ("ended", Json.bool s.ended),
    ("now", jInt s.now),
    ("decisions_left", jNat s.decisions.length),
    ("tape_left", jNat s.tape.length),
    ("queue", Json.arr (s.queue.map (fun e => Json.arr #[jInt e.ev.time, jNat e.ev.etype, Json.str (e.ev.task.getD "")]))),
    ("ngraphs", jNat s.graphs.size),
    ("final", Json.arr (s.graphs.map (fun g => Json.arr (g.tasks.map (fun t => Json.str t.state.name)))))]

def handle (j : Json) : Json := guardE (runCase j)

end ErdosVerif.Driver.Sim
