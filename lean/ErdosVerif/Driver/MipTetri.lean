/-
Driver for suite "mip_tetri": one case = one TetriSched invocation (Gurobi or CPLEX
back-end, selected by `inst.cplex`).

in : {"suite":"mip_tetri","inst":{…},"sigma":{"<label>":int,…}|null,"model":bool}
out: {"nomodel":bool, "den":D, "scaled":[labels],
      "vars":[…],"constrs":[…],"obj":{…},               -- `gen inst`, rendered with the code's names
      "sat":bool,"violated":[names],"decode":[…],"objval":int,   -- when sigma is given
      "addable":[[task,w,k,s],…], "bound":int,            -- C14: cells that could still be added
      "decode_fail":[…],"decode_nomodel":[…],"wf":bool}

The model is integral: the objective and the rows whose JSON carries `"den": D` are the
real ones multiplied by `D`; a variable listed in `"scaled"` stands for `D ·` the real
(continuous) variable.  Variable labels are `name#k` (k-th variable of that name in
creation order), the labelling the harness applies to the captured model.
-/
import ErdosVerif.Driver.Util
import ErdosVerif.Model.Tetri
import ErdosVerif.Model.TetriSpec
import ErdosVerif.Driver.MipTetriBatch
namespace ErdosVerif.Driver.MipTetri
open Lean ErdosVerif.Driver ErdosVerif.Mip ErdosVerif.Tetri

def parsePairs (j : Json) (k : String) : Except String (List (String × Nat)) := do
  let l ← fldArr j k
  mapM' (fun e => do
    let a ← e.getArr?
    match a.toList with
    | [n, q] => return ((← n.getStr?), (← q.getNat?))
    | _ => throw "bad-pair") l

def parseStrat (j : Json) : Except String Strat := do
  return { runtime := ← fldNat j "runtime", req := ← parsePairs j "req" }

def parseState (s : String) : TState :=
  match s with
  | "VIRTUAL" => .virtual
  | "RELEASED" => .released
  | "SCHEDULED" => .scheduled
  | "RUNNING" => .running
  | _ => .other

def parseTask (j : Json) : Except String TaskI := do
  let strats ← mapM' parseStrat (← fldArr j "strats")
  return { uniq := ← fldStr j "uniq", name := ← fldStr j "name", ts := ← fldInt j "ts",
           graph := ← fldStr j "graph", state := parseState (← fldStr j "state"),
           release := ← fldInt j "release", deadline := ← fldInt j "deadline", strats := strats,
           prevW := ← fldNat j "prevW", prevS := ← fldNat j "prevS", remaining := ← fldNat j "remaining" }

def parseWorker (j : Json) : Except String WorkerI := do
  return { name := ← fldStr j "name", pool := ← fldStr j "pool", res := ← parsePairs j "res" }

def parseNode (j : Json) : Except String Node := do
  return { uniq := ← fldStr j "uniq", name := ← fldStr j "name", ts := ← fldInt j "ts",
           graph := ← fldStr j "graph" }

def parseEdge (j : Json) : Except String (String × String) := do
  let a ← j.getArr?
  match a.toList with
  | [p, c] => return ((← p.getStr?), (← c.getStr?))
  | _ => throw "bad-edge"

def parseInst (j : Json) : Except String Inst := do
  return { cplex := ← fldBool j "cplex",
           now := ← fldInt j "now",
           disc := ← fldNat j "disc",
           planAheadOpt := ← fldInt j "plan_ahead",
           workers := ← mapM' parseWorker (← fldArr j "workers"),
           tasks := ← mapM' parseTask (← fldArr j "tasks"),
           nOffered := ← fldNat j "nOffered",
           nodes := ← mapM' parseNode (← fldArr j "nodes"),
           edges := ← mapM' parseEdge (← fldArr j "edges"),
           enforceDeadlines := ← fldBool j "enforce_deadlines",
           retract := ← fldBool j "retract",
           releaseTaskgraphs := ← fldBool j "release_taskgraphs" }

/-- `name#k` labels in declaration order. -/
def labels (I : Inst) (m : Model Var) : List (Var × String) :=
  let rec go (ds : List (VarDecl Var)) (seen : List String) (acc : List (Var × String)) : List (Var × String) :=
    match ds with
    | [] => acc.reverse
    | d :: ds =>
      let n := I.varName d.v
      let k := (seen.filter (· == n)).length
      go ds (n :: seen) ((d.v, s!"{n}#{k}") :: acc)
  go m.vars [] []

def labelOf (I : Inst) (ls : List (Var × String)) (v : Var) : String :=
  match ls.find? (fun p => p.1 == v) with
  | some p => p.2
  | none => s!"UNDECLARED:{I.varName v}"

def jLin (lab : Var → String) (e : LinExpr Var) : Json :=
  Json.mkObj [("t", jList (fun (p : Int × Var) => Json.arr #[jInt p.1, Json.str (lab p.2)]) e.terms),
              ("c", jInt e.const)]

def jSense : Sense → Json
  | .le => Json.str "<"
  | .ge => Json.str ">"
  | .eq => Json.str "="

def jConstr (I : Inst) (lab : Var → String) : Constr Var → Json
  | .lin n e s rhs =>
    Json.mkObj ([("kind", Json.str "lin"), ("name", Json.str n), ("e", jLin lab e), ("sense", jSense s), ("rhs", jInt rhs)] ++
      (if I.scaledRow n then [("den", jNat I.den)] else []))
  | .quad n _ _ _ => Json.mkObj [("kind", "quad"), ("name", n)]
  | .ind n b val e s rhs => Json.mkObj [("kind", "ind"), ("name", n), ("b", Json.str (lab b)), ("val", jInt val),
      ("e", jLin lab e), ("sense", jSense s), ("rhs", jInt rhs)]
  | .and n r args => Json.mkObj [("kind", "and"), ("name", n), ("r", Json.str (lab r)), ("args", jList (fun a => Json.str (lab a)) args)]

def jDecl (lab : Var → String) (d : VarDecl Var) : Json :=
  Json.mkObj [("name", Json.str (lab d.v)),
              ("vtype", Json.str (match d.vtype with | .bin => "B" | .int => "I")),
              ("lb", jOptInt d.lb), ("ub", jOptInt d.ub)]

def jDecision (I : Inst) (d : Decision) : Json :=
  match d.out with
  | .unplaced => Json.mkObj [("task", Json.str (I.tname d.task)), ("kind", "unplaced")]
  | .cancel => Json.mkObj [("task", Json.str (I.tname d.task)), ("kind", "cancel")]
  | .placed w s t => Json.mkObj [("task", Json.str (I.tname d.task)), ("kind", "placed"),
      ("worker", jNat w), ("pool", Json.str (I.worker w).pool), ("strategy", jNat s), ("time", jInt t)]

def sigmaOf (ls : List (Var × String)) (j : Json) : Var → Int := fun v =>
  match ls.find? (fun p => p.1 == v) with
  | none => 0
  | some p => match j.getObjVal? p.2 >>= Json.getInt? with
    | .ok n => n
    | .error _ => 0

def jCell (I : Inst) (c : Nat × Nat × Nat × Nat) : Json :=
  Json.arr #[Json.str (I.tname c.1), jNat c.2.1, jInt (I.slot c.2.2.1), jNat c.2.2.2]

def handleE (j : Json) : Except String Json := do
  let I ← parseInst (← fld j "inst")
  let fixed : List (String × Json) :=
    [("nomodel", Json.bool I.noModel), ("wf", Json.bool I.wf),
     ("acyclic", Json.bool (TetriSpec.wfAcyclic I)),
     ("decode_fail", jList (jDecision I) (decodeFail I)),
     ("decode_nomodel", jList (jDecision I) (decodeNoModel I))]
  if I.noModel then return Json.mkObj fixed
  let m := gen I
  let ls := labels I m
  let lab := labelOf I ls
  let wantModel := (fldBool j "model").toOption.getD true
  let base : List (String × Json) :=
    if wantModel then
      [("vars", jList (jDecl lab) m.vars), ("constrs", jList (jConstr I lab) m.constrs),
       ("obj", jLin lab m.obj.lin), ("den", jNat I.den),
       ("scaled", jList (fun v => Json.str (lab v)) I.scaledVars),
       ("bound", jInt (TetriSpec.objBound I))]
    else []
  let withSigma : List (String × Json) :=
    match fldOpt j "sigma" with
    | none => []
    | some sj =>
      let σ := sigmaOf ls sj
      [("sat", Json.bool (decide (sat σ m))),
       ("violated", jList Json.str ((m.vars.filter (fun d => !decide (d.ok σ))).map (fun d => "domain:" ++ lab d.v) ++ violated σ m)),
       ("decode", jList (jDecision I) (decode I σ)),
       ("objval", jInt (objective σ m)),
       ("plan_valid", Json.bool (TetriSpec.validB I (TetriSpec.planOf I σ))),
       ("addable", jList (jCell I) (TetriSpec.addable I (TetriSpec.planOf I σ)))]
  return Json.mkObj (fixed ++ base ++ withSigma)

/-- Batching mode of the CPLEX scheduler (`inst.batching = true`) has a model of its own
(`Model/TetriBatch.lean`). -/
def isBatching (j : Json) : Bool :=
  match j.getObjVal? "inst" >>= (·.getObjVal? "batching") >>= Json.getBool? with
  | .ok b => b
  | .error _ => false

def handle (j : Json) : Json :=
  if isBatching j then MipTetriBatch.handle j else guardE (handleE j)

end ErdosVerif.Driver.MipTetri
