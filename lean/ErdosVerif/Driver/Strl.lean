import ErdosVerif.Driver.Util
import ErdosVerif.Model.Strl
import ErdosVerif.Model.StrlRef
namespace ErdosVerif.Driver.Strl
open Lean ErdosVerif.Driver ErdosVerif.Strl

/-! Suite "strl": one STRL tree + partitions + context per line.

Request
  {"suite":"strl","parts":[{"id":0,"name":"P0","qty":2},…],"avail":[0,…],
   "now":0,"gran":1,"tree":<node>,"assigns":[[v0,v1,…],…]}
node
  {"t":"choose","name":s,"strategy":s,"parts":[ids],"n":k,"start":t,"dur":d,"u":z}
  {"t":"alloc","name":s,"allocs":[[pid,qty],…],"start":t,"dur":d}
  {"t":"obj"|"min"|"max","name":s,"ch":[node,…]}
  {"t":"lt","name":s,"ch":[a,b]}
  {"t":"scale","name":s,"f":z,"disregard":b,"ch":[c]}
Reply
  {"err":cls} | {"err":null,"vars":[…],"cons":[…],"obj":{…},"results":[…]}
  with "semopt":true in the request the reply carries "semopt": the brute-force optimum of
  the tree under the reference semantics (Model/StrlRef.lean), null if even the empty
  schedule is invalid.
Variables are listed in the model's order; terms and assignments refer to
positions in that list (-1 = constant term).
-/

partial def parseExpr (j : Json) : Except String Expr := do
  let t ← fldStr j "t"
  let name ← fldStr j "name"
  let kids : Except String (List Expr) := do
    let ch ← fldArr j "ch"
    mapM' parseExpr ch
  match t with
  | "choose" =>
    let parts ← (← fldArr j "parts").mapM (fun x => x.getNat?)
    let strategy := match fldStr j "strategy" with | .ok s => s | .error _ => ""
    return .choose name strategy parts (← fldNat j "n") (← fldNat j "start") (← fldNat j "dur") (← fldInt j "u")
  | "alloc" =>
    let al ← (← fldArr j "allocs").mapM (fun x => do
      let a ← x.getArr?
      match a.toList with
      | [p, q] => return ((← p.getNat?), (← q.getNat?))
      | _ => throw "bad alloc")
    return .alloc name al (← fldNat j "start") (← fldNat j "dur")
  | "obj" => return .obj name (← kids)
  | "min" => return .min name (← kids)
  | "max" => return .max name (← kids)
  | "lt" =>
    match (← kids) with
    | [a, b] => return .lt name a b
    | _ => throw "lt-arity"
  | "scale" =>
    match (← kids) with
    | [c] => return .scale name (← fldInt j "f") (← fldBool j "disregard") c
    | _ => throw "scale-arity"
  | k => throw s!"unknown-node {k}"

def parseCtx (j : Json) : Except String Ctx := do
  let parts ← (← fldArr j "parts").mapM (fun p => do
    return ({ id := (← fldNat p "id"), name := (← fldStr p "name"), qty := (← fldNat p "qty") } : Partition))
  let avail ← (← fldArr j "avail").mapM (fun x => x.getNat?)
  return { parts, avail, now := (← fldNat j "now"), gran := (← fldNat j "gran") }

def idxOf (m : MipModel) (v : VarId) : Int :=
  match m.vars.findIdx? (fun x => x.id == v) with
  | some i => i
  | none => -2

def jTerms (m : MipModel) (ts : List (Int × VarId)) : Json :=
  jList (fun (c, v) => Json.arr #[jInt c, jInt (idxOf m v)]) ts

def jUTerms (m : MipModel) (ts : UTerms) : Json :=
  jList (fun (c, v) => Json.arr #[jInt c, match v with
    | some v => jInt (idxOf m v)
    | none => jInt (-1)]) ts

def jOp : Op → String
  | .le => "LE" | .eq => "EQ" | .ge => "GE"

def jModel (m : MipModel) : List (String × Json) :=
  [("vars", jList (fun (v : Var) => Json.mkObj [("name", Json.str v.name),
      ("type", Json.str (match v.ty with | .int => "I" | .bin => "B")),
      ("lb", jOptInt v.lb), ("ub", jOptInt v.ub)]) m.vars),
   ("cons", jList (fun (c : Constr) => Json.mkObj [("name", Json.str c.name),
      ("op", Json.str (jOp c.op)), ("rhs", jInt c.rhs), ("terms", jTerms m c.terms)]) m.cons),
   ("obj", Json.mkObj [("ub", jOptInt m.objUb), ("terms", jUTerms m m.obj)])]

def jPlacement (p : Placement) : Json :=
  Json.mkObj [("name", Json.str p.name), ("start", jInt p.start), ("end", jInt p.stop),
    ("alloc", jList (fun (a : Nat × Int × Int) => Json.arr #[jNat a.1, jInt a.2.1, jInt a.2.2]) p.allocs)]

def jSol (s : Sol) : Json :=
  Json.mkObj [("util", Json.bool s.util), ("start", jOptInt s.start), ("end", jOptInt s.stop),
    ("utility", jOptInt s.utility), ("placements", jList jPlacement s.placements)]

def mkAssign (m : MipModel) (vals : List Int) : Assign := fun v =>
  match m.vars.findIdx? (fun x => x.id == v) with
  | some i => vals.getD i 0
  | none => 0

def handleE (j : Json) : Except String Json := do
  let ctx ← parseCtx j
  let tree ← parseExpr (← fld j "tree")
  match wf ctx tree with
  | some cls => return errJ cls
  | none =>
    let m := compile ctx tree
    let assigns := match fldArr j "assigns" with | .ok a => a | .error _ => []
    let results ← assigns.mapM (fun a => do
      let vals ← (← a.getArr?).toList.mapM (fun x => x.getInt?)
      let σ := mkAssign m vals
      return Json.mkObj [("feasible", Json.bool (m.feasible σ)),
        ("objective_value", jInt (m.objective σ)),
        ("root", jSol (populate ctx σ tree))])
    -- brute-force optimum under the reference semantics (only on request: exponential)
    let semopt : List (String × Json) := match fldBool j "semopt" with
      | .ok true => [("semopt", jOptInt (optUtility ctx tree))]
      | _ => []
    return Json.mkObj ([("err", Json.null)] ++ jModel m ++ [("results", Json.arr results.toArray)] ++ semopt)

/-- Suite handler: one JSON case in, one JSON reply out. -/
def handle (j : Json) : Json := guardE (handleE j)

end ErdosVerif.Driver.Strl
