import ErdosVerif.Driver.Ledger
import ErdosVerif.Model.TaskGraph
/-!
Suite "taskgraph": histories of direct calls on one task graph (C06, C07, C18).

case:  {"suite":"taskgraph","graph":{"name":…,"tasks":[task…],"children":[[…]…],"parents":[[…]…],"topo":[…]},
        "ops":[op…], "tape":[draw…]}
reply: {"obs":[{"out":"ok"|"<ExceptionClass>","ret":…,"tasks":[snapshot…]}…]}
-/
namespace ErdosVerif.Driver.TaskGraph
open Lean ErdosVerif.Driver ErdosVerif.Model

def parseNatList (j : Json) : Except String (List Nat) := do
  mapM' (fun e => e.getNat?) (← j.getArr?).toList

def parseTask (j : Json) : Except String TaskS := do
  let strats ← mapM' Ledger.parseStrat (← fldArr j "strategies")
  return { name := ← fldStr j "name", conditional := ← fldBool j "conditional", terminal := ← fldBool j "terminal",
           prob := ← fldInt j "prob", strategies := strats, profile := ← fldNat j "profile",
           release := ← fldInt j "release", intendedRelease := ← fldInt j "release", deadline := ← fldInt j "deadline",
           ts := match fldOpt j "ts" with
             | some v => (v.getInt?.toOption).getD 0
             | none => 0 }

def parseGraph (j : Json) : Except String GraphS := do
  let tasks ← mapM' parseTask (← fldArr j "tasks")
  let children ← mapM' parseNatList (← fldArr j "children")
  let parents ← mapM' parseNatList (← fldArr j "parents")
  return ⟨← fldStr j "name", tasks.toArray, children.toArray, parents.toArray, ← parseNatList (← fld j "topo")⟩

def parseDraw (j : Json) : Except String Draw := do
  match ← fldStr j "k" with
  | "choices" => return .choices (← fldNat j "v")
  | "choice" => return .choice (← fldNat j "v")
  | "coin" => return .coin (← fldBool j "v")
  | "fuzz" => return .fuzz (← fldInt j "v")
  | k => throw s!"bad draw {k}"

def parsePolicy : String → Except String BranchPolicy
  | "RANDOM" => pure .random | "WORST_CASE" => pure .worstCase | "BEST_CASE" => pure .bestCase
  | "MAXIMUM" => pure .maximum | "ALL" => pure .all
  | p => throw s!"bad policy {p}"

def jTask (t : TaskS) : Json :=
  Json.arr #[Json.str t.state.name, Json.str t.pre.name, jInt t.release, jInt t.deadline, jInt t.start,
    jInt t.completion, jOptInt t.remaining, jInt t.lastStep, jInt t.prob, jOptInt t.schedTime,
    jOptNat t.pool, jOptInt t.cancelTime, jOptInt (t.placement.bind (·.time))]

def jTasks (g : GraphS) : Json := Json.arr (g.tasks.map jTask)

def errName (e : SErr) : Json := Json.str e.name

/-- One operation: returns (graph, tape, out, ret). -/
def step (g : GraphS) (tape : List Draw) (j : Json) : Except String (GraphS × List Draw × Json × Json) := do
  let op ← fldStr j "op"
  let onTask (n : Nat) (f : TaskS → TaskS.TRes) : Except String (GraphS × List Draw × Json × Json) :=
    match g.task? n with
    | none => throw s!"bad task {n}"
    | some t =>
      let (t', e) := f t
      pure (g.setTask n t', tape, match e with | none => Json.str "ok" | some e => errName e, Json.null)
  match op with
  | "release" =>
    let time := match fldOpt j "time" with | none => none | some v => v.getInt?.toOption
    onTask (← fldNat j "n") (·.doRelease time)
  | "schedule" =>
    let n ← fldNat j "n"
    let strat ← match fldOpt j "s" with | none => pure none | some v => some <$> Ledger.parseStrat v
    let p : PlacementS := { kind := .place, task := ⟨0, n⟩, time := some (← fldInt j "ptime"),
                            pool := some (← fldNat j "pool"), strat := strat }
    onTask n (·.doSchedule (← fldInt j "time") p)
  | "unschedule" => onTask (← fldNat j "n") (·.doUnschedule)
  | "start" => onTask (← fldNat j "n") (·.doStart (← fldInt j "time") (← fldInt j "fuzzed"))
  | "finish" =>
    let time := match fldOpt j "time" with | none => none | some v => v.getInt?.toOption
    onTask (← fldNat j "n") (·.doFinish time)
  | "task_cancel" => onTask (← fldNat j "n") (·.doCancel (← fldInt j "time"))
  | "preempt" => onTask (← fldNat j "n") (·.doPreempt)
  | "step" =>
    let n ← fldNat j "n"
    match g.task? n with
    | none => throw s!"bad task {n}"
    | some t =>
      let (t', fin) := t.doStep (← fldInt j "now") (← fldInt j "dt")
      pure (g.setTask n t', tape, Json.str "ok", Json.bool fin)
  | "remaining" =>
    let n ← fldNat j "n"
    match g.task? n with
    | none => throw s!"bad task {n}"
    | some t =>
      match t.remainingTime with
      | .ok r => pure (g, tape, Json.str "ok", jInt r)
      | .error e =>
        if t.remaining.isNone && (t.state == .running || t.state == .preempted || t.state == .evicted || t.state == .scheduled)
        then pure (g, tape, Json.str "ok", Json.null)   -- the bare property read returns None
        else pure (g, tape, errName e, Json.null)
  | "cancel" =>
    let r := g.cancel (← fldNat j "n") (← fldInt j "time")
    pure (r.g, tape, match r.err with | none => Json.str "ok" | some e => errName e,
          match r.err with | none => jList jNat r.cancelled | some _ => Json.null)
  | "notify" =>
    let r := g.notifyCompletion (← fldNat j "n") (← fldInt j "time") tape
    match r.err with
    | none =>
      pure (r.g, r.tape, Json.str "ok", Json.mkObj [("released", jList jNat r.released), ("cancelled", jList jNat r.cancelled)])
    | some e => pure (r.g, r.tape, errName e, Json.null)
  | "releasable" => pure (g, tape, Json.str "ok", jList jNat g.getReleasable)
  | "schedulable" =>
    let pol ← parsePolicy (← fldStr j "policy")
    match (g.getSchedulable (← fldInt j "time") (← fldInt j "lookahead") (← fldBool j "retract") pol
            (← fldBool j "rtg")).runTape tape with
    | (.ok l, tape') => pure (g, tape', Json.str "ok", jList jNat l)
    | (.error e, tape') => pure (g, tape', errName e, Json.null)
  | "resolve" =>
    let pol ← parsePolicy (← fldStr j "policy")
    match (g.resolveConditional (← fldNat j "n") pol).runTape tape with
    | (.ok l, tape') => pure (g, tape', Json.str "ok", jList jNat l)
    | (.error e, tape') => pure (g, tape', errName e, Json.null)
  | "ready" => pure (g, tape, Json.str "ok", Json.bool (g.isReadyToRun (← fldNat j "n")))
  | "graph_status" =>
    pure (g, tape, Json.str "ok", Json.mkObj [("complete", Json.bool g.isComplete), ("cancelled", Json.bool g.isCancelled),
      ("deadline", jInt g.deadline), ("release", jInt g.releaseTime)])
  | "dfs" => pure (g, tape, Json.str "ok", jList jNat (g.dfsFrom (← fldNat j "n")))
  | o => throw s!"bad op {o}"

def runCase (j : Json) : Except String Json := do
  let mut g ← parseGraph (← fld j "graph")
  let mut tape ← mapM' parseDraw (← fldArr j "tape")
  let mut obs : Array Json := #[]
  for oj in (← fldArr j "ops") do
    let (g', tape', out, ret) ← step g tape oj
    g := g'
    tape := tape'
    obs := obs.push (Json.mkObj [("out", out), ("ret", ret), ("tasks", jTasks g)])
  return Json.mkObj [("obs", Json.arr obs), ("tape_left", jNat tape.length)]

def handle (j : Json) : Json := guardE (runCase j)

end ErdosVerif.Driver.TaskGraph
