/-
Driver for suite "mip_z3": one case = one Z3Scheduler invocation.

in : {"suite":"mip_z3","inst":{…},"sigma":{"<sorted name>":value,…}|null}
out: {"err":{"cls":…,"msg":…}}                         -- the exception `schedule()` raises, or
     {"hard":[…],"soft":[…],"obj":[…],                 -- `gen inst`, one S-expression per assertion
      "wf":{…},"decode_fail":[…],
      "sat":bool,"violated":[…],"decode":[…],"objval":int,"soft_penalty":nat,
      "capacity_ok":bool,"precedence_ok":bool}          -- when sigma is given

Terms are rendered exactly as `harness/planners/z3p.py: render` prints the captured z3 AST:
constants carry their sort (`I:name`, `B:name`, `V<w>:name`), bit-vector literals are
`#<w>:<value>`.  sigma is keyed by those rendered constant names.
-/
import ErdosVerif.Driver.Util
import ErdosVerif.Model.Z3m
namespace ErdosVerif.Driver.MipZ3
open Lean ErdosVerif.Driver ErdosVerif.Z3m

def parsePairs (j : Json) (k : String) : Except String (List (String × Nat)) := do
  let l ← fldArr j k
  mapM' (fun e => do
    let a ← e.getArr?
    match a.toList with
    | [n, q] => return ((← n.getStr?), (← q.getNat?))
    | _ => throw "bad-pair") l

def parseStrat (j : Json) : Except String Strat := do
  return { runtime := ← fldNat j "runtime", req := ← parsePairs j "req" }

def parseState (s : String) : TState :=
  match s with
  | "VIRTUAL" => .virtual
  | "RELEASED" => .released
  | "SCHEDULED" => .scheduled
  | "RUNNING" => .running
  | _ => .other

def parseTask (j : Json) : Except String TaskI := do
  return { uniq := ← fldStr j "uniq", graph := ← fldStr j "graph",
           state := parseState (← fldStr j "state"),
           release := ← fldInt j "release", deadline := ← fldInt j "deadline",
           remaining0 := ← fldNat j "remaining0",
           strats := ← mapM' parseStrat (← fldArr j "strats") }

def parseEntry (j : Json) : Except String ResEntry := do
  let a ← j.getArr?
  match a.toList with
  | [n, t, q] => return { name := ← n.getStr?, total := ← t.getNat?, avail := ← q.getNat? }
  | _ => throw "bad-entry"

def parseWorker (j : Json) : Except String WorkerI := do
  return { name := ← fldStr j "name", pool := ← fldStr j "pool",
           res := ← mapM' parseEntry (← fldArr j "res") }

def parseNode (j : Json) : Except String Node := do
  return { uniq := ← fldStr j "uniq", graph := ← fldStr j "graph",
           deadline := ← fldInt j "deadline", finish := ← fldInt j "finish" }

def parseEdge (j : Json) : Except String (String × String) := do
  let a ← j.getArr?
  match a.toList with
  | [p, c] => return ((← p.getStr?), (← c.getStr?))
  | _ => throw "bad-edge"

def parseReservation (j : Json) : Except String Reservation := do
  return { worker := ← fldNat j "worker", res := ← fldStr j "res", qty := ← fldNat j "qty",
           from_ := ← fldInt j "from", to_ := ← fldInt j "to" }

def parseInst (j : Json) : Except String Inst := do
  let reserved ← match fldOpt j "reserved" with
    | none => pure []
    | some _ => mapM' parseReservation (← fldArr j "reserved")
  return { now := ← fldInt j "now",
           workers := ← mapM' parseWorker (← fldArr j "workers"),
           tasks := ← mapM' parseTask (← fldArr j "tasks"),
           nodes := ← mapM' parseNode (← fldArr j "nodes"),
           edges := ← mapM' parseEdge (← fldArr j "edges"),
           enforceDeadlines := ← fldBool j "enforce_deadlines",
           reserved := reserved }

/-! ### Rendering -/

def sp (l : List String) : String := " ".intercalate l

def rBv (I : Inst) : BV → String
  | .var v w => s!"V{w}:{I.varName v}"
  | .lit b => s!"#{b.length}:{fromBits b}"
  | .extract hi lo a => s!"(extract {hi} {lo} {rBv I a})"
  | .xor a b => s!"(bvxor {rBv I a} {rBv I b})"

mutual
def rInt (I : Inst) : Z → String
  | .lit n => toString n
  | .var v => s!"I:{I.varName v}"
  | .add l => "(" ++ sp ("+" :: rIntL I l) ++ ")"
  | .sub a b => s!"(- {rInt I a} {rInt I b})"
  | .ite c a b => s!"(ite B:{I.varName c} {rInt I a} {rInt I b})"
def rIntL (I : Inst) : List Z → List String
  | [] => []
  | a :: l => rInt I a :: rIntL I l
end

mutual
def rBool (I : Inst) : B → String
  | .tt => "true"
  | .ff => "false"
  | .var v => s!"B:{I.varName v}"
  | .not a => s!"(not {rBool I a})"
  | .and l => "(" ++ sp ("and" :: rBoolL I l) ++ ")"
  | .or l => "(" ++ sp ("or" :: rBoolL I l) ++ ")"
  | .imp a b => s!"(=> {rBool I a} {rBool I b})"
  | .iff a b => s!"(= {rBool I a} {rBool I b})"
  | .le a b => s!"(<= {rInt I a} {rInt I b})"
  | .ge a b => s!"(>= {rInt I a} {rInt I b})"
  | .lt a b => s!"(< {rInt I a} {rInt I b})"
  | .eqI a b => s!"(= {rInt I a} {rInt I b})"
  | .eqV a b => s!"(= {rBv I a} {rBv I b})"
  | .neV a b => s!"(distinct {rBv I a} {rBv I b})"
def rBoolL (I : Inst) : List B → List String
  | [] => []
  | a :: l => rBool I a :: rBoolL I l
end

/-! ### The solver's model -/

def getI (j : Json) (k : String) : Int :=
  match j.getObjVal? k >>= Json.getInt? with
  | .ok n => n
  | .error _ => 0

def getB (j : Json) (k : String) : Bool :=
  match j.getObjVal? k >>= Json.getBool? with
  | .ok b => b
  | .error _ => false

def getV (j : Json) (k : String) : Bits :=
  match j.getObjVal? k >>= Json.getNat? with
  | .ok n => toBits 64 n
  | .error _ => []

def bvWidth (I : Inst) : Var → Nat
  | .worker _ => I.nW
  | .res _ r => I.size r
  | _ => 0

def sigmaOf (I : Inst) (j : Json) : Assign Var :=
  { i := fun v => getI j s!"I:{I.varName v}",
    b := fun v => getB j s!"B:{I.varName v}",
    v := fun v => getV j s!"V{bvWidth I v}:{I.varName v}" }

def jDecision (I : Inst) (d : Decision) : Json :=
  match d.placed with
  | none => Json.mkObj [("task", Json.str (I.tname d.task)), ("placed", Json.bool false)]
  | some (w, t) => Json.mkObj [("task", Json.str (I.tname d.task)), ("placed", Json.bool true),
      ("worker", jNat w), ("pool", Json.str (I.worker w).pool), ("time", jInt t)]

def handleE (j : Json) : Except String Json := do
  let I ← parseInst (← fld j "inst")
  if let some (cls, msg) := I.crash then
    return Json.mkObj [("err", Json.mkObj [("cls", Json.str cls), ("msg", Json.str msg)])]
  let m := gen I
  let base : List (String × Json) :=
    [("hard", jList (fun a => Json.str (rBool I a)) m.hard),
     ("soft", jList (fun (p : Nat × B) => Json.str s!"(soft {p.1} - {rBool I p.2})") m.soft),
     ("obj", Json.arr #[Json.str s!"(max {rInt I m.maximize})"]),
     ("wf", Json.mkObj [("names", Json.bool I.wfNames), ("chains", Json.bool I.wfChains),
                        ("single", Json.bool I.wfSingleEntry), ("avail", Json.bool I.wfAvail),
                        ("states", Json.bool I.wfStates)]),
     ("decode_fail", jList (jDecision I) (decodeFail I))]
  let withSigma : List (String × Json) :=
    match fldOpt j "sigma" with
    | none => []
    | some sj =>
      let σ := sigmaOf I sj
      [("sat", Json.bool (decide (sat σ m))),
       ("violated", jList (fun a => Json.str (rBool I a)) (violated σ m)),
       ("decode", jList (jDecision I) (decode I σ)),
       ("objval", jInt (objective σ m)),
       ("soft_penalty", jNat (softPenalty σ m)),
       ("capacity_ok", Json.bool (I.capacityOK σ)),
       ("precedence_ok", Json.bool (I.precedenceOK σ))]
  return Json.mkObj (base ++ withSigma)

def handle (j : Json) : Json := guardE (handleE j)

end ErdosVerif.Driver.MipZ3
