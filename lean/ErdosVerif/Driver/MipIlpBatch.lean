/-
Driver for suite "mip_ilp_batch": one case = one `ILPScheduler(batching=True)` invocation.

in : {"suite":"mip_ilp_batch","inst":{…},"sigma":{"<label>":int,…}|null}
out: {"batches":[…],                                   -- BatchTask formation
      "vars":[…],"constrs":[…],"obj":{…},              -- `genB inst`, rendered with the code's names
      "sat":bool,"violated":[names],"decode":[…],"objval":int,   -- when sigma is given
      "decode_fail":[…],"wf":bool}    or   {"err":"AttributeError"}
-/
import ErdosVerif.Driver.Util
import ErdosVerif.Driver.MipIlp
import ErdosVerif.Model.IlpBatch
namespace ErdosVerif.Driver.MipIlpBatch
open Lean ErdosVerif.Driver ErdosVerif.Mip ErdosVerif.Ilp ErdosVerif.IlpBatch
open ErdosVerif.Driver.MipIlp (parsePairs parseStrat parseState parseWorker parseNode parseEdge jConstr jDecl jQuad)

def parseTask (j : Json) : Except String BTask := do
  return { uniq := ← fldStr j "uniq", name := ← fldStr j "name", ts := ← fldInt j "ts",
           graph := ← fldStr j "graph", state := parseState (← fldStr j "state"),
           release := ← fldInt j "release", deadline := ← fldInt j "deadline",
           profile := ← fldStr j "profile", prevW := ← fldNat j "prevW", prevKey := ← fldNat j "prevKey",
           prevStrat := ← parseStrat (← fld j "prevStrat") }

def parseProfile (j : Json) : Except String ProfileI := do
  return { name := ← fldStr j "name", strats := ← mapM' parseStrat (← fldArr j "strats"),
           order := ← mapM' (fun (e : Json) => e.getNat?) (← fldArr j "order") }

def parseInst (j : Json) : Except String BInst := do
  let allowed ← mapM' (fun (e : Json) => e.getStr?) (← fldArr j "allowed0")
  return { now := ← fldInt j "now",
           workers := ← mapM' parseWorker (← fldArr j "workers"),
           tasks := ← mapM' parseTask (← fldArr j "tasks"),
           nOffered := ← fldNat j "nOffered",
           nodes := ← mapM' parseNode (← fldArr j "nodes"),
           edges := ← mapM' parseEdge (← fldArr j "edges"),
           enforceDeadlines := ← fldBool j "enforce_deadlines",
           retract := ← fldBool j "retract",
           releaseTaskgraphs := ← fldBool j "release_taskgraphs",
           goalSlack := ← fldBool j "goal_slack",
           allowed0 := allowed,
           profiles := ← mapM' parseProfile (← fldArr j "profiles") }

/-- `name#k` labels in declaration order. -/
def labels (I : BInst) : List (Var × String) :=
  let rec go (ds : List (VarDecl Var)) (seen : List String) (acc : List (Var × String)) : List (Var × String) :=
    match ds with
    | [] => acc.reverse
    | d :: ds =>
      let n := I.varName d.v
      let k := (seen.filter (· == n)).length
      go ds (n :: seen) ((d.v, s!"{n}#{k}") :: acc)
  go I.vars [] []

def labelOf (I : BInst) (ls : List (Var × String)) (v : Var) : String :=
  match ls.find? (fun p => p.1 == v) with
  | some p => p.2
  | none => s!"UNDECLARED:{I.varName v}"

def jStrat (s : Strat) : Json :=
  Json.mkObj [("batch", jNat s.batch), ("runtime", jNat s.runtime),
              ("req", jList (fun (p : String × Nat) => Json.arr #[Json.str p.1, jNat p.2]) s.req)]

def jBatch (I : BInst) (b : Batch) : Json :=
  Json.mkObj [("name", Json.str b.name), ("members", jList (fun t => Json.str (I.task t).uniq) b.members),
              ("strat", jStrat b.strat)]

def jDecision (I : BInst) (d : BDecision) : Json :=
  match d.placed with
  | none => Json.mkObj [("task", Json.str (I.task d.task).uniq), ("placed", Json.bool false)]
  | some (b, w, t) => Json.mkObj [("task", Json.str (I.task d.task).uniq), ("placed", Json.bool true),
      ("worker", jNat w), ("pool", Json.str (I.worker w).pool), ("batch", Json.str (I.bname b)), ("time", jInt t)]

def sigmaOf (ls : List (Var × String)) (j : Json) : Var → Int := fun v =>
  match ls.find? (fun p => p.1 == v) with
  | none => 0
  | some p => match j.getObjVal? p.2 >>= Json.getInt? with
    | .ok n => n
    | .error _ => 0

/-- Lean source of a variable (used by `tools/ilpbatch_lean_case.py` to print witnesses). -/
def varSrc : Var → String
  | .start b => s!".start {b}"
  | .x b w s => s!".x {b} {w} {s}"
  | .allParents b => s!".allParents {b}"
  | .overlap a b => s!".overlap {a} {b}"
  | .after a b => s!".after {a} {b}"
  | .before a b => s!".before {a} {b}"
  | .greward g => s!".greward {g}"
  | .treward t => s!".treward {t}"

def handleE (j : Json) : Except String Json := do
  let I ← parseInst (← fld j "inst")
  if let some cls := I.crash then return errJ cls
  let ls := labels I
  let lab := labelOf I ls
  let m := genB I
  let wantModel := (fldBool j "model").toOption.getD true
  let base : List (String × Json) :=
    if wantModel then
      [("vars", jList (jDecl lab) m.vars), ("constrs", jList (jConstr lab) m.constrs),
       ("obj", jQuad lab m.obj)]
    else []
  let base := base ++ (if (fldBool j "varmap").toOption.getD false then
      [("varmap", jList (fun (p : Var × String) => Json.arr #[Json.str p.2, Json.str (varSrc p.1)]) ls)] else [])
  let base := base ++ [("batches", jList (jBatch I) I.batches),
                       ("decode_fail", jList (jDecision I) (decodeFailB I)), ("wf", Json.bool I.wf)]
  let withSigma : List (String × Json) :=
    match fldOpt j "sigma" with
    | none => []
    | some sj =>
      let σ := sigmaOf ls sj
      [("sat", Json.bool (decide (sat σ m))),
       ("violated", jList Json.str ((m.vars.filter (fun d => !decide (d.ok σ))).map (fun d => "domain:" ++ lab d.v) ++ violated σ m)),
       ("decode", jList (jDecision I) (decodeB I σ)),
       ("objval", jInt (objective σ m))]
  return Json.mkObj (base ++ withSigma)

def handle (j : Json) : Json := guardE (handleE j)

end ErdosVerif.Driver.MipIlpBatch
