/-
M10 — executable model of the Clockwork policy
(`/repo/schedulers/clockwork_scheduler.py`: `Model`, `Models`,
`ClockworkScheduler.run_admission / run_inference / schedule`), together with the
small part of `Worker` / `Resources` / `ExecutionStrategy` the inference loop
consults (`Resources.__gt__ / __eq__`, `ExecutionStrategy.__eq__ / __lt__`,
`Worker.can_accomodate_strategy`, `Worker.place_task` with a `BatchStrategy`).

Core Lean only (the driver links this module).

What is an *input* of the model (tape), per invocation:
* `now`, the offered tasks (what `Workload.get_schedulable_tasks` returned, in
  that order),
* for every worker (pools in order, workers in order) the state the inference
  loop sees when it starts: which models are available (`is_available == 0`)
  and the available quantity of every resource name. This is *after* the
  optional load/evict phase (`run_load`), whose decisions depend on float
  priorities and are not modelled.
Not modelled: the float demand counters, `_last_used_at_worker`, `run_load`.

Python facts preserved:
* `Models._models` and `Model._tasks` / `_request_queues` are insertion-ordered
  dicts; a model is created on the first admitted task of its profile (or by
  `start`), *before* the `Request` constructor can raise.
* `bisect.insort` (right) on requests ordered by deadline.
* `Request.num_strategies` counter: decremented on every expiry pop,
  `remove_task` when it reaches 0.
* `list.remove` removes the first equal element only (`eraseP`).
* `sorted(strategies)` on tuples `(priority, -batch_size, strategy)` uses
  `==` to find the first differing component and `<` on it;
  `ExecutionStrategy.__lt__` falls through to `Resources.__lt__`, which
  `total_ordering` derives from `__gt__` ("covers") and `__eq__` and which is not
  a strict weak order, so the sort is modelled as CPython's algorithm for
  fewer than 64 elements (`count_run` + binary insertion).
* an exception is an outcome, not a rollback.
-/
namespace ErdosVerif.Clockwork

/-! ### CPython `list.sort` for n < 64 -/

/-- Further elements continuing a non-descending run after `p`. -/
def runAsc {α} (lt : α → α → Bool) : α → List α → Nat
  | _, [] => 0
  | p, x :: xs => if lt x p then 0 else 1 + runAsc lt x xs

/-- Further elements continuing a strictly descending run after `p`. -/
def runDesc {α} (lt : α → α → Bool) : α → List α → Nat
  | _, [] => 0
  | p, x :: xs => if lt x p then 1 + runDesc lt x xs else 0

/-- `binarysort`'s search: `do { p = l + (r-l)/2; if pivot < a[p] then r = p else l = p+1 } while l < r`. -/
def bsearch {α} (lt : α → α → Bool) (a : List α) (pivot : α) : Nat → Nat → Nat → Nat
  | 0, l, _ => l
  | fuel + 1, l, r =>
    if l < r then
      let p := l + (r - l) / 2
      match a[p]? with
      | some y => if lt pivot y then bsearch lt a pivot fuel l p else bsearch lt a pivot fuel (p + 1) r
      | none => l
    else l

def binInsert {α} (lt : α → α → Bool) (sorted : List α) (pivot : α) : List α :=
  let k := bsearch lt sorted pivot (sorted.length + 1) 0 sorted.length
  sorted.take k ++ pivot :: sorted.drop k

/-- `sorted(l)` as CPython computes it for `len(l) < 64`, `lt` being `<`. -/
def pySort {α} (lt : α → α → Bool) : List α → List α
  | [] => []
  | [x] => [x]
  | x :: y :: rest =>
    if lt y x then
      let n := runDesc lt y rest
      (rest.drop n).foldl (binInsert lt) (x :: y :: rest.take n).reverse
    else
      let n := runAsc lt y rest
      (rest.drop n).foldl (binInsert lt) (x :: y :: rest.take n)

/-! ### Resources (available quantities / requirement vectors by resource name) -/

/-- `(resource name, quantity)` in dict insertion order. -/
abbrev ResVec := List (Nat × Nat)

/-- `Resources.get_available_quantity(Resource(name, "any"))`: sum over matching entries. -/
def avail (v : ResVec) (n : Nat) : Nat :=
  (v.filter (fun e => e.1 == n)).foldl (fun acc e => acc + e.2) 0

/-- `Resources.__gt__(self, other)`: every entry of `other` is covered by `self`. -/
def resGe (self other : ResVec) : Bool := other.all (fun e => decide (e.2 ≤ avail self e.1))

/-- `Resources.__eq__(self, other)` (not symmetric). -/
def resEq (self other : ResVec) : Bool := other.all (fun e => avail self e.1 == e.2)

/-- `Resources.__lt__` as derived by `functools.total_ordering` from `__gt__`:
`not (self > other) and self != other`. -/
def resLt (self other : ResVec) : Bool := !(resGe self other) && !(resEq self other)

/-- `allocate_multiple` on a worker whose availability is summarised per name. -/
def resSub (self req : ResVec) : ResVec := self.map (fun e => (e.1, e.2 - avail req e.1))

/-! ### Strategies, configuration -/

structure Strategy where
  batch : Nat
  runtime : Int
  req : ResVec
deriving Repr, DecidableEq

/-- `ExecutionStrategy.__eq__`. -/
def Strategy.eq (a b : Strategy) : Bool :=
  a.batch == b.batch && a.runtime == b.runtime && resEq a.req b.req

/-- `ExecutionStrategy.__lt__`. -/
def Strategy.lt (a b : Strategy) : Bool :=
  if a.runtime == b.runtime then
    if a.batch == b.batch then resLt a.req b.req else decide (a.batch < b.batch)
  else decide (a.runtime < b.runtime)

structure ModelCfg where
  strategies : List Strategy
  /-- the profile has at least one loading strategy (else `Request.__init__` raises). -/
  hasLoad : Bool
deriving Repr

structure TaskCfg where
  model : Nat
  deadline : Int
deriving Repr

inductive Goal | clockwork | leastSlack
deriving Repr, DecidableEq

structure Cfg where
  models : List ModelCfg
  tasks : List TaskCfg
  goal : Goal
deriving Repr

def Cfg.strategiesOf (c : Cfg) (m : Nat) : List Strategy :=
  match c.models[m]? with
  | some mc => mc.strategies
  | none => []

def Cfg.hasLoad (c : Cfg) (m : Nat) : Bool :=
  match c.models[m]? with
  | some mc => mc.hasLoad
  | none => false

/-- `ExecutionStrategies.get_fastest_strategy().runtime` (`min` keeps the first minimum). -/
def fastest : List Strategy → Option Int
  | [] => none
  | s :: ss => some (ss.foldl (fun acc x => if x.runtime < acc then x.runtime else acc) s.runtime)

/-! ### Per-model state -/

structure Req where
  tid : Nat
  deadline : Int
deriving Repr, DecidableEq

structure TEntry where
  tid : Nat
  deadline : Int
  /-- `Request.num_strategies`. -/
  cnt : Int
deriving Repr, DecidableEq

structure MState where
  mid : Nat
  /-- `Model._tasks` (insertion order). -/
  tasks : List TEntry
  /-- `Model._request_queues.values()`, aligned with the profile's strategies. -/
  queues : List (List Req)
deriving Repr, DecidableEq

/-- `bisect.insort` (right) with `Request.__lt__` = deadline order. -/
def insort (r : Req) : List Req → List Req
  | [] => [r]
  | x :: xs => if r.deadline < x.deadline then r :: x :: xs else x :: insort r xs

/-- `request_queue.remove(request)` guarded by `request in request_queue`
(`Request.__eq__` compares task ids). -/
def removeTid (tid : Nat) (q : List Req) : List Req := q.eraseP (fun r => r.tid == tid)

/-- `Model.remove_task`. -/
def MState.removeTask (s : MState) (tid : Nat) : MState :=
  if s.tasks.any (fun e => e.tid == tid) then
    { s with tasks := s.tasks.eraseP (fun e => e.tid == tid),
             queues := s.queues.map (removeTid tid) }
  else s

/-- `request.num_strategies -= 1`. -/
def decrCnt (tid : Nat) (l : List TEntry) : List TEntry :=
  l.map (fun e => if e.tid == tid then { e with cnt := e.cnt - 1 } else e)

def cntOf (tid : Nat) (l : List TEntry) : Option Int :=
  (l.find? (fun e => e.tid == tid)).map (·.cnt)

/-- One `pop(0)` of the expiry loop of queue `i` (the popped head is `r`, the
rest of the queue `rest`). -/
def MState.popExpired (s : MState) (i : Nat) (r : Req) (rest : List Req) : MState :=
  let s1 : MState := { s with queues := s.queues.set i rest, tasks := decrCnt r.tid s.tasks }
  if cntOf r.tid s1.tasks == some 0 then s1.removeTask r.tid else s1

/-- The `while` loop of `get_available_execution_strategies` for queue `i` whose
strategy has runtime `rt`. -/
def expireLoop (now rt : Int) (i : Nat) : Nat → MState → MState
  | 0, s => s
  | fuel + 1, s =>
    match s.queues[i]? with
    | some (r :: rest) =>
      if r.deadline < now + rt then expireLoop now rt i fuel (s.popExpired i r rest) else s
    | _ => s

/-- Expiry over all queues in strategy order. -/
def expireFrom (now : Int) : Nat → List Strategy → MState → MState
  | _, [], s => s
  | i, st :: sts, s =>
    expireFrom now (i + 1) sts (expireLoop now st.runtime i ((s.queues.getD i []).length) s)

def MState.expire (now : Int) (strats : List Strategy) (s : MState) : MState :=
  expireFrom now 0 strats s

/-- Sort key of an available strategy: `(priority, -batch_size, strategy)`; `idx` is the
position of the strategy in the profile (identity of the object). -/
structure Cand where
  prio : Int
  idx : Nat
  strat : Strategy
deriving Repr

/-- Python tuple `<` on `(priority, -batch_size, strategy)`. -/
def Cand.lt (a b : Cand) : Bool :=
  if a.prio != b.prio then decide (a.prio < b.prio)
  else if a.strat.batch != b.strat.batch then decide (b.strat.batch < a.strat.batch)
  else if !(a.strat.eq b.strat) then a.strat.lt b.strat
  else false

/-- Candidates of the second loop of `get_available_execution_strategies`
(queues and strategies zipped, starting at index `i`). -/
def candsFrom (now : Int) : Nat → List Strategy → List (List Req) → List Cand
  | i, st :: sts, q :: qs =>
    let rest := candsFrom now (i + 1) sts qs
    match q with
    | r :: _ =>
      if st.batch ≤ q.length && decide (now + st.runtime ≤ r.deadline) then
        { prio := r.deadline - st.runtime - now, idx := i, strat := st } :: rest
      else rest
    | [] => rest
  | _, _, _ => []

/-- `Model.get_available_execution_strategies` on an already expired state:
indices of the available strategies, in the order the scheduler will try them. -/
def availableStrats (now : Int) (strats : List Strategy) (s : MState) : List Nat :=
  if s.queues.all (fun q => q.isEmpty) then []
  else (pySort Cand.lt (candsFrom now 0 strats s.queues)).map (·.idx)

/-- `Model.earliest_deadline` (`EventTime.invalid()` = -1 when there is no task). -/
def MState.earliest (s : MState) : Int :=
  match s.tasks with
  | [] => -1
  | e :: es => es.foldl (fun acc x => if x.deadline < acc then x.deadline else acc) e.deadline

/-- `Model.add_task` for a task not yet in `_tasks`. -/
def MState.addTask (s : MState) (tid : Nat) (deadline : Int) : MState :=
  if s.tasks.any (fun e => e.tid == tid) then s
  else
    { s with tasks := s.tasks ++ [{ tid := tid, deadline := deadline, cnt := (s.queues.length : Int) }],
             queues := s.queues.map (insort { tid := tid, deadline := deadline }) }

/-! ### Scheduler state, admission -/

/-- `ClockworkScheduler._models._models.values()` in insertion order. -/
abbrev SState := List MState

def hasModel (st : SState) (m : Nat) : Bool := st.any (fun s => s.mid == m)

def newModel (c : Cfg) (m : Nat) : MState :=
  { mid := m, tasks := [], queues := (c.strategiesOf m).map (fun _ => []) }

/-- `Models.add_model`. -/
def addModel (c : Cfg) (st : SState) (m : Nat) : SState :=
  if hasModel st m then st else st ++ [newModel c m]

def updModel (st : SState) (m : Nat) (f : MState → MState) : SState :=
  st.map (fun s => if s.mid == m then f s else s)

inductive Decision
  | cancel (tid : Nat)
deriving Repr, DecidableEq

/-- One task of `run_admission`. `none` as error = no exception. -/
def admitOne (c : Cfg) (now : Int) (st : SState) (tid : Nat) :
    SState × Option Nat × Option String :=
  match c.tasks[tid]? with
  | none => (st, none, some "KeyError")
  | some t =>
    match fastest (c.strategiesOf t.model) with
    | none => (st, none, some "AttributeError")
    | some f =>
      if t.deadline < now + f then (st, some tid, none)
      else
        let st1 := addModel c st t.model
        let present := st1.any (fun s => s.mid == t.model && s.tasks.any (fun e => e.tid == tid))
        if present then (st1, none, none)
        else
          if !(c.hasLoad t.model) then (st1, none, some "AttributeError")
          else (updModel st1 t.model (fun s => s.addTask tid t.deadline), none, none)

/-- `run_admission`: state at the raise point, the cancellations so far, the exception. -/
def admitAll (c : Cfg) (now : Int) : SState → List Nat → SState × List Nat × Option String
  | st, [] => (st, [], none)
  | st, tid :: rest =>
    match admitOne c now st tid with
    | (st1, _, some e) => (st1, [], some e)
    | (st1, cn, none) =>
      let r := admitAll c now st1 rest
      (r.1, (match cn with | some t => [t] | none => []) ++ r.2.1, r.2.2)

/-! ### Inference -/

structure WorkerView where
  pool : Nat
  /-- models with `worker.is_available(profile) == 0` -/
  loaded : List Nat
  /-- available quantity per resource name (unique names) -/
  avail : ResVec
deriving Repr

structure Batch where
  model : Nat
  strategy : Nat
  worker : Nat
  tids : List Nat
deriving Repr, DecidableEq

/-- `Model.get_placements`: the first `batch_size` requests of the strategy's queue,
each removed through `remove_task`. `none` = `RuntimeError` (queue too short). -/
def MState.takeBatch (s : MState) (sidx : Nat) (batch : Nat) : Option (List Nat × MState) :=
  let q := s.queues.getD sidx []
  if q.length < batch then none
  else
    let tids := (q.take batch).map (·.tid)
    some (tids, tids.foldl (fun acc t => acc.removeTask t) s)

def getModel (st : SState) (m : Nat) : Option MState := st.find? (fun s => s.mid == m)

/-- Entry of the `execution_strategies_queue`. -/
abbrev WQ := List (Nat × List Nat)

def wqKeyLt (st : SState) (a b : Nat × List Nat) : Bool :=
  let ka := match getModel st a.1 with | some s => s.earliest | none => -1
  let kb := match getModel st b.1 with | some s => s.earliest | none => -1
  decide (ka < kb)

def sortWQ (g : Goal) (st : SState) (wq : WQ) : WQ :=
  match g with
  | .clockwork => wq
  | .leastSlack => pySort (wqKeyLt st) wq

structure LoopState where
  st : SState
  avail : ResVec
  wq : WQ
  out : List Batch
  err : Option String

/-- One iteration of `while len(execution_strategies_queue) > 0`. -/
def loopStep (c : Cfg) (now : Int) (w : Nat) (loaded : List Nat) (ls : LoopState) : LoopState :=
  match ls.wq with
  | [] => ls
  | (m, strats) :: wq =>
    if !(loaded.contains m) then { ls with wq := wq }
    else
      let scfg := c.strategiesOf m
      let compat := strats.filter (fun i =>
        match scfg[i]? with
        | some s => resGe ls.avail s.req
        | none => false)
      match compat with
      | [] => { ls with wq := wq }
      | sidx :: _ =>
        match scfg[sidx]?, getModel ls.st m with
        | some s, some ms =>
          match ms.takeBatch sidx s.batch with
          | none => { ls with wq := wq, err := some "RuntimeError" }
          | some (tids, ms1) =>
            let ms2 := ms1.expire now scfg
            let st2 := updModel ls.st m (fun _ => ms2)
            let newStrats := availableStrats now scfg ms2
            let wq2 := if newStrats.isEmpty then wq else sortWQ c.goal st2 (wq ++ [(m, newStrats)])
            { st := st2, avail := resSub ls.avail s.req, wq := wq2,
              out := ls.out ++ [{ model := m, strategy := sidx, worker := w, tids := tids }],
              err := none }
        | _, _ => { ls with wq := wq }

def loopRun (c : Cfg) (now : Int) (w : Nat) (loaded : List Nat) : Nat → LoopState → LoopState × Bool
  | 0, ls => (ls, !ls.wq.isEmpty)
  | fuel + 1, ls =>
    match ls.err, ls.wq with
    | some _, _ => (ls, false)
    | none, [] => (ls, false)
    | none, _ => loopRun c now w loaded fuel (loopStep c now w loaded ls)

/-- Expire every model and collect the non-empty strategy lists (the `for model in self._models` loop). -/
def expireAll (c : Cfg) (now : Int) (st : SState) : SState :=
  st.map (fun s => s.expire now (c.strategiesOf s.mid))

def initialWQ (c : Cfg) (now : Int) (st : SState) : WQ :=
  (st.map (fun s => (s.mid, availableStrats now (c.strategiesOf s.mid) s))).filter
    (fun e => !e.2.isEmpty)

def totalQueued (st : SState) : Nat :=
  st.foldl (fun acc s => acc + s.queues.foldl (fun a q => a + q.length) 0) 0

/-- The body of `for worker in worker_pool.workers` in `run_inference`. -/
def inferWorker (c : Cfg) (now : Int) (w : Nat) (wv : WorkerView) (st : SState) :
    SState × List Batch × Option String × Bool :=
  let st1 := expireAll c now st
  let wq := sortWQ c.goal st1 (initialWQ c now st1)
  let fuel := totalQueued st1 + st1.length + 1
  let (ls, out) := loopRun c now w wv.loaded fuel
    { st := st1, avail := wv.avail, wq := wq, out := [], err := none }
  (ls.st, ls.out, ls.err, out)

def inferFrom (c : Cfg) (now : Int) : Nat → List WorkerView → SState →
    SState × List Batch × Option String × Bool
  | _, [], st => (st, [], none, false)
  | w, wv :: wvs, st =>
    match inferWorker c now w wv st with
    | (st1, bs, some e, fo) => (st1, bs, some e, fo)
    | (st1, bs, none, fo) =>
      let r := inferFrom c now (w + 1) wvs st1
      (r.1, bs ++ r.2.1, r.2.2.1, fo || r.2.2.2)

structure Invocation where
  now : Int
  offered : List Nat
  workers : List WorkerView
  /-- tape: exception class raised by the (unmodelled) load phase, if any -/
  loadErr : Option String := none
deriving Repr

structure StepOut where
  /-- exception class raised by `schedule` (no placements are returned then) -/
  err : Option String
  cancels : List Nat
  batches : List Batch
  /-- the model ran out of fuel (never on well-formed configurations) -/
  fuelOut : Bool
deriving Repr

/-- `ClockworkScheduler.schedule` (admission, then inference; the load phase is a tape input
reflected in `inv.workers`). -/
def schedule (c : Cfg) (st : SState) (inv : Invocation) : SState × StepOut :=
  match admitAll c inv.now st inv.offered with
  | (st1, _, some e) => (st1, { err := some e, cancels := [], batches := [], fuelOut := false })
  | (st1, cs, none) =>
    match inv.loadErr with
    | some e => (st1, { err := some e, cancels := [], batches := [], fuelOut := false })
    | none =>
    match inferFrom c inv.now 0 inv.workers st1 with
    | (st2, _, some e, fo) => (st2, { err := some e, cancels := [], batches := [], fuelOut := fo })
    | (st2, bs, none, fo) => (st2, { err := none, cancels := cs, batches := bs, fuelOut := fo })

/-- `ClockworkScheduler.start`: one `Model` per given profile, in order. -/
def startModels (c : Cfg) (ms : List Nat) : SState := ms.foldl (addModel c) []

/-- A whole history: the outputs of the successive invocations. -/
def run (c : Cfg) : SState → List Invocation → List (SState × StepOut)
  | _, [] => []
  | st, inv :: rest =>
    let r := schedule c st inv
    r :: run c r.1 rest

end ErdosVerif.Clockwork
