/-
M11 (part 1): a small mixed-integer constraint language, generic in the variable
type `V`.  It covers exactly what `schedulers/ilp_scheduler.py` hands to Gurobi:

* integer / binary variables with optional bounds (`addVar`),
* linear rows `e ⋈ rhs` (`addConstr` on a `LinExpr`),
* quadratic rows `q ⋈ rhs` (`addConstr` on a `QuadExpr`; products of two variables),
* indicator constraints `b = val → e ⋈ rhs` (`addGenConstrIndicator`),
* AND constraints `r = AND(args)` (`addGenConstrAnd`),
* a (quadratic) objective that is maximised.

An assignment is a total function `V → Int` (integrality of every variable is
therefore built in; the solver's integrality tolerance is part of the trusted
base).  Core Lean only, no Mathlib: the driver links this module.
-/
namespace ErdosVerif.Mip

/-- Sum of a list of integers (own definition: stable unfolding for proofs). -/
def isum : List Int → Int
  | [] => 0
  | a :: as => a + isum as

@[simp] theorem isum_nil : isum [] = 0 := rfl
@[simp] theorem isum_cons (a : Int) (as : List Int) : isum (a :: as) = a + isum as := rfl

theorem isum_append (a b : List Int) : isum (a ++ b) = isum a + isum b := by
  induction a with
  | nil => simp
  | cons x xs ih => simp [ih]; omega

/-- `coef * var` terms plus a constant, in the order the code adds them. -/
structure LinExpr (V : Type) where
  terms : List (Int × V)
  const : Int
  deriving Repr

namespace LinExpr
variable {V : Type}

def zero : LinExpr V := ⟨[], 0⟩
def ofConst (c : Int) : LinExpr V := ⟨[], c⟩
def ofVar (v : V) : LinExpr V := ⟨[(1, v)], 0⟩
def add (a b : LinExpr V) : LinExpr V := ⟨a.terms ++ b.terms, a.const + b.const⟩
def smul (k : Int) (a : LinExpr V) : LinExpr V := ⟨a.terms.map (fun p => (k * p.1, p.2)), k * a.const⟩
def neg (a : LinExpr V) : LinExpr V := smul (-1) a
def sub (a b : LinExpr V) : LinExpr V := add a (neg b)
/-- `gp.quicksum` / repeated `LinExpr.add`. -/
def sumL : List (LinExpr V) → LinExpr V
  | [] => zero
  | e :: es => add e (sumL es)

def eval (σ : V → Int) (e : LinExpr V) : Int :=
  isum (e.terms.map (fun p => p.1 * σ p.2)) + e.const

@[simp] theorem eval_zero (σ : V → Int) : eval σ (zero : LinExpr V) = 0 := rfl
@[simp] theorem eval_ofConst (σ : V → Int) (c : Int) : eval σ (ofConst c : LinExpr V) = c := by
  simp [eval, ofConst]
@[simp] theorem eval_ofVar (σ : V → Int) (v : V) : eval σ (ofVar v) = σ v := by
  simp [eval, ofVar]
@[simp] theorem eval_add (σ : V → Int) (a b : LinExpr V) : eval σ (add a b) = eval σ a + eval σ b := by
  simp [eval, add, isum_append]; omega
@[simp] theorem eval_smul (σ : V → Int) (k : Int) (a : LinExpr V) : eval σ (smul k a) = k * eval σ a := by
  obtain ⟨ts, c⟩ := a
  simp only [eval, smul]
  induction ts with
  | nil => simp
  | cons t ts ih =>
    simp only [List.map_cons, isum_cons] at ih ⊢
    rw [Int.mul_add] at ih ⊢
    rw [Int.mul_add, Int.mul_assoc]
    omega
@[simp] theorem eval_neg (σ : V → Int) (a : LinExpr V) : eval σ (neg a) = - eval σ a := by
  simp [neg]
@[simp] theorem eval_sub (σ : V → Int) (a b : LinExpr V) : eval σ (sub a b) = eval σ a - eval σ b := by
  simp [sub]; omega
@[simp] theorem eval_sumL_nil (σ : V → Int) : eval σ (sumL ([] : List (LinExpr V))) = 0 := rfl
@[simp] theorem eval_sumL_cons (σ : V → Int) (e : LinExpr V) (es : List (LinExpr V)) :
    eval σ (sumL (e :: es)) = eval σ e + eval σ (sumL es) := by
  simp [sumL]
theorem eval_sumL (σ : V → Int) (es : List (LinExpr V)) :
    eval σ (sumL es) = isum (es.map (eval σ)) := by
  induction es with
  | nil => rfl
  | cons e es ih => simp [ih]

end LinExpr

/-- A quadratic expression: products `c * v₁ * v₂` plus a linear part. -/
structure QuadExpr (V : Type) where
  quad : List (Int × V × V)
  lin : LinExpr V
  deriving Repr

namespace QuadExpr
variable {V : Type}

def zero : QuadExpr V := ⟨[], LinExpr.zero⟩
def ofLin (e : LinExpr V) : QuadExpr V := ⟨[], e⟩
def add (a b : QuadExpr V) : QuadExpr V := ⟨a.quad ++ b.quad, LinExpr.add a.lin b.lin⟩
/-- `e * o` for a linear `e` and a variable `o`: a variable term becomes a product,
the constant becomes a linear term in `o` (this is what gurobipy does for `1 * o * k`). -/
def mulVar (e : LinExpr V) (o : V) : QuadExpr V :=
  ⟨e.terms.map (fun p => (p.1, p.2, o)), ⟨[(e.const, o)], 0⟩⟩
def sumQ : List (QuadExpr V) → QuadExpr V
  | [] => zero
  | e :: es => add e (sumQ es)

def eval (σ : V → Int) (q : QuadExpr V) : Int :=
  isum (q.quad.map (fun p => p.1 * σ p.2.1 * σ p.2.2)) + q.lin.eval σ

@[simp] theorem eval_zero (σ : V → Int) : eval σ (zero : QuadExpr V) = 0 := rfl
@[simp] theorem eval_ofLin (σ : V → Int) (e : LinExpr V) : eval σ (ofLin e) = e.eval σ := by
  simp [eval, ofLin]
@[simp] theorem eval_add (σ : V → Int) (a b : QuadExpr V) : eval σ (add a b) = eval σ a + eval σ b := by
  simp [eval, add, isum_append]; omega
@[simp] theorem eval_mulVar (σ : V → Int) (e : LinExpr V) (o : V) :
    eval σ (mulVar e o) = e.eval σ * σ o := by
  obtain ⟨ts, c⟩ := e
  simp only [eval, mulVar, LinExpr.eval, List.map_map]
  induction ts with
  | nil => simp
  | cons t ts ih =>
    simp only [List.map_cons, isum_cons, Function.comp] at ih ⊢
    simp only [List.map_nil, isum_nil, Int.add_zero] at ih ⊢
    rw [Int.add_mul, Int.add_mul] at *
    omega
@[simp] theorem eval_sumQ_nil (σ : V → Int) : eval σ (sumQ ([] : List (QuadExpr V))) = 0 := rfl
@[simp] theorem eval_sumQ_cons (σ : V → Int) (e : QuadExpr V) (es : List (QuadExpr V)) :
    eval σ (sumQ (e :: es)) = eval σ e + eval σ (sumQ es) := by
  simp [sumQ]
theorem eval_sumQ (σ : V → Int) (es : List (QuadExpr V)) :
    eval σ (sumQ es) = isum (es.map (eval σ)) := by
  induction es with
  | nil => rfl
  | cons e es ih => simp [ih]

end QuadExpr

inductive Sense | le | ge | eq
  deriving DecidableEq, Repr

def Sense.holds : Sense → Int → Int → Prop
  | .le, a, b => a ≤ b
  | .ge, a, b => a ≥ b
  | .eq, a, b => a = b

instance (s : Sense) (a b : Int) : Decidable (s.holds a b) :=
  match s with
  | .le => inferInstanceAs (Decidable (a ≤ b))
  | .ge => inferInstanceAs (Decidable (a ≥ b))
  | .eq => inferInstanceAs (Decidable (a = b))

inductive VType | bin | int
  deriving DecidableEq, Repr

/-- `addVar`: binary variables are `{0,1}`; integer variables have optional bounds
(`none` = infinite). -/
structure VarDecl (V : Type) where
  v : V
  vtype : VType
  lb : Option Int
  ub : Option Int

/-- `l ≤ x` for an optional lower bound. -/
def optLe (l : Option Int) (x : Int) : Prop :=
  match l with
  | none => True
  | some l => l ≤ x
/-- `x ≤ u` for an optional upper bound. -/
def optGe (u : Option Int) (x : Int) : Prop :=
  match u with
  | none => True
  | some u => x ≤ u

instance (l : Option Int) (x : Int) : Decidable (optLe l x) :=
  match l with
  | none => isTrue trivial
  | some l => inferInstanceAs (Decidable (l ≤ x))
instance (u : Option Int) (x : Int) : Decidable (optGe u x) :=
  match u with
  | none => isTrue trivial
  | some u => inferInstanceAs (Decidable (x ≤ u))

def VarDecl.ok {V : Type} (σ : V → Int) (d : VarDecl V) : Prop :=
  (d.vtype = .bin → (σ d.v = 0 ∨ σ d.v = 1)) ∧
  (d.vtype = .int → (optLe d.lb (σ d.v) ∧ optGe d.ub (σ d.v)))

instance {V : Type} (σ : V → Int) (d : VarDecl V) : Decidable (d.ok σ) :=
  inferInstanceAs (Decidable ((d.vtype = .bin → (σ d.v = 0 ∨ σ d.v = 1)) ∧
    (d.vtype = .int → (optLe d.lb (σ d.v) ∧ optGe d.ub (σ d.v)))))

inductive Constr (V : Type) where
  | lin (name : String) (e : LinExpr V) (s : Sense) (rhs : Int)
  | quad (name : String) (e : QuadExpr V) (s : Sense) (rhs : Int)
  | ind (name : String) (b : V) (val : Int) (e : LinExpr V) (s : Sense) (rhs : Int)
  | and (name : String) (r : V) (args : List V)

def Constr.name {V : Type} : Constr V → String
  | .lin n .. => n
  | .quad n .. => n
  | .ind n .. => n
  | .and n .. => n

/-- Gurobi semantics of each constraint kind. -/
def Constr.holds {V : Type} (σ : V → Int) : Constr V → Prop
  | .lin _ e s rhs => s.holds (e.eval σ) rhs
  | .quad _ e s rhs => s.holds (e.eval σ) rhs
  | .ind _ b val e s rhs => σ b = val → s.holds (e.eval σ) rhs
  | .and _ r args => σ r = if (∀ a ∈ args, σ a = 1) then 1 else 0

instance {V : Type} (σ : V → Int) (c : Constr V) : Decidable (c.holds σ) :=
  match c with
  | .lin _ e s rhs => inferInstanceAs (Decidable (s.holds (e.eval σ) rhs))
  | .quad _ e s rhs => inferInstanceAs (Decidable (s.holds (e.eval σ) rhs))
  | .ind _ b val e s rhs => inferInstanceAs (Decidable (σ b = val → s.holds (e.eval σ) rhs))
  | .and _ r args => inferInstanceAs (Decidable (σ r = if (∀ a ∈ args, σ a = 1) then 1 else 0))

/-- A model: declarations, constraints and the objective (always maximised by
`ilp_scheduler.py`). -/
structure Model (V : Type) where
  vars : List (VarDecl V)
  constrs : List (Constr V)
  obj : QuadExpr V

/-- `σ` is a feasible point of the model. -/
def sat {V : Type} (σ : V → Int) (m : Model V) : Prop :=
  (∀ d ∈ m.vars, d.ok σ) ∧ (∀ c ∈ m.constrs, c.holds σ)

instance {V : Type} (σ : V → Int) (m : Model V) : Decidable (sat σ m) :=
  inferInstanceAs (Decidable ((∀ d ∈ m.vars, d.ok σ) ∧ (∀ c ∈ m.constrs, c.holds σ)))

def objective {V : Type} (σ : V → Int) (m : Model V) : Int := m.obj.eval σ

/-- Names of the constraints violated by `σ` (diagnostics for the driver). -/
def violated {V : Type} (σ : V → Int) (m : Model V) : List String :=
  (m.constrs.filter (fun c => !decide (c.holds σ))).map Constr.name

end ErdosVerif.Mip
