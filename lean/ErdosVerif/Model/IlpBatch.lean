/-
The optimisation model that `schedulers/ilp_scheduler.py` builds for one invocation of
`ILPScheduler(batching=True)`, and the decoding of a solver assignment into placements
(including the merge of the per-`BatchTask` placements back to the member tasks).

`BInst` is what the model-building code reads: everything `Ilp.Inst` holds, the member
tasks with their `WorkProfile` (name) and — for RUNNING / SCHEDULED tasks — the identity
(`prevKey`) and the data of `current_placement.execution_strategy`, and per profile the
strategies and the *iteration order of the per-profile task set* (`profile_to_tasks[p]`
is a Python `set`: its order is an input, recorded from the real call).

`BInst.batches` mirrors `_create_batch_task_variables` (BatchTask formation), `genB`
mirrors the BatchTask branches of `TaskOptimizerVariables.__init__`,
`_add_task_dependency_constraints`, `_add_resource_constraints` / `_overlaps`,
`_add_objective` constraint by constraint with the code's names, `decodeB` mirrors
`get_placements` of a BatchTask + the merge loop of `schedule()` (lines 715-759).

Quirks kept on purpose (docs/planner_ilp_batching.md):
* a BatchTask is RUNNING iff all members are; it then has no variables, its start is the
  constant `now`, and — because its strategy is a *fresh* `BatchStrategy` while the previous
  placement is pinned under the *old* strategy object — `placed_on_worker_with_strategy`
  is 0 for every worker: runtime 0 in every precedence / overlap row, no capacity row, no
  demand in anybody's capacity row; only `quicksum(placed_on_workers)` sees the constant 1;
* a group of previously placed tasks in mixed states (RUNNING + SCHEDULED) is RELEASED;
* a SCHEDULED group in non-retracting mode is re-decided with `Σ x = 1` (never seeded);
* fresh BatchTasks: queue in deadline order, for every head every strategy (largest batch
  size first) with `now + runtime ≤ deadline(head)` and enough tasks left takes the first
  `batch_size` tasks of the queue; a task may be in several BatchTasks
  (`…_unique_batch_placement`), or in none (then it gets no decision at all);
* the deadline row of a BatchTask is dropped iff all members' graphs are in
  `_allowed_to_miss_deadlines` — also without `release_taskgraphs`;
* the sort key of such a task is `float('inf')`: a queue with both kinds raises
  `AttributeError`; `goal = max_slack` raises `AttributeError` as soon as a BatchTask exists;
* a BatchTask containing a parent of one of its own members is its own parent variable.

Core Lean only (the driver links this module).
-/
import ErdosVerif.Model.Ilp
namespace ErdosVerif.IlpBatch
open ErdosVerif.Mip ErdosVerif.Ilp

structure BTask where
  uniq : String
  name : String
  ts : Int
  graph : String
  state : TState
  release : Int
  deadline : Int
  profile : String         -- `task.profile.name`
  prevW : Nat              -- RUNNING / SCHEDULED: index of the worker of `current_placement`
  prevKey : Nat            -- identity label of `current_placement.execution_strategy`
  prevStrat : Strat        -- its batch size / runtime / resources
  deriving Repr, Inhabited

structure ProfileI where
  name : String
  strats : List Strat      -- `profile.execution_strategies`, in order
  order : List Nat         -- iteration order of `profile_to_tasks[profile]` (task indices)
  deriving Repr, Inhabited

structure BInst where
  now : Int
  workers : List WorkerI
  tasks : List BTask
  nOffered : Nat
  nodes : List Node
  edges : List (String × String)
  enforceDeadlines : Bool
  retract : Bool
  releaseTaskgraphs : Bool
  goalSlack : Bool
  allowed0 : List String
  profiles : List ProfileI
  deriving Repr, Inhabited

/-- A `BatchTask`. -/
structure Batch where
  name : String
  members : List Nat       -- `BatchTask.tasks` (indices of member tasks), in order
  strat : Strat            -- the copied strategy of its `BatchStrategy`
  fresh : Bool             -- built from the queue of not yet placed tasks
  deriving Repr, Inhabited

/-! ### The underlying non-batching instance (graph helpers, `_allowed_to_miss_deadlines`) -/

def BTask.toTaskI (t : BTask) : TaskI :=
  { uniq := t.uniq, name := t.name, ts := t.ts, graph := t.graph, state := t.state,
    release := t.release, deadline := t.deadline, strats := [], prevW := t.prevW, prevS := 0 }

def BInst.base (I : BInst) : Inst :=
  { now := I.now, workers := I.workers, tasks := I.tasks.map BTask.toTaskI, nOffered := I.nOffered,
    nodes := I.nodes, edges := I.edges, enforceDeadlines := I.enforceDeadlines, retract := I.retract,
    releaseTaskgraphs := I.releaseTaskgraphs, goalSlack := I.goalSlack, allowed0 := I.allowed0 }

def BInst.nT (I : BInst) : Nat := I.tasks.length
def BInst.nW (I : BInst) : Nat := I.workers.length
def BInst.task (I : BInst) (t : Nat) : BTask := I.tasks.getD t default
def BInst.worker (I : BInst) (w : Nat) : WorkerI := I.workers.getD w default

/-- `task.task_graph in self._allowed_to_miss_deadlines` (after the first loop of `_add_variables`). -/
def BInst.isAllowed (I : BInst) (t : Nat) : Bool := I.base.allowed.contains (I.task t).graph

/-! ### BatchTask formation (`_create_batch_task_variables`) -/

/-- RUNNING, or SCHEDULED in non-retracting mode: grouped by previous strategy object. -/
def BInst.placedLike (I : BInst) (t : Nat) : Bool :=
  (I.task t).state == .running || (!I.retract && (I.task t).state == .scheduled)

/-- Stable insertion sort by an integer key (ascending). -/
def insertK {α : Type} (k : α → Int) (x : α) : List α → List α
  | [] => [x]
  | y :: ys => if k y < k x then y :: insertK k x ys else x :: y :: ys
def sortK {α : Type} (k : α → Int) : List α → List α
  | [] => []
  | x :: xs => insertK k x (sortK k xs)

/-- The queue of not yet placed tasks of a profile, in set-iteration order. -/
def BInst.unplaced (I : BInst) (P : ProfileI) : List Nat := P.order.filter (fun t => !I.placedLike t)

/-- `sorted(unscheduled_tasks, key = deadline | inf)` raises when both kinds of key occur. -/
def BInst.sortCrash (I : BInst) (P : ProfileI) : Bool :=
  (I.unplaced P).any I.isAllowed && (I.unplaced P).any (fun t => !I.isAllowed t)

/-- The sorted queue (all keys `inf`: the stable sort keeps the iteration order). -/
def BInst.queue (I : BInst) (P : ProfileI) : List Nat :=
  if (I.unplaced P).all I.isAllowed then I.unplaced P
  else sortK (fun t => (I.task t).deadline) (I.unplaced P)

/-- `sorted(strategies, key=batch_size, reverse=True)` (stable). -/
def stratsDesc (l : List Strat) : List Strat := sortK (fun s => -(s.batch : Int)) l

/-- The `while` loop: for every head of the queue, every strategy that meets the head's deadline
from now and finds enough tasks takes the first `batch_size` tasks. -/
def BInst.freshFrom (I : BInst) (P : ProfileI) : List Nat → List (List Nat × Strat)
  | [] => []
  | h :: rest =>
    (((stratsDesc P.strats).filter (fun s => decide (I.now + (s.runtime : Int) ≤ (I.task h).deadline))).filterMap
      (fun s => if (h :: rest).length < s.batch then none else some ((h :: rest).take s.batch, s))) ++
    I.freshFrom P rest

/-- Groups of previously placed tasks, keyed by the strategy object of their placement, in
order of first appearance. -/
def BInst.groups (I : BInst) (P : ProfileI) : List (List Nat × Strat) :=
  let pl := P.order.filter I.placedLike
  ((pl.map (fun t => (I.task t).prevKey)).eraseDups).map (fun k =>
    let ms := pl.filter (fun t => (I.task t).prevKey == k)
    (ms, (I.task (ms.headD 0)).prevStrat))

def BInst.batchesOf (I : BInst) (P : ProfileI) : List Batch :=
  let g := (I.groups P).map (fun p => (p, false))
  let f := (I.freshFrom P (I.queue P)).map (fun p => (p, true))
  (g ++ f).mapIdx (fun i p => ⟨s!"{P.name}_{i + 1}", p.1.1, p.1.2, p.2⟩)

/-- Profiles in `profile_to_tasks` (dict) order: first appearance among the tasks. -/
def BInst.profileOrder (I : BInst) : List ProfileI :=
  ((I.tasks.map (fun t => t.profile)).eraseDups).map (fun n =>
    (I.profiles.find? (fun P => P.name == n)).getD ⟨n, [], []⟩)

/-- `tasks_to_variables` in order. -/
def BInst.batches (I : BInst) : List Batch := I.profileOrder.flatMap I.batchesOf

/-- The exception `schedule()` raises before a model is solved, if any. -/
def BInst.crash (I : BInst) : Option String :=
  if I.profileOrder.any I.sortCrash then some "AttributeError"
  else if I.goalSlack && !I.batches.isEmpty then some "AttributeError"
  else none

/-! ### Batch-level accessors -/

def BInst.nB (I : BInst) : Nat := I.batches.length
def BInst.batch (I : BInst) (b : Nat) : Batch := I.batches.getD b default
def BInst.members (I : BInst) (b : Nat) : List Nat := (I.batch b).members
def BInst.bname (I : BInst) (b : Nat) : String := (I.batch b).name
def BInst.bstrat (I : BInst) (b : Nat) : Strat := (I.batch b).strat

/-- `BatchTask.state == RUNNING`. -/
def BInst.bRunning (I : BInst) (b : Nat) : Bool := (I.members b).all (fun t => (I.task t).state == .running)
/-- `BatchTask.state == SCHEDULED`. -/
def BInst.bScheduled (I : BInst) (b : Nat) : Bool :=
  !I.bRunning b && (I.members b).all (fun t => (I.task t).state == .scheduled)

def maxL : List Int → Int
  | [] => 0
  | [a] => a
  | a :: as => max a (maxL as)
def minL : List Int → Int
  | [] => 0
  | [a] => a
  | a :: as => min a (minL as)

/-- `BatchTask.release_time` / `.deadline`. -/
def BInst.bRelease (I : BInst) (b : Nat) : Int := maxL ((I.members b).map (fun t => (I.task t).release))
def BInst.bDeadline (I : BInst) (b : Nat) : Int := minL ((I.members b).map (fun t => (I.task t).deadline))

/-- `enforce_deadlines` handed to the BatchTask's variables (lines 901-908). -/
def BInst.bEnforce (I : BInst) (b : Nat) : Bool :=
  if (I.members b).all I.isAllowed then false else I.enforceDeadlines

def BInst.runtime (I : BInst) (b : Nat) : Int := ((I.bstrat b).runtime : Nat)
def BInst.nonRunning (I : BInst) : List Nat := (List.range I.nB).filter (fun b => !I.bRunning b)

/-- Does (BatchTask, worker) carry a Gurobi variable? -/
def BInst.hasVar (I : BInst) (b w : Nat) : Bool := !I.bRunning b && compatible (I.worker w) (I.bstrat b)

/-- `placed_on_worker_with_strategy(w, batch strategy)`. -/
def BInst.xE (I : BInst) (b w : Nat) : LinExpr Var :=
  if I.bRunning b then .ofConst 0
  else if compatible (I.worker w) (I.bstrat b) then .ofVar (.x b w 0)
  else .ofConst 0

def BInst.startE (I : BInst) (b : Nat) : LinExpr Var :=
  if I.bRunning b then .ofConst I.now else .ofVar (.start b)

/-- `gp.quicksum(placed_on_workers)`: for a RUNNING BatchTask the dict holds one more entry,
the constant 1 under the key of the old strategy object. -/
def BInst.sumX (I : BInst) (b : Nat) : LinExpr Var :=
  LinExpr.sumL ((List.range I.nW).map (I.xE b) ++ (if I.bRunning b then [.ofConst 1] else []))

def BInst.durE (I : BInst) (b : Nat) : LinExpr Var :=
  LinExpr.sumL ((List.range I.nW).map (fun w => LinExpr.smul (I.runtime b) (I.xE b w)))

/-! ### Names -/

def BInst.xName (I : BInst) (b w : Nat) : String :=
  s!"{I.bname b}_placed_on_{(I.worker w).name}_with_batch_size_{(I.bstrat b).batch}_runtime_{(I.bstrat b).runtime}"

/-- Graph names in order of first appearance among the members of the BatchTasks. -/
def BInst.graphs (I : BInst) : List String :=
  (I.batches.flatMap (fun b => b.members.map (fun t => (I.task t).graph))).eraseDups

def BInst.varName (I : BInst) : Var → String
  | .start b => s!"{I.bname b}_start"
  | .x b w _ => I.xName b w
  | .allParents b => s!"{I.bname b}_all_parents_placed"
  | .overlap a b => s!"Overlap[{I.bname a},{I.bname b}]"
  | .after a b => s!"{I.bname a}_starts_after_{I.bname b}_ends"
  | .before a b => s!"{I.bname a}_ends_before_{I.bname b}_starts"
  | .greward g => s!"{I.graphs.getD g ""}_reward"
  | .treward t => s!"{(I.task t).uniq}_reward"

/-! ### Constraints -/

def BInst.cDeadline (I : BInst) (b : Nat) : List (Constr Var) :=
  if I.bEnforce b then
    [.lin s!"{I.bname b}_enforce_deadlines" (LinExpr.add (I.startE b) (I.durE b)) .le (I.bDeadline b)]
  else []

def BInst.cPlacement (I : BInst) (b : Nat) : List (Constr Var) :=
  if I.bScheduled b && !I.retract then
    [.lin s!"{I.bname b}_previously_scheduled_required_placement" (I.sumX b) .eq 1]
  else
    [.lin s!"{I.bname b}_consistent_placement" (I.sumX b) .le 1]

/-- The fresh BatchTasks a task is a member of (`tasks_to_batch_tasks[task]`). -/
def BInst.freshOf (I : BInst) (t : Nat) : List Nat :=
  (List.range I.nB).filter (fun b => (I.batch b).fresh && (I.members b).contains t)

/-- `…_unique_batch_placement`: at most one of the fresh BatchTasks of a task is placed. -/
def BInst.cUnique (I : BInst) (t : Nat) : List (Constr Var) :=
  if (I.freshOf t).isEmpty then [] else
    [.lin s!"{(I.task t).uniq}_unique_batch_placement" (LinExpr.sumL ((I.freshOf t).map I.sumX)) .le 1]

/-- `parent_tasks`: the graph parents of all members (a set of tasks). -/
def BInst.parentTasks (I : BInst) (c : Nat) : List String :=
  ((I.members c).flatMap (fun m => I.base.parentsOf (I.task m).uniq)).eraseDups

def BInst.hasMember (I : BInst) (b : Nat) (u : String) : Bool := (I.members b).any (fun m => (I.task m).uniq == u)

/-- `num_parents_in_variable`. -/
def BInst.nParentsIn (I : BInst) (c v : Nat) : Nat := ((I.parentTasks c).filter (I.hasMember v)).length

/-- `parent_variables` (may contain `c` itself). -/
def BInst.parentVars (I : BInst) (c : Nat) : List Nat :=
  (List.range I.nB).filter (fun v => I.nParentsIn c v != 0)

def BInst.cStartAfter (I : BInst) (c p : Nat) : List (Constr Var) :=
  (List.range I.nW).map (fun w =>
    .lin s!"{I.bname c}_start_after_{I.bname p}_on_worker_{(I.worker w).name}_with_batch_size_{(I.bstrat p).batch}_runtime_{(I.bstrat p).runtime}"
      (LinExpr.sub (I.startE c) (LinExpr.add (I.startE p) (LinExpr.smul (I.runtime p + 1) (I.xE p w))))
      .ge 0)

def BInst.parentExpr (I : BInst) (c : Nat) : LinExpr Var :=
  LinExpr.sumL ((I.parentVars c).map (fun p => LinExpr.smul (I.nParentsIn c p : Nat) (I.sumX p)))

def BInst.cDeps (I : BInst) (c : Nat) : List (Constr Var) :=
  if (I.parentVars c).isEmpty then [] else
    (I.parentVars c).flatMap (I.cStartAfter c) ++
    [ .ind s!"{I.bname c}_parents_placed_False" (.allParents c) 0 (I.parentExpr c) .le (((I.parentTasks c).length : Int) - 1),
      .ind s!"{I.bname c}_parents_placed_True" (.allParents c) 1 (I.parentExpr c) .eq ((I.parentTasks c).length : Int),
      .ind s!"{I.bname c}_placement_False" (.allParents c) 0 (I.sumX c) .eq 0 ]

def BInst.pairs (I : BInst) : List (Nat × Nat) :=
  (List.range I.nB).flatMap (fun a => ((List.range I.nB).filter (fun b => b != a)).map (fun b => (a, b)))

/-- Some two tasks among the members of both BatchTasks are dependent (same graph,
ancestor / descendant): `Overlap = 0`, no indicator rows. -/
def BInst.dependent (I : BInst) (a b : Nat) : Bool :=
  let l := I.members a ++ I.members b
  l.any (fun x => l.any (fun y => I.base.dependent x y))

def BInst.afterExpr (I : BInst) (a b : Nat) : LinExpr Var :=
  LinExpr.sub (LinExpr.sub (I.startE a) (I.startE b)) (I.durE b)
def BInst.beforeExpr (I : BInst) (a b : Nat) : LinExpr Var :=
  LinExpr.sub (LinExpr.add (I.startE a) (I.durE a)) (I.startE b)

def BInst.cOverlap (I : BInst) (p : Nat × Nat) : List (Constr Var) :=
  let a := p.1; let b := p.2
  if I.dependent a b then
    [.lin s!"{I.bname a}_no_overlap_{I.bname b}_dependent" (LinExpr.ofVar (.overlap a b)) .eq 0]
  else
    [ .ind s!"{I.bname a}_starts_after_{I.bname b}_ends_False" (.after a b) 0 (I.afterExpr a b) .le 0,
      .ind s!"{I.bname a}_starts_after_{I.bname b}_ends_True" (.after a b) 1 (I.afterExpr a b) .ge 1,
      .ind s!"{I.bname a}_ends_before_{I.bname b}_starts_False" (.before a b) 0 (I.beforeExpr a b) .ge 0,
      .ind s!"{I.bname a}_ends_before_{I.bname b}_starts_True" (.before a b) 1 (I.beforeExpr a b) .le (-1),
      .lin s!"{I.bname a}_overlap_{I.bname b}"
        (LinExpr.add (LinExpr.add (LinExpr.ofVar (.after a b)) (LinExpr.ofVar (.before a b)))
          (LinExpr.ofVar (.overlap a b))) .eq 1 ]

def BInst.needs (I : BInst) (b : Nat) (r : String) : Bool := qty (I.bstrat b).req r != 0

def BInst.ownDemand (I : BInst) (b w : Nat) (r : String) : LinExpr Var :=
  LinExpr.sumL (if I.needs b r then [LinExpr.smul (qty (I.bstrat b).req r : Nat) (I.xE b w)] else [])

def BInst.otherDemand (I : BInst) (t1 t2 w : Nat) (r : String) : QuadExpr Var :=
  QuadExpr.sumQ (if I.needs t2 r then
    [QuadExpr.mulVar (LinExpr.smul (qty (I.bstrat t2).req r : Nat) (I.xE t2 w)) (.overlap t1 t2)] else [])

/-- A RUNNING BatchTask is "previously placed, but not on this worker" for every worker. -/
def BInst.others (I : BInst) (t1 : Nat) : List Nat :=
  (List.range I.nB).filter (fun t2 => t2 != t1 && !I.bRunning t2)

def BInst.resExpr (I : BInst) (t1 w : Nat) (r : String) : QuadExpr Var :=
  QuadExpr.add (QuadExpr.ofLin (I.ownDemand t1 w r))
    (QuadExpr.sumQ ((I.others t1).map (fun t2 => I.otherDemand t1 t2 w r)))

def BInst.cResource (I : BInst) (t1 : Nat) : List (Constr Var) :=
  if I.bRunning t1 then [] else
  (List.range I.nW).flatMap (fun w =>
    (I.worker w).types.map (fun r =>
      .quad s!"{I.bname t1}_{(I.worker w).name}_{r}_constraint" (I.resExpr t1 w r) .le
        (qty (I.worker w).res r : Nat)))

/-- BatchTasks (in order) that hold task `t`. -/
def BInst.batchesOfTask (I : BInst) (t : Nat) : List Nat :=
  (List.range I.nB).filter (fun b => (I.members b).contains t)

def BInst.inSomeBatch (I : BInst) (u : String) : Bool := (List.range I.nB).any (fun b => I.hasMember b u)

def BInst.isReward (I : BInst) (t : Nat) : Bool :=
  if I.releaseTaskgraphs then I.base.isSink (I.base.task t)
  else !(I.base.childrenOf (I.task t).uniq).any I.inSomeBatch

def BInst.rewardTasks (I : BInst) (g : String) : List Nat :=
  (List.range I.nT).filter (fun t => !(I.batchesOfTask t).isEmpty && (I.task t).graph == g && I.isReward t)

def BInst.cObjective (I : BInst) : List (Constr Var) :=
  if I.goalSlack then [] else
    (List.range I.graphs.length).flatMap (fun gi =>
      let g := I.graphs.getD gi ""
      (I.rewardTasks g).map (fun t =>
        .lin s!"{(I.task t).uniq}_reward_constraint"
          (LinExpr.sub (LinExpr.ofVar (.treward t)) (LinExpr.sumL ((I.batchesOfTask t).map I.sumX))) .eq 0) ++
      [.and s!"{g}_reward_constraint" (.greward gi) ((I.rewardTasks g).map Var.treward)])

def BInst.constrs (I : BInst) : List (Constr Var) :=
  I.nonRunning.flatMap (fun b => I.cDeadline b ++ I.cPlacement b) ++
  (List.range I.nT).flatMap I.cUnique ++
  I.nonRunning.flatMap I.cDeps ++
  I.pairs.flatMap I.cOverlap ++
  (List.range I.nB).flatMap I.cResource ++
  I.cObjective

/-! ### Variables, objective -/

def BInst.startLb (I : BInst) (b : Nat) : Int := max (I.now + 1) (I.bRelease b)

def BInst.batchVars (I : BInst) (b : Nat) : List (VarDecl Var) :=
  ⟨.start b, .int, some (I.startLb b), none⟩ ::
    ((List.range I.nW).filter (fun w => I.hasVar b w)).map (fun w => binDecl (.x b w 0))

def BInst.vars (I : BInst) : List (VarDecl Var) :=
  I.nonRunning.flatMap I.batchVars ++
  (I.nonRunning.filter (fun c => !(I.parentVars c).isEmpty)).map (fun c => binDecl (.allParents c)) ++
  I.pairs.map (fun p => binDecl (.overlap p.1 p.2)) ++
  (I.pairs.filter (fun p => !I.dependent p.1 p.2)).flatMap (fun p =>
    [binDecl (.after p.1 p.2), binDecl (.before p.1 p.2)]) ++
  (List.range I.graphs.length).map (fun g => ⟨.greward g, .int, none, none⟩) ++
  (if I.goalSlack then [] else
    (List.range I.graphs.length).flatMap (fun gi =>
      (I.rewardTasks (I.graphs.getD gi "")).map (fun t => binDecl (.treward t))))

def BInst.obj (I : BInst) : QuadExpr Var :=
  QuadExpr.ofLin (LinExpr.sumL ((List.range I.graphs.length).map (fun g => LinExpr.ofVar (.greward g))))

/-- The model handed to Gurobi in batching mode. -/
def genB (I : BInst) : Model Var := ⟨I.vars, I.constrs, I.obj⟩

/-! ### Decoding -/

/-- A returned `Placement`: the member task and, when placed, the BatchTask whose strategy it
carries, the worker index and the start time. -/
structure BDecision where
  task : Nat
  placed : Option (Nat × Nat × Int)
  deriving Repr, DecidableEq

/-- `get_placements`: scan over the workers, the last hit wins (one strategy, `break`). -/
def BInst.chosen (I : BInst) (σ : Var → Int) (b : Nat) : Option Nat :=
  (List.range I.nW).foldl (fun acc w => if I.hasVar b w && σ (.x b w 0) == 1 then some w else acc) none

/-- The Placements one BatchTask yields: one per member, all with the batch's worker / start. -/
def BInst.placementsOf (I : BInst) (σ : Var → Int) (b : Nat) : List BDecision :=
  (I.members b).map (fun m => ⟨m, (I.chosen σ b).map (fun w => (b, w, σ (.start b)))⟩)

/-- One step of the merge loop of `schedule()` (`task_placement_map`, insertion-ordered): the
first Placement of a task is kept unless it is unplaced, in which case a later one replaces it
in place. -/
def mergeOne (acc : List BDecision) (d : BDecision) : List BDecision :=
  match acc.find? (fun e => e.task == d.task) with
  | none => acc ++ [d]
  | some e => if e.placed.isSome then acc else acc.map (fun x => if x.task == d.task then d else x)

/-- Decisions returned when the solver found a solution. -/
def decodeB (I : BInst) (σ : Var → Int) : List BDecision :=
  (I.nonRunning.flatMap (I.placementsOf σ)).foldl mergeOne []

/-- Decisions returned when no solution was found: every offered task unplaced. -/
def decodeFailB (I : BInst) : List BDecision := (List.range I.nOffered).map (fun t => ⟨t, none⟩)

/-! ### Well-formedness (decidable facts about the extracted instance, evaluated by the driver) -/

/-- Every strategy has a batch size ≥ 1 (a BatchTask is never empty). -/
def BInst.wfSizes (I : BInst) : Bool :=
  I.profiles.all (fun P => P.strats.all (fun s => decide (1 ≤ s.batch))) &&
  I.tasks.all (fun t => !(t.state == .running || t.state == .scheduled) || decide (1 ≤ t.prevStrat.batch))

/-- BatchTask names are unique (`tasks_to_variables` is keyed by them): profile names are. -/
def BInst.wfNames (I : BInst) : Bool :=
  (I.batches.map (fun b => b.name)).eraseDups.length == I.nB

/-- The recorded iteration order of every profile's task set lists exactly the tasks of
that profile, once each. -/
def BInst.wfOrder (I : BInst) : Bool :=
  I.profileOrder.all (fun P =>
    P.order.all (fun t => decide (t < I.nT) && (I.task t).profile == P.name) &&
    (List.range I.nT).all (fun t => !((I.task t).profile == P.name) || (P.order.filter (· == t)).length == 1))

/-- A RUNNING BatchTask's first member names a worker of this invocation. -/
def BInst.wfRunning (I : BInst) : Bool :=
  (List.range I.nB).all (fun b => !I.bRunning b || decide ((I.task ((I.members b).headD 0)).prevW < I.nW))

/-- Two different BatchTasks share a member only if both were built from the queue of not yet
placed tasks (then that member's `…_unique_batch_placement` row covers both): a previously
placed task belongs to exactly one group, and to no fresh BatchTask. -/
def BInst.wfShared (I : BInst) : Bool :=
  (List.range I.nB).all (fun a => (List.range I.nB).all (fun b =>
    a == b || !((I.members a).any (fun m => (I.members b).contains m)) ||
    ((I.batch a).fresh && (I.batch b).fresh)))

/-- Unique names of the member tasks are pairwise distinct (the graph relations are read through
them) and every member of a BatchTask is a task of the call. -/
def BInst.wfUniq (I : BInst) : Bool :=
  (List.range I.nT).all (fun i => (List.range I.nT).all (fun j =>
    i == j || !((I.task i).uniq == (I.task j).uniq))) &&
  (List.range I.nB).all (fun b => (I.members b).all (fun m => decide (m < I.nT)))

def BInst.wf (I : BInst) : Bool :=
  I.wfSizes && I.wfNames && I.wfOrder && I.wfRunning && I.wfShared && I.wfUniq && decide (I.nOffered ≤ I.nT)

end ErdosVerif.IlpBatch
