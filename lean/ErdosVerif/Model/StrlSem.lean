/-
C20 — what the property talks about, stated without reference to the generated
constraint system: resource usage of the placements read back, the resources
held by the Allocation leaves, alignment of the leaf start times to the
discretisation, and the Choose leaves of a tree.
-/
import ErdosVerif.Model.Strl
namespace ErdosVerif.Strl

/-- `Σ f a` over a list. -/
def sumBy {α : Type} (f : α → Int) : List α → Int
  | [] => 0
  | a :: l => f a + sumBy f l

/-- Quantity of partition `pid` held by one placement at time `t`
(an allocation entry of a Choose is valid from the start to the end of the placement). -/
def Placement.usageAt (pl : Placement) (pid : Nat) (t : Int) : Int :=
  if pl.start ≤ t ∧ t < pl.stop then sumBy (fun a => if a.1 = pid then a.2.2 else 0) pl.allocs else 0

/-- Quantity of partition `pid` held by a set of placements at time `t`. -/
def usageAt (pls : List Placement) (pid : Nat) (t : Int) : Int :=
  sumBy (fun pl => pl.usageAt pid t) pls

mutual
/-- Quantity of partition `pid` held at time `t` by the Allocation leaves of the tree
(already running tasks: they hold their resources whatever the solver decides). -/
def allocUsageAt (pid : Nat) (t : Int) : Expr → Int
  | .choose .. => 0
  | .alloc _ allocs start dur =>
    if (start : Int) ≤ t ∧ t < (start : Int) + dur then
      sumBy (fun a => if a.1 = pid then (a.2 : Int) else 0) allocs else 0
  | .obj _ cs => allocUsageAtL pid t cs
  | .min _ cs => allocUsageAtL pid t cs
  | .max _ cs => allocUsageAtL pid t cs
  | .lt _ a b => allocUsageAt pid t a + allocUsageAt pid t b
  | .scale _ _ _ c => allocUsageAt pid t c
def allocUsageAtL (pid : Nat) (t : Int) : List Expr → Int
  | [] => 0
  | e :: es => allocUsageAt pid t e + allocUsageAtL pid t es
end

mutual
/-- Every leaf starts at a time congruent to `r` modulo the granularity `g`. -/
def alignedTo (g r : Nat) : Expr → Bool
  | .choose _ _ _ _ start _ _ => start % g == r
  | .alloc _ _ start _ => start % g == r
  | .obj _ cs => alignedToL g r cs
  | .min _ cs => alignedToL g r cs
  | .max _ cs => alignedToL g r cs
  | .lt _ a b => alignedTo g r a && alignedTo g r b
  | .scale _ _ _ c => alignedTo g r c
def alignedToL (g r : Nat) : List Expr → Bool
  | [] => true
  | e :: es => alignedTo g r e && alignedToL g r es
end

/-- The leaf start times agree modulo the granularity (always true for granularity 1). -/
def Aligned (g : Nat) (e : Expr) : Prop := ∃ r, alignedTo g r e = true

/-- A Choose leaf as the property sees it. -/
structure ChooseLeaf where
  name : String
  parts : List Nat
  n : Nat
  start : Nat
  dur : Nat
  deriving Repr, DecidableEq

mutual
def chooseLeaves : Expr → List ChooseLeaf
  | .choose name _ parts n start dur _ => [⟨name, parts, n, start, dur⟩]
  | .alloc .. => []
  | .obj _ cs => chooseLeavesL cs
  | .min _ cs => chooseLeavesL cs
  | .max _ cs => chooseLeavesL cs
  | .lt _ a b => chooseLeaves a ++ chooseLeaves b
  | .scale _ _ _ c => chooseLeaves c
def chooseLeavesL : List Expr → List ChooseLeaf
  | [] => []
  | e :: es => chooseLeaves e ++ chooseLeavesL es
end

/-- A placement is exactly what the Choose leaf `c` asked for: its name, its start,
its duration, its demand, taken from its own partitions that are available,
each within the partition's quantity, every entry dated at the start. -/
def Placement.matches (ctx : Ctx) (pl : Placement) (c : ChooseLeaf) : Prop :=
  pl.name = c.name ∧ pl.start = c.start ∧ pl.stop = (c.start : Int) + c.dur ∧
  ctx.now ≤ c.start ∧
  sumBy (fun a => a.2.2) pl.allocs = c.n ∧
  ∀ a ∈ pl.allocs, a.2.1 = c.start ∧ 0 < a.2.2 ∧ a.1 ∈ c.parts ∧ a.1 ∈ ctx.avail ∧
    ∃ p, ctx.find a.1 = some p ∧ a.2.2 ≤ p.qty

mutual
/-- `P path name children` holds at every `Max` node of the tree (`path` = position of the node). -/
def forallMax (P : Path → String → List Expr → Prop) : Path → Expr → Prop
  | _, .choose .. => True
  | _, .alloc .. => True
  | path, .obj _ cs => forallMaxL P path 0 cs
  | path, .min _ cs => forallMaxL P path 0 cs
  | path, .max name cs => P path name cs
  | path, .lt _ a b => forallMax P (0 :: path) a ∧ forallMax P (1 :: path) b
  | path, .scale _ _ _ c => forallMax P (0 :: path) c
def forallMaxL (P : Path → String → List Expr → Prop) : Path → Nat → List Expr → Prop
  | _, _, [] => True
  | path, i, e :: es => forallMax P (i :: path) e ∧ forallMaxL P path (i + 1) es
end


/-- Value of a node's indicator under an assignment. -/
def indVal (σ : Assign) (r : PR) : Int := resolveTV σ r.ind


mutual
/-- No `LessThan` of the tree is decided at compile time (the class C20-F2). -/
def noStaticLt (ctx : Ctx) (path : Path) : Expr → Bool
  | .choose .. => true
  | .alloc .. => true
  | .obj _ cs => noStaticLtL ctx path 0 cs
  | .min _ cs => noStaticLtL ctx path 0 cs
  | .max _ cs => noStaticLtL ctx path 0 cs
  | .lt _ a b =>
    noStaticLt ctx (0 :: path) a && noStaticLt ctx (1 :: path) b &&
    !((compileNode ctx (0 :: path) a).pr.util && (compileNode ctx (1 :: path) b).pr.util &&
      isConst (compileNode ctx (0 :: path) a).pr.stop && isConst (compileNode ctx (1 :: path) b).pr.start)
  | .scale _ _ _ c => noStaticLt ctx (0 :: path) c
def noStaticLtL (ctx : Ctx) (path : Path) (i : Nat) : List Expr → Bool
  | [] => true
  | e :: es => noStaticLt ctx (i :: path) e && noStaticLtL ctx path (i + 1) es
end


mutual
/-- `P path node` holds at every node of the tree. -/
def forallNodes (P : Path → Expr → Prop) : Path → Expr → Prop
  | path, .choose a b c d e f g => P path (.choose a b c d e f g)
  | path, .alloc a b c d => P path (.alloc a b c d)
  | path, .obj n cs => P path (.obj n cs) ∧ forallNodesL P path 0 cs
  | path, .min n cs => P path (.min n cs) ∧ forallNodesL P path 0 cs
  | path, .max n cs => P path (.max n cs) ∧ forallNodesL P path 0 cs
  | path, .lt n a b => P path (.lt n a b) ∧ forallNodes P (0 :: path) a ∧ forallNodes P (1 :: path) b
  | path, .scale n f d c => P path (.scale n f d c) ∧ forallNodes P (0 :: path) c
def forallNodesL (P : Path → Expr → Prop) : Path → Nat → List Expr → Prop
  | _, _, [] => True
  | path, i, e :: es => forallNodes P (i :: path) e ∧ forallNodesL P path (i + 1) es
end

/-- What the property says about one node of the tree under an assignment:
* a node without utility, and a node whose indicator is 0, reports no placement;
* `Min`: if it reports a placement, every child provides utility and has indicator 1;
* `Max`: it reports at most one placement;
* `LessThan` (both children with utility): the first child's end is no later than the second
  child's start, and if it reports a placement both children have indicator 1. -/
def nodeClause (ctx : Ctx) (σ : Assign) (path : Path) (e : Expr) : Prop :=
  (((compileNode ctx path e).pr.util = false ∨ indVal σ (compileNode ctx path e).pr = 0) →
    (populateNode ctx σ path e).placements = []) ∧
  (match e with
   | .min _ cs => (populateNode ctx σ path e).placements ≠ [] →
      ∀ x ∈ compileList ctx path 0 cs, x.2.pr.util = true ∧ indVal σ x.2.pr = 1
   | .max _ _ => (populateNode ctx σ path e).placements.length ≤ 1
   | .lt _ a b =>
      (compileNode ctx (0 :: path) a).pr.util = true → (compileNode ctx (1 :: path) b).pr.util = true →
      resolveTV σ (compileNode ctx (0 :: path) a).pr.stop ≤ resolveTV σ (compileNode ctx (1 :: path) b).pr.start ∧
      ((populateNode ctx σ path e).placements ≠ [] →
        indVal σ (compileNode ctx (0 :: path) a).pr = 1 ∧ indVal σ (compileNode ctx (1 :: path) b).pr = 1)
   | _ => True)


/-- Span soundness of one node: if it provides utility and its indicator is 1, its reported
start is no later than its reported end, and every placement it reports lies in between. -/
def Span (ctx : Ctx) (σ : Assign) (path : Path) (e : Expr) : Prop :=
  (compileNode ctx path e).pr.util = true → indVal σ (compileNode ctx path e).pr = 1 →
    resolveTV σ (compileNode ctx path e).pr.start ≤ resolveTV σ (compileNode ctx path e).pr.stop ∧
    ∀ pl ∈ (populateNode ctx σ path e).placements,
      resolveTV σ (compileNode ctx path e).pr.start ≤ pl.start ∧
      pl.stop ≤ resolveTV σ (compileNode ctx path e).pr.stop

/-- A satisfied `LessThan`: everything reported below the first child ends no later than
anything reported below the second child starts. -/
def LtOrder (ctx : Ctx) (σ : Assign) (path : Path) (name : String) (a b : Expr) : Prop :=
  (compileNode ctx path (.lt name a b)).pr.util = true →
  indVal σ (compileNode ctx path (.lt name a b)).pr = 1 →
  ∀ qa ∈ (populateNode ctx σ (0 :: path) a).placements,
  ∀ qb ∈ (populateNode ctx σ (1 :: path) b).placements, qa.stop ≤ qb.start

/-- Per-node clause of span soundness: the node's own span, and for a `LessThan` the order
of what its two children report. -/
def spanClause (ctx : Ctx) (σ : Assign) (path : Path) (e : Expr) : Prop :=
  Span ctx σ path e ∧
  (match e with
   | .lt name a b => LtOrder ctx σ path name a b
   | _ => True)



end ErdosVerif.Strl
