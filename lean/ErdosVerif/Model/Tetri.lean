/-
M11 (part 3): the optimisation models that the two TetriSched formulations build for
one invocation, and the decoding of a solver assignment into decisions:

* `genG inst` mirrors `schedulers/tetrisched_gurobi_scheduler.py`
  (`TaskOptimizerVariables.__init__`, `_add_task_dependency_constraints`,
  `_add_resource_constraints`, `_add_objective`), constraint for constraint and with the
  code's names;
* `genC inst` mirrors `schedulers/tetrisched_cplex_scheduler.py` in non-batching mode
  (admission control, `TaskOptimizerVariables.__init__`, `_add_resource_constraints`,
  `_add_objective`);
* `decodeG` / `decodeC` mirror `get_placements` and the collection loops of `schedule()`.

`Inst` is what the model-building code reads: the invocation time, the time
discretisation and `plan_ahead`, the workers (index order of the `workers` dict, here
0-based), the offered tasks followed by the previously placed ones
(`tasks_to_be_scheduled + previously_placed_tasks`), the task graphs (nodes and edges,
including tasks outside the call) and the scheduler flags.

Both formulations are *space-time* models: one binary variable ("cell") per task, worker,
start slot `now + k·disc` and strategy.

Quirks kept on purpose (each is exercised by the generators, see docs/planner_tetri.md):
* the slots are `range(now, now + plan_ahead + 1, disc)` where `plan_ahead` defaults to the
  greatest **absolute** deadline of the tasks with variables (so the horizon is
  `now + max deadline`);
* a RUNNING task has no variables: its cell `(previous worker, now, previous strategy)` is the
  constant 1 and it occupies `[now, now + full runtime of that strategy)` (not the remaining
  time);
* a cell is a variable iff the worker can hold the strategy, the slot is not before the known
  release, and (with `enforce_deadlines`) `slot + runtime ≤ deadline`; every other cell is the
  constant 0;
* capacity rows exist per slot, worker and resource type of that worker, and charge a cell
  at every slot `s` with `start ≤ s < start + runtime`; Gurobi skips a row without variable
  terms, docplex keeps a row that only holds the constant of a RUNNING task;
* Gurobi: `start_time` is an integer variable in `[0, ∞)` tied to the chosen slot through
  `placed_at_time` / `not_placed_at_time` / `phase_shift` helper variables; a child's start is
  `≥ parent start + slowest runtime of the parent + 1` (also for unplaced tasks), for a
  RUNNING parent `≥ now + remaining + 1`; the all-parents-placed indicator compares the placed
  parents *that have variables* with the number of *all* parents in the graph;
* a SCHEDULED task in non-retracting mode is re-optimised with `Σ cells = 1`;
* the placement reward of slot `k` is `np.interp`: `2 − k·disc / D` with
  `D = (last slot − first slot)`, and `1` when there is a single slot.  The model here is
  integral: the objective (and the CPLEX reward row, whose continuous variable `reward` is
  represented by `D·reward`) is scaled by `D` (`Inst.den`);
* Gurobi rewards only sink tasks when `release_taskgraphs` is set; RUNNING tasks contribute a
  constant; CPLEX knows no dependencies at all and answers hopeless offered tasks
  (`deadline < now + fastest runtime`) with a cancellation before the model is built.

Core Lean only (the driver links this module).
-/
import ErdosVerif.Model.Mip
namespace ErdosVerif.Tetri
open ErdosVerif.Mip

/-- One `ExecutionStrategy`: runtime in µs and the entries of the requirement's resource
vector `(resource name, quantity)`. -/
structure Strat where
  runtime : Nat
  req : List (String × Nat)
  deriving Repr, Inhabited

inductive TState | virtual | released | scheduled | running | other
  deriving DecidableEq, Repr, Inhabited

structure TaskI where
  uniq : String            -- `task.unique_name` = name@graph
  name : String            -- `task.name`
  ts : Int                 -- `task.timestamp`
  graph : String           -- `task.task_graph`
  state : TState
  release : Int            -- `task.release_time` in µs (−1 when invalid)
  deadline : Int
  strats : List Strat      -- `task.available_execution_strategies`, in order
  prevW : Nat              -- RUNNING only: index of the worker of `current_placement`
  prevS : Nat              -- RUNNING only: index of `current_placement.execution_strategy`
  remaining : Nat          -- RUNNING only: `task.remaining_time`
  deriving Repr, Inhabited

structure WorkerI where
  name : String
  pool : String
  res : List (String × Nat)   -- resource entries (name, total quantity), insertion order
  deriving Repr, Inhabited

/-- A node of a task graph (also tasks without variables in this invocation). -/
structure Node where
  uniq : String
  name : String
  ts : Int
  graph : String
  deriving Repr, Inhabited

structure Inst where
  cplex : Bool                 -- false: TetriSchedGurobiScheduler, true: TetriSchedCPLEXScheduler
  now : Int
  disc : Nat                   -- `time_discretization` in µs
  planAheadOpt : Int           -- `_plan_ahead` in µs (−1 = invalid: greatest deadline)
  workers : List WorkerI
  tasks : List TaskI
  nOffered : Nat               -- the first `nOffered` tasks are `tasks_to_be_scheduled`
  nodes : List Node
  edges : List (String × String)   -- (parent unique name, child unique name)
  enforceDeadlines : Bool
  retract : Bool
  releaseTaskgraphs : Bool     -- Gurobi only (the CPLEX scheduler pins it to False)
  deriving Repr, Inhabited

inductive Var where
  | cell (t w k s : Nat)       -- task, worker, slot index, strategy
  | placedAt (t k : Nat)       -- Gurobi: `placed_at_time`
  | notPlacedAt (t k : Nat)    -- Gurobi: `not_placed_at_time`
  | phase (t k : Nat)          -- Gurobi: `phase_shift_at_time` (k ≥ 1)
  | start (t : Nat)            -- Gurobi: `start_time`
  | isPlaced (t : Nat)
  | allParents (t : Nat)       -- Gurobi: `all_parents_placed`
  | reward (t : Nat)           -- CPLEX: `reward` (scaled by `den`)
  deriving DecidableEq, Repr, Inhabited

/-! ### Accessors -/

def Inst.nT (I : Inst) : Nat := I.tasks.length
def Inst.nW (I : Inst) : Nat := I.workers.length
def Inst.task (I : Inst) (t : Nat) : TaskI := I.tasks.getD t default
def Inst.worker (I : Inst) (w : Nat) : WorkerI := I.workers.getD w default
def TaskI.nS (t : TaskI) : Nat := t.strats.length
def TaskI.strat (t : TaskI) (s : Nat) : Strat := t.strats.getD s default
def TaskI.running (t : TaskI) : Bool := t.state == .running
def Inst.running (I : Inst) (t : Nat) : Bool := (I.task t).running
def Inst.runtime (I : Inst) (t s : Nat) : Nat := ((I.task t).strat s).runtime

def nsum : List Nat → Nat
  | [] => 0
  | a :: as => a + nsum as

/-- `Resources.get_total_quantity(Resource(name, "any"))`: all entries of that name. -/
def qty (l : List (String × Nat)) (r : String) : Nat :=
  nsum ((l.filter (fun p => p.1 == r)).map (fun p => p.2))

/-- `Resources.get_unique_resource_types()`: names in first-occurrence order. -/
def WorkerI.types (w : WorkerI) : List String := (w.res.map (fun p => p.1)).eraseDups

/-- `deepcopy(worker).get_compatible_strategies`: `Resources.__gt__` on the cleared
worker, entry by entry of the requirement. -/
def compatible (w : WorkerI) (s : Strat) : Bool :=
  s.req.all (fun p => decide (p.2 ≤ qty w.res p.1))

/-- `strategy.resources.get_total_quantity(resource)`. -/
def Inst.req (I : Inst) (t s : Nat) (r : String) : Nat := qty ((I.task t).strat s).req r

def maxL : List Nat → Nat
  | [] => 0
  | a :: as => max a (maxL as)

def minL : List Nat → Nat
  | [] => 0
  | [a] => a
  | a :: as => min a (minL as)

/-- Runtime of `get_slowest_strategy()`. -/
def Inst.slowest (I : Inst) (t : Nat) : Nat := maxL ((I.task t).strats.map (fun s => s.runtime))
/-- Runtime of `get_fastest_strategy()`. -/
def Inst.fastest (I : Inst) (t : Nat) : Nat := minL ((I.task t).strats.map (fun s => s.runtime))

/-! ### Admission control (CPLEX) and the tasks that receive variables -/

/-- `deadline < sim_time + fastest runtime` under `enforce_deadlines`. -/
def Inst.hopeless (I : Inst) (t : Nat) : Bool :=
  I.enforceDeadlines && decide ((I.task t).deadline < I.now + (I.fastest t : Nat))

/-- CPLEX removes the hopeless offered tasks before any variable is created. -/
def Inst.active (I : Inst) (t : Nat) : Bool := !(I.cplex && decide (t < I.nOffered) && I.hopeless t)

/-- Indices of the tasks that receive `TaskOptimizerVariables`, in `tasks_to_variables` order. -/
def Inst.act (I : Inst) : List Nat := (List.range I.nT).filter I.active

/-- Offered tasks cancelled by the admission control, in offer order. -/
def Inst.cancelled (I : Inst) : List Nat := (List.range I.nOffered).filter (fun t => !I.active t)

/-- Offered tasks that reach the model, in offer order. -/
def Inst.offeredAct (I : Inst) : List Nat := (List.range I.nOffered).filter I.active

/-- No model is built: Gurobi when nothing is offered or every offered task is SCHEDULED,
CPLEX when no offered task survives the admission control. -/
def Inst.noModel (I : Inst) : Bool :=
  if I.cplex then I.offeredAct.isEmpty
  else I.nOffered == 0 || (List.range I.nOffered).all (fun t => (I.task t).state == .scheduled)

/-! ### Time grid -/

/-- `plan_ahead` as used by `_add_variables` and `_add_resource_constraints`. -/
def Inst.planAhead (I : Inst) : Int :=
  if I.planAheadOpt = -1 then
    I.act.foldl (fun acc t => if (I.task t).deadline > acc then (I.task t).deadline else acc) (-1)
  else I.planAheadOpt

/-- `len(range(now, now + plan_ahead + 1, disc))`. -/
def Inst.nSlots (I : Inst) : Nat :=
  if I.planAhead < 0 then 0 else I.planAhead.toNat / I.disc + 1

def Inst.slot (I : Inst) (k : Nat) : Int := I.now + (k * I.disc : Nat)

/-- `max(time_range) − min(time_range)`. -/
def Inst.span (I : Inst) : Nat := (I.nSlots - 1) * I.disc

/-- Common denominator of the placement rewards. -/
def Inst.den (I : Inst) : Nat := if I.span = 0 then 1 else I.span

/-- `den ·  np.interp(slot k, (first, last), (2, 1))`. -/
def Inst.rew (I : Inst) (k : Nat) : Int :=
  if I.span = 0 then 1 else 2 * (I.span : Int) - (k * I.disc : Nat)

/-! ### Graph helpers -/

def Inst.childrenOf (I : Inst) (u : String) : List String :=
  (I.edges.filter (fun e => e.1 == u)).map (fun e => e.2)
def Inst.parentsOf (I : Inst) (u : String) : List String :=
  (I.edges.filter (fun e => e.2 == u)).map (fun e => e.1)

/-- Indices of the tasks *with variables* that are parents of `c`. -/
def Inst.parentVars (I : Inst) (c : Nat) : List Nat :=
  I.act.filter (fun p => I.edges.contains ((I.task p).uniq, (I.task c).uniq))

/-- `len(set(task_graph.get_parents(task)))`. -/
def Inst.nParents (I : Inst) (c : Nat) : Nat := ((I.parentsOf (I.task c).uniq).eraseDups).length

/-- `TaskGraph.is_sink_task`. -/
def Inst.isSink (I : Inst) (t : TaskI) : Bool :=
  match I.childrenOf t.uniq with
  | [] => true
  | [c] => match I.nodes.find? (fun n => n.uniq == c) with
    | some n => n.name == t.name && n.ts == t.ts + 1
    | none => false
  | _ => false

/-! ### Cells -/

/-- Is the cell `(w, slot k, s)` of a task that is not RUNNING left to the optimiser? -/
def Inst.cellOk (I : Inst) (t w k s : Nat) : Bool :=
  compatible (I.worker w) ((I.task t).strat s) &&
  decide ((I.task t).release ≤ I.slot k) &&
  !(I.enforceDeadlines && decide (I.slot k + (I.runtime t s : Nat) > (I.task t).deadline))

/-- Does the cell carry a solver variable? -/
def Inst.hasVar (I : Inst) (t w k s : Nat) : Bool := !I.running t && I.cellOk t w k s

/-- The entry of `_space_time_strategy_matrix`: a variable or the constant 0 / 1. -/
def Inst.cellE (I : Inst) (t w k s : Nat) : LinExpr Var :=
  if I.running t then
    .ofConst (if w = (I.task t).prevW ∧ k = 0 ∧ s = (I.task t).prevS then 1 else 0)
  else if I.cellOk t w k s then .ofVar (.cell t w k s)
  else .ofConst 0

/-- All keys `(worker, slot, strategy)` of task `t` in dict order. -/
def Inst.keys (I : Inst) (t : Nat) : List (Nat × Nat × Nat) :=
  (List.range I.nW).flatMap (fun w => (List.range I.nSlots).flatMap (fun k =>
    (List.range (I.task t).nS).map (fun s => (w, k, s))))

/-- `quicksum(space_time_strategy_matrix.values())`. -/
def Inst.sumCells (I : Inst) (t : Nat) : LinExpr Var :=
  LinExpr.sumL ((I.keys t).map (fun q => I.cellE t q.1 q.2.1 q.2.2))

/-- The cells of slot `k`. -/
def Inst.sumCellsAt (I : Inst) (t k : Nat) : LinExpr Var :=
  LinExpr.sumL (((I.keys t).filter (fun q => q.2.1 == k)).map (fun q => I.cellE t q.1 q.2.1 q.2.2))

/-- The task must be placed: SCHEDULED in non-retracting mode. -/
def Inst.must (I : Inst) (t : Nat) : Bool := (I.task t).state == .scheduled && !I.retract

/-- `is_placed`: a variable, or the constant 1. -/
def Inst.isPlacedE (I : Inst) (t : Nat) : LinExpr Var :=
  if I.running t || I.must t then .ofConst 1 else .ofVar (.isPlaced t)

/-- `start_time` (Gurobi): a variable, or the constant `now` for a RUNNING task. -/
def Inst.startE (I : Inst) (t : Nat) : LinExpr Var :=
  if I.running t then .ofConst I.now else .ofVar (.start t)

def Inst.nonRunning (I : Inst) : List Nat := I.act.filter (fun t => !I.running t)

/-! ### Names (identical to the f-strings of the code; the strategy uuid is replaced by the
strategy's index, the harness does the same on the captured model) -/

def Inst.tname (I : Inst) (t : Nat) : String := (I.task t).uniq

def Inst.varName (I : Inst) : Var → String
  | .cell t w k s => s!"{I.tname t}_placed_at_Worker_{w + 1}_on_Time_{I.slot k}_with_strategy_{s}"
  | .placedAt t k => s!"{I.tname t}_placed_at_time_{I.slot k}"
  | .notPlacedAt t k => s!"{I.tname t}_not_placed_at_time_{I.slot k}"
  | .phase t k => s!"{I.tname t}_phase_shift_at_time_{I.slot k}"
  | .start t => s!"{I.tname t}_start_time"
  | .isPlaced t => s!"{I.tname t}_is_placed"
  | .allParents t => s!"{I.tname t}_all_parents_placed"
  | .reward t => s!"{I.tname t}_reward"

/-! ### Constraints shared by both formulations -/

/-- Placement rows of `TaskOptimizerVariables.__init__`. -/
def Inst.cPlace (I : Inst) (t : Nat) : List (Constr Var) :=
  if I.must t then
    [.lin s!"{I.tname t}_previously_scheduled_required_worker_placement" (I.sumCells t) .eq 1]
  else
    [.lin s!"{I.tname t}_consistent_worker_placement" (I.sumCells t) .le 1,
     .lin s!"{I.tname t}_is_placed_constraint"
       (LinExpr.sub (LinExpr.ofVar (.isPlaced t)) (I.sumCells t)) .eq 0]

/-- `get_partition_variable`: does a start at slot `k'` with strategy `s` occupy slot `k`? -/
def Inst.covers (I : Inst) (t k' s k : Nat) : Bool :=
  decide (k' ≤ k) && decide (k * I.disc < k' * I.disc + I.runtime t s)

/-- Demand of task `t` for resource `r` on worker `w` at slot `k`, as a linear expression
in its cells. -/
def Inst.demandE (I : Inst) (t w k : Nat) (r : String) : LinExpr Var :=
  LinExpr.sumL (((I.keys t).filter (fun q => q.1 == w && I.covers t q.2.1 q.2.2 k)).map
    (fun q => LinExpr.smul (I.req t q.2.2 r : Nat) (I.cellE t q.1 q.2.1 q.2.2)))

/-- Left-hand side of the capacity row of `(slot k, worker w, resource r)`. -/
def Inst.resE (I : Inst) (w k : Nat) (r : String) : LinExpr Var :=
  LinExpr.sumL (I.act.map (fun t => I.demandE t w k r))

/-- Some variable has a non-zero coefficient in the row (`expr.size() != 0` in Gurobi). -/
def Inst.resHasVar (I : Inst) (w k : Nat) (r : String) : Bool :=
  I.nonRunning.any (fun t => (I.keys t).any (fun q =>
    q.1 == w && I.covers t q.2.1 q.2.2 k && I.cellOk t q.1 q.2.1 q.2.2 && I.req t q.2.2 r != 0))

/-- Some RUNNING task contributes a constant term. -/
def Inst.resHasConst (I : Inst) (w k : Nat) (r : String) : Bool :=
  I.act.any (fun t => I.running t && (I.task t).prevW == w &&
    decide ((I.task t).prevS < (I.task t).nS) && decide (0 < I.nSlots) &&
    I.covers t 0 (I.task t).prevS k && I.req t (I.task t).prevS r != 0)

/-- Is the row emitted?  (`quantity == 0` and "no terms" are skipped; Gurobi's `size()`
counts variable terms only, docplex's list also holds the constants of RUNNING tasks.) -/
def Inst.resRow (I : Inst) (w k : Nat) (r : String) : Bool :=
  qty (I.worker w).res r != 0 &&
  (I.resHasVar w k r || (I.cplex && I.resHasConst w k r))

/-- `_add_resource_constraints`. -/
def Inst.cRes (I : Inst) : List (Constr Var) :=
  (List.range I.nSlots).flatMap (fun k => (List.range I.nW).flatMap (fun w =>
    ((I.worker w).types.filter (fun r => I.resRow w k r)).map (fun r =>
      .lin s!"{r}_utilization_Worker_{w + 1}_at_Time_{I.slot k}" (I.resE w k r) .le
        (qty (I.worker w).res r : Nat))))

/-- `Σ placement_reward[slot] · cell` over all keys of the task (scaled by `den`). -/
def Inst.rewardSum (I : Inst) (t : Nat) : LinExpr Var :=
  LinExpr.sumL ((I.keys t).map (fun q => LinExpr.smul (I.rew q.2.1) (I.cellE t q.1 q.2.1 q.2.2)))

/-! ### Gurobi formulation -/

/-- Time-slot helper rows of `TaskOptimizerVariables.__init__` (lines 202-274). -/
def Inst.cSlotsG (I : Inst) (t : Nat) : List (Constr Var) :=
  (List.range I.nSlots).flatMap (fun k =>
    [.lin s!"{I.tname t}_placed_at_time_{I.slot k}_constraint"
       (LinExpr.sub (LinExpr.ofVar (.placedAt t k)) (I.sumCellsAt t k)) .eq 0,
     .lin s!"{I.tname t}_not_placed_at_time_{I.slot k}_constraint"
       (LinExpr.add (LinExpr.ofVar (.notPlacedAt t k)) (LinExpr.ofVar (.placedAt t k))) .eq 1]) ++
  ((List.range I.nSlots).filter (fun k => k != 0)).flatMap (fun k =>
    [.and s!"{I.tname t}_phase_shift_at_time_{I.slot k}_constraint" (.phase t k)
       [.notPlacedAt t (k - 1), .placedAt t k],
     .ind s!"{I.tname t}_start_at_{I.slot k}_indicator" (.phase t k) 1
       (LinExpr.ofVar (.start t)) .eq (I.slot k)]) ++
  [.ind s!"{I.tname t}_start_at_{I.slot 0}_indicator" (.placedAt t 0) 1
     (LinExpr.ofVar (.start t)) .eq (I.slot 0)]

/-- Time a parent is assumed to take: remaining time of a RUNNING parent, the slowest
strategy otherwise. -/
def Inst.parentDur (I : Inst) (p : Nat) : Nat :=
  if I.running p then (I.task p).remaining else I.slowest p

def Inst.cStartAfter (I : Inst) (c p : Nat) : Constr Var :=
  .lin (if I.running p then
          s!"{I.tname c}_start_after_running_task_{I.tname p}_remaining_time_{(I.task p).remaining + 1}"
        else s!"{I.tname c}_start_after_{I.tname p}")
    (LinExpr.sub (I.startE c) (I.startE p)) .ge ((I.parentDur p : Nat) + 1)

/-- `Σ parent.is_placed`. -/
def Inst.parentExpr (I : Inst) (c : Nat) : LinExpr Var :=
  LinExpr.sumL ((I.parentVars c).map I.isPlacedE)

/-- `_add_task_dependency_constraints` for one task that is not RUNNING. -/
def Inst.cDeps (I : Inst) (c : Nat) : List (Constr Var) :=
  if (I.parentVars c).isEmpty then [] else
    (I.parentVars c).map (I.cStartAfter c) ++
    [ .ind s!"{I.tname c}_parents_placed_False" (.allParents c) 0 (I.parentExpr c) .le ((I.nParents c : Int) - 1),
      .ind s!"{I.tname c}_parents_placed_True" (.allParents c) 1 (I.parentExpr c) .eq (I.nParents c : Int),
      .ind s!"{I.tname c}_placement_False" (.allParents c) 0 (I.isPlacedE c) .eq 0 ]

def Inst.constrsG (I : Inst) : List (Constr Var) :=
  I.nonRunning.flatMap (fun t => I.cSlotsG t ++ I.cPlace t) ++
  I.nonRunning.flatMap I.cDeps ++
  I.cRes

def binDecl (v : Var) : VarDecl Var := ⟨v, .bin, some 0, some 1⟩

def Inst.cellVars (I : Inst) (t : Nat) : List (VarDecl Var) :=
  ((I.keys t).filter (fun q => I.hasVar t q.1 q.2.1 q.2.2)).map (fun q => binDecl (.cell t q.1 q.2.1 q.2.2))

def Inst.placedVar (I : Inst) (t : Nat) : List (VarDecl Var) :=
  if I.must t then [] else [binDecl (.isPlaced t)]

def Inst.taskVarsG (I : Inst) (t : Nat) : List (VarDecl Var) :=
  I.cellVars t ++
  (List.range I.nSlots).flatMap (fun k => [binDecl (.placedAt t k), binDecl (.notPlacedAt t k)]) ++
  [⟨.start t, .int, some 0, none⟩] ++
  ((List.range I.nSlots).filter (fun k => k != 0)).map (fun k => binDecl (.phase t k)) ++
  I.placedVar t

def Inst.varsG (I : Inst) : List (VarDecl Var) :=
  I.nonRunning.flatMap I.taskVarsG ++
  (I.nonRunning.filter (fun c => !(I.parentVars c).isEmpty)).map (fun c => binDecl (.allParents c))

/-- Does the task contribute to the objective (`_add_objective`)? -/
def Inst.rewarded (I : Inst) (t : Nat) : Bool :=
  I.cplex || !(I.releaseTaskgraphs && !I.isSink (I.task t))

/-- Gurobi objective (scaled by `den`): reward-weighted sum of all cells of the rewarded tasks. -/
def Inst.objG (I : Inst) : LinExpr Var :=
  LinExpr.sumL ((I.act.filter I.rewarded).map I.rewardSum)

def genG (I : Inst) : Model Var := ⟨I.varsG, I.constrsG, QuadExpr.ofLin I.objG⟩

/-! ### CPLEX formulation -/

/-- `reward == Σ task_reward · placement_reward · cell` (scaled by `den`). -/
def Inst.cRewardC (I : Inst) (t : Nat) : Constr Var :=
  .lin s!"{I.tname t}_reward_constraint"
    (LinExpr.sub (LinExpr.ofVar (.reward t)) (I.rewardSum t)) .eq 0

def Inst.constrsC (I : Inst) : List (Constr Var) :=
  I.nonRunning.flatMap (fun t => I.cPlace t ++ [I.cRewardC t]) ++ I.cRes

def Inst.taskVarsC (I : Inst) (t : Nat) : List (VarDecl Var) :=
  I.cellVars t ++ I.placedVar t ++ [⟨.reward t, .int, some 0, some (4 * (I.den : Int))⟩]

def Inst.varsC (I : Inst) : List (VarDecl Var) := I.nonRunning.flatMap I.taskVarsC

/-- `task_variable.reward`: the variable, or the constant 2 of a RUNNING task. -/
def Inst.rewardE (I : Inst) (t : Nat) : LinExpr Var :=
  if I.running t then .ofConst (2 * (I.den : Int)) else .ofVar (.reward t)

def Inst.objC (I : Inst) : LinExpr Var := LinExpr.sumL (I.act.map I.rewardE)

def genC (I : Inst) : Model Var := ⟨I.varsC, I.constrsC, QuadExpr.ofLin I.objC⟩

/-- The model of the instance's back-end. -/
def gen (I : Inst) : Model Var := if I.cplex then genC I else genG I

/-- Variables standing for `den ·` a continuous solver variable. -/
def Inst.scaledVars (I : Inst) : List Var := if I.cplex then I.nonRunning.map Var.reward else []

/-- Names of the rows rendered with denominator `den`. -/
def Inst.scaledRow (I : Inst) (n : String) : Bool :=
  I.cplex && I.nonRunning.any (fun t => n == s!"{I.tname t}_reward_constraint")

/-! ### Decoding (`get_placements` + the collection loops of `schedule`) -/

inductive Outcome where
  | placed (w s : Nat) (time : Int)
  | unplaced
  | cancel
  deriving Repr, DecidableEq, Inhabited

structure Decision where
  task : Nat
  out : Outcome
  deriving Repr, DecidableEq, Inhabited

/-- First key in dict order whose variable is 1 (`variable.X == 1`, resp. `round(value) == 1`). -/
def Inst.chosen (I : Inst) (σ : Var → Int) (t : Nat) : Option (Nat × Nat × Nat) :=
  (I.keys t).find? (fun q => I.hasVar t q.1 q.2.1 q.2.2 && σ (.cell t q.1 q.2.1 q.2.2) == 1)

def Inst.decodeTask (I : Inst) (σ : Var → Int) (t : Nat) : Decision :=
  match I.chosen σ t with
  | some (w, k, s) => ⟨t, .placed w s (I.slot k)⟩
  | none => ⟨t, .unplaced⟩

/-- Decisions when a solution is available: cancellations of the admission control (CPLEX)
first, then one decision per task with variables that is not RUNNING. -/
def decode (I : Inst) (σ : Var → Int) : List Decision :=
  I.cancelled.map (fun t => ⟨t, .cancel⟩) ++ I.nonRunning.map (I.decodeTask σ)

/-- Decisions when the solver found nothing: every offered task that reached the model is
returned unplaced. -/
def decodeFail (I : Inst) : List Decision :=
  I.cancelled.map (fun t => ⟨t, .cancel⟩) ++ I.offeredAct.map (fun t => ⟨t, .unplaced⟩)

/-- Decisions when no model is built. -/
def decodeNoModel (I : Inst) : List Decision := I.cancelled.map (fun t => ⟨t, .cancel⟩)

/-! ### Well-formedness (hypotheses of the theorems; evaluated by the driver on every
instance the harness extracts from the real call) -/

/-- A RUNNING task's previous placement names a worker of this invocation and one of the
task's own strategies, which that worker can hold; it has no parent with variables. -/
def Inst.wfRunning (I : Inst) : Bool :=
  I.act.all (fun t => !I.running t ||
    (decide ((I.task t).prevW < I.nW) && decide ((I.task t).prevS < (I.task t).nS) &&
     compatible (I.worker (I.task t).prevW) ((I.task t).strat (I.task t).prevS) &&
     (I.parentVars t).isEmpty))

/-- No more parents with variables than parents in the graph. -/
def Inst.wfParents (I : Inst) : Bool :=
  I.act.all (fun c => decide ((I.parentVars c).length ≤ I.nParents c))

/-- `disc ≥ 1`, `now ≥ 0`, at least one slot when a model is built, every task has a strategy,
offered ⊆ tasks. -/
def Inst.wfGrid (I : Inst) : Bool :=
  decide (1 ≤ I.disc) && decide (0 ≤ I.now) && (I.noModel || decide (1 ≤ I.nSlots)) && decide (I.nOffered ≤ I.nT) &&
  (List.range I.nT).all (fun t => decide (1 ≤ (I.task t).nS))

/-- Demand of the RUNNING tasks alone at slot `k`. -/
def Inst.runningLoad (I : Inst) (w k : Nat) (r : String) : Nat :=
  nsum ((I.act.filter (fun t => I.running t && (I.task t).prevW == w &&
    I.covers t 0 (I.task t).prevS k)).map (fun t => I.req t (I.task t).prevS r))

/-- The RUNNING tasks alone fit (the live cluster is not over-subscribed). -/
def Inst.wfRunningFit (I : Inst) : Bool :=
  (List.range I.nSlots).all (fun k => (List.range I.nW).all (fun w => (I.worker w).types.all (fun r =>
    decide (I.runningLoad w k r ≤ qty (I.worker w).res r))))

def Inst.wf (I : Inst) : Bool := I.wfRunning && I.wfParents && I.wfGrid && I.wfRunningFit

end ErdosVerif.Tetri
