/-
M4/M5 — executable model of `workload/resource.py`, `workload/resources.py`
and `workers/workers.py` (Worker, WorkerPool).  Core Lean only.

Python behaviours reproduced on purpose (each is exercised by the ledger suite):
* dict identity of a `Resource` key is exact `(name, id)`; `==` is the
  non-transitive "an `any` id matches everything of that name";
* `allocate` scans the vector in insertion order, records `(key, 0)` when asked
  for 0 of a matching first entry;
* `allocate_multiple` checks every request key against the *initial*
  availability and then allocates key by key; the second phase can raise after
  the first key has been taken, in which case the partial allocation is undone;
* `_current_allocations` is a `defaultdict(list)`: `get_allocated_resources`
  inserts an empty entry, after which `deallocate` no longer raises;
* `__copy__` replays every recorded allocation onto fresh totals with `allocate`;
  `__deepcopy__` drops them;
* `allocate` / `allocate_multiple` always leave an entry (possibly empty) for
  the computation once their availability check has passed.
An exception is an outcome, not a rollback: every operation returns the state
reached at the raise point together with the outcome.
-/
namespace ErdosVerif.Model

/-- Insertion-ordered association list = Python dict with observable order. -/
abbrev AList (κ υ : Type) := List (κ × υ)

namespace AList
variable {κ υ : Type} [DecidableEq κ]

def get? : AList κ υ → κ → Option υ
  | [], _ => none
  | (k, v) :: r, x => if k = x then some v else get? r x

def has (l : AList κ υ) (x : κ) : Bool := (get? l x).isSome

/-- `d[k] = v`: overwrite in place or append. -/
def set : AList κ υ → κ → υ → AList κ υ
  | [], x, v => [(x, v)]
  | (k, w) :: r, x, v => if k = x then (k, v) :: r else (k, w) :: set r x v

/-- `del d[k]` (no-op when absent). -/
def erase : AList κ υ → κ → AList κ υ
  | [], _ => []
  | (k, w) :: r, x => if k = x then r else (k, w) :: erase r x

def keys (l : AList κ υ) : List κ := l.map (·.1)

@[simp] theorem keys_nil : keys ([] : AList κ υ) = [] := rfl
@[simp] theorem keys_cons (a : κ) (b : υ) (t : AList κ υ) : keys ((a, b) :: t) = a :: keys t := rfl
end AList

/-- Python exception classes that matter here. -/
inductive PyErr
  | valueError | runtimeError | keyError | attributeError
  deriving DecidableEq, Repr

def PyErr.name : PyErr → String
  | .valueError => "ValueError"
  | .runtimeError => "RuntimeError"
  | .keyError => "KeyError"
  | .attributeError => "AttributeError"

inductive Outcome
  | ok
  | raised (e : PyErr)
  deriving DecidableEq, Repr

/-- `Resource`: `id = none` is Python's `"any"`. -/
structure Res where
  name : String
  id : Option Nat
  deriving DecidableEq, Repr

/-- `Resource.__eq__`. -/
def Res.matches (a b : Res) : Bool :=
  a.name == b.name && (a.id.isNone || b.id.isNone || a.id == b.id)

/-- A resource vector: keys are unique by exact `(name, id)`. -/
abbrev Vec := AList Res Nat

/-- What a ledger entry is charged to: a task, a profile, or the placeholder
task a worker creates for a batch (`gen` = creation counter of the worker). -/
inductive Comp
  | task (n : Nat)
  | profile (n : Nat)
  | batch (gen : Nat)
  deriving DecidableEq, Repr

structure Resources where
  avail : Vec                        -- `_resource_vector`
  total : Vec                        -- `__total_resources`
  allocs : AList Comp (List (Res × Nat))  -- `_current_allocations`
  deriving DecidableEq, Repr

/-- Σ of the quantities of the entries that `==` the key. -/
def sumMatching (k : Res) : Vec → Nat
  | [] => 0
  | (r, q) :: rest => (if r.matches k then q else 0) + sumMatching k rest

namespace Resources

def ofVec (v : Vec) : Resources := ⟨v, v, []⟩

/-- `get_available_quantity`. -/
def availQ (r : Resources) (k : Res) : Nat := sumMatching k r.avail
/-- `get_total_quantity`. -/
def totalQ (r : Resources) (k : Res) : Nat := sumMatching k r.total
/-- `get_allocated_quantity` (a Python int: may in principle be negative). -/
def allocatedQ (r : Resources) (k : Res) : Int := (r.totalQ k : Int) - (r.availQ k : Int)

/-- `add_resource`. -/
def addResource (r : Resources) (k : Res) (q : Nat) : Resources :=
  { r with
    avail := r.avail.set k ((r.avail.get? k).getD 0 + q)
    total := r.total.set k ((r.total.get? k).getD 0 + q) }

/-- The loop of `allocate`: returns the new vector and the recorded pairs. -/
def scan (k : Res) : Vec → Nat → Vec × List (Res × Nat)
  | [], _ => ([], [])
  | (r, q) :: rest, rem =>
    if r.matches k then
      if q ≥ rem then ((r, q - rem) :: rest, [(r, rem)])
      else if q > 0 then ((r, 0) :: (scan k rest (rem - q)).1, (r, q) :: (scan k rest (rem - q)).2)
      else ((r, q) :: (scan k rest (rem - q)).1, (scan k rest (rem - q)).2)
    else if rem = 0 then ((r, q) :: rest, [])
    else ((r, q) :: (scan k rest rem).1, (scan k rest rem).2)

/-- `allocs[c]` is touched (created empty if absent), then every recorded pair is appended. -/
def record (a : AList Comp (List (Res × Nat))) (c : Comp) (rec : List (Res × Nat)) :
    AList Comp (List (Res × Nat)) :=
  a.set c ((a.get? c).getD [] ++ rec)

/-- `allocate`. -/
def allocate (r : Resources) (k : Res) (c : Comp) (q : Nat) : Resources × Outcome :=
  if r.availQ k < q then (r, .raised .valueError)
  else
    let t := scan k r.avail q
    ({ r with avail := t.1, allocs := record r.allocs c t.2 }, .ok)

/-- Second phase of `allocate_multiple`. -/
def allocateEach (r : Resources) (c : Comp) : Vec → Resources × Outcome
  | [] => (r, .ok)
  | (k, q) :: rest =>
    match r.allocate k c q with
    | (r', .ok) => allocateEach r' c rest
    | (r', e) => (r', e)

/-- First phase of `allocate_multiple`. -/
def checkAll (r : Resources) : Vec → Bool
  | [] => true
  | (k, q) :: rest => decide (q ≤ r.availQ k) && checkAll r rest

/-- `vector[key] += q` for each recorded pair. -/
def giveBack (v : Vec) : List (Res × Nat) → Vec
  | [] => v
  | (k, q) :: rest => giveBack (v.set k ((v.get? k).getD 0 + q)) rest

/-- `allocate_multiple`: check every key against the current availability, then
allocate key by key; if the second phase raises, the partial allocation of this
call is undone (and the entry removed again if the computation was unknown). -/
def allocateMultiple (r : Resources) (req : Vec) (c : Comp) : Resources × Outcome :=
  if checkAll r req then
    let known := r.allocs.has c
    let prevLen := ((r.allocs.get? c).getD []).length
    match allocateEach { r with allocs := record r.allocs c [] } c req with
    | (r', .ok) => (r', .ok)
    | (r', e) =>
      let l := (r'.allocs.get? c).getD []
      ({ r' with avail := giveBack r'.avail (l.drop prevLen),
                 allocs := if known then r'.allocs.set c (l.take prevLen) else r'.allocs.erase c }, e)
  else (r, .raised .valueError)

/-- `deallocate`. -/
def deallocate (r : Resources) (c : Comp) : Resources × Outcome :=
  match r.allocs.get? c with
  | none => (r, .raised .valueError)
  | some l => ({ r with avail := giveBack r.avail l, allocs := r.allocs.erase c }, .ok)

/-- `get_allocated_resources` (a defaultdict read: inserts `[]`). -/
def getAllocated (r : Resources) (c : Comp) : Resources × List (Res × Nat) :=
  match r.allocs.get? c with
  | some l => (r, l)
  | none => ({ r with allocs := r.allocs.set c [] }, [])

/-- `__gt__`: can `req` be allocated from `r`. -/
def fits (r : Resources) (req : Vec) : Bool := checkAll r req

/-- `empty()`. -/
def isEmpty (r : Resources) : Bool := r.avail.all (fun p => p.2 == 0)

/-- `__deepcopy__`. -/
def deepcopy (r : Resources) : Resources := ofVec r.total

/-- Replay of one computation's recorded pairs in `__copy__`. -/
def replayPairs (inst : Resources) (c : Comp) : List (Res × Nat) → Resources × Outcome
  | [] => (inst, .ok)
  | (k, q) :: rest =>
    match inst.allocate k c q with
    | (i', .ok) => replayPairs i' c rest
    | (i', e) => (i', e)

def replayAll (inst : Resources) : AList Comp (List (Res × Nat)) → Resources × Outcome
  | [] => (inst, .ok)
  | (c, l) :: rest =>
    match replayPairs { inst with allocs := record inst.allocs c [] } c l with
    | (i', .ok) => replayAll i' rest
    | (i', e) => (i', e)

/-- `__copy__` (can raise for vectors with `any`-id keys). -/
def copy (r : Resources) : Resources × Outcome := replayAll (ofVec r.total) r.allocs

/-- `__add__` (used by `WorkerPool.resources` / utilisation). -/
def mergeVec (a : Vec) : Vec → Vec
  | [] => a
  | (k, q) :: rest => mergeVec (a.set k ((a.get? k).getD 0 + q)) rest

def mergeAllocs (a : AList Comp (List (Res × Nat))) :
    AList Comp (List (Res × Nat)) → AList Comp (List (Res × Nat))
  | [] => a
  | (c, l) :: rest => mergeAllocs (a.set c ((a.get? c).getD [] ++ l)) rest

def add (a b : Resources) : Resources :=
  ⟨mergeVec (mergeVec [] a.avail) b.avail, mergeVec (mergeVec [] a.total) b.total,
   mergeAllocs (mergeAllocs [] a.allocs) b.allocs⟩

end Resources

/-- An execution strategy object. `sid` is the object identity; `isBatch` marks
a `BatchStrategy` (whose dict identity is its own id). -/
structure Strategy where
  sid : Nat
  isBatch : Bool
  batchSize : Int
  runtime : Int
  req : Vec
  deriving DecidableEq, Repr

structure Worker where
  res : Resources
  placed : AList Nat Strategy          -- `_placed_tasks`
  batches : AList Nat (List Nat)       -- `_placed_batches`: batch sid ↦ member set
  batchTask : AList Nat Comp           -- `_batch_tasks_for_strategy`
  availProf : AList Nat Strategy       -- `_available_profiles`
  pendProf : AList Nat Strategy        -- `_pending_profiles`
  fresh : Nat                          -- number of placeholder tasks created so far
  deriving DecidableEq, Repr

namespace Worker

def ofVec (v : Vec) : Worker := ⟨Resources.ofVec v, [], [], [], [], [], 0⟩

/-- `can_accomodate_strategy`. -/
def canAccommodate (w : Worker) (s : Strategy) : Bool :=
  w.res.fits s.req || (s.isBatch && w.batches.has s.sid)

/-- `load_profile`. -/
def loadProfile (w : Worker) (p : Nat) (s : Strategy) : Worker × Outcome :=
  match w.res.allocateMultiple s.req (.profile p) with
  | (r, .ok) => ({ w with res := r, pendProf := w.pendProf.set p s }, .ok)
  | (r, e) => ({ w with res := r }, e)

/-- `evict_profile`. -/
def evictProfile (w : Worker) (p : Nat) : Worker × Outcome :=
  if !w.availProf.has p && !w.pendProf.has p then (w, .raised .valueError)
  else
    match w.res.deallocate (.profile p) with
    | (r, .ok) =>
      if w.availProf.has p then ({ w with res := r, availProf := w.availProf.erase p }, .ok)
      else ({ w with res := r, pendProf := w.pendProf.erase p }, .ok)
    | (r, e) => ({ w with res := r }, e)

/-- `place_task`. -/
def placeTask (w : Worker) (t : Nat) (s : Strategy) : Worker × Outcome :=
  if s.isBatch then
    match w.batches.get? s.sid with
    | none =>
      if s.batchSize < 1 then (w, .raised .valueError)
      else
        -- the placeholder task created for the batch (`fresh` only advances when it is kept)
        match w.res.allocateMultiple s.req (.batch w.fresh) with
        | (r, .ok) =>
          ({ w with res := r, batches := w.batches.set s.sid [t], placed := w.placed.set t s,
                    batchTask := w.batchTask.set s.sid (.batch w.fresh), fresh := w.fresh + 1 }, .ok)
        | (r, e) => ({ w with res := r }, e)
    | some members =>
      if (members.length : Int) + 1 > s.batchSize then (w, .raised .runtimeError)
      else
        let members' := if members.contains t then members else members ++ [t]
        ({ w with batches := w.batches.set s.sid members', placed := w.placed.set t s }, .ok)
  else
    match w.res.allocateMultiple s.req (.task t) with
    | (r, .ok) => ({ w with res := r, placed := w.placed.set t s }, .ok)
    | (r, e) => ({ w with res := r }, e)

/-- `remove_task` (workers.py:178-242). -/
def removeTask (w : Worker) (t : Nat) : Worker × Outcome :=
  match w.placed.get? t with
  | none => (w, .raised .valueError)
  | some s =>
    if s.isBatch then
      match w.batches.get? s.sid with
      | none => (w, .raised .runtimeError)
      | some members =>
        if !members.contains t then (w, .raised .runtimeError)
        else
          let members' := members.erase t
          -- the set object is mutated in place: visible through the dict
          let w := { w with batches := w.batches.set s.sid members' }
          if members'.length = 0 then
            match w.batchTask.get? s.sid with
            | none => (w, .raised .runtimeError)
            | some bt =>
              match w.res.deallocate bt with
              | (r, .ok) =>
                ({ w with res := r, batches := w.batches.erase s.sid,
                          batchTask := w.batchTask.erase s.sid, placed := w.placed.erase t }, .ok)
              | (r, e) => ({ w with res := r }, e)
          else
            ({ w with placed := w.placed.erase t }, .ok)
    else
      match w.res.deallocate (.task t) with
      | (r, .ok) => ({ w with res := r, placed := w.placed.erase t }, .ok)
      | (r, e) => ({ w with res := r }, e)

/-- Profile part of `step` (task stepping belongs to the task model). -/
def stepProfiles (w : Worker) (dt : Int) : Worker :=
  let done := w.pendProf.filter (fun p => p.2.runtime - dt ≤ 0)
  let avail := done.foldl (fun a p => a.set p.1 { p.2 with runtime := 0 }) w.availProf
  let pend := (w.pendProf.filter (fun p => !(p.2.runtime - dt ≤ 0))).map
    (fun p => (p.1, { p.2 with runtime := p.2.runtime - dt }))
  { w with availProf := avail, pendProf := pend }

/-- `is_full`. -/
def isFull (w : Worker) : Bool := w.res.isEmpty

/-- `__copy__`. -/
def copy (w : Worker) : Worker × Outcome :=
  match w.res.copy with
  | (r, o) => (⟨r, w.placed, w.batches, w.batchTask, w.availProf, w.pendProf, w.fresh⟩, o)

/-- `__deepcopy__`. -/
def deepcopy (w : Worker) : Worker := ⟨w.res.deepcopy, [], [], [], [], [], w.fresh⟩

/-- `Worker.get_allocated_resources`. -/
def getAllocated (w : Worker) (t : Nat) : Worker × Except PyErr (List (Res × Nat)) :=
  match w.placed.get? t with
  | none => (w, .error .runtimeError)
  | some s =>
    if s.isBatch then
      match w.batchTask.get? s.sid with
      | none => (w, .error .runtimeError)
      | some bt => let (r, l) := w.res.getAllocated bt; ({ w with res := r }, .ok l)
    else let (r, l) := w.res.getAllocated (.task t); ({ w with res := r }, .ok l)

end Worker

/-- `WorkerPool` (no second-level scheduler: `scheduler=None` everywhere in main.py). -/
structure Pool where
  workers : List Worker
  placed : AList Nat Nat             -- task ↦ worker index
  deriving DecidableEq, Repr

namespace Pool

def setWorker (p : Pool) (i : Nat) (w : Worker) : Pool := { p with workers := p.workers.set i w }

/-- First index whose worker satisfies `f`. -/
def findIdx (ws : List Worker) (f : Worker → Bool) : Option Nat :=
  go ws 0
where
  go : List Worker → Nat → Option Nat
    | [], _ => none
    | w :: r, i => if f w then some i else go r (i + 1)

/-- `WorkerPool.place_task(task, execution_strategy, worker_id)`;
`strats` = `task.available_execution_strategies` (used when no strategy is given).
Returns the Python return value (`true`/`false`) on success. -/
def placeTask (p : Pool) (t : Nat) (strats : List Strategy) (s? : Option Strategy) (wid? : Option Nat) :
    Pool × Except PyErr Bool :=
  let choice : Except PyErr (Option (Nat × Option Strategy)) :=
    match wid? with
    | some i =>
      match p.workers[i]? with
      | none => .error .valueError
      | some w =>
        match s? with
        | some s => if !w.canAccommodate s then .ok none else .ok (some (i, some s))
        | none => .ok (some (i, strats.find? w.canAccommodate))
    | none =>
      match s? with
      | some s => .ok ((findIdx p.workers (·.canAccommodate s)).map (·, some s))
      | none =>
        .ok (pickAny p.workers strats 0)
  match choice with
  | .error e => (p, .error e)
  | .ok none => (p, .ok false)
  | .ok (some (i, none)) =>
    -- `place_task(task, None)` on the worker: `None.resources` → AttributeError in Python.
    (p, .error .attributeError)
  | .ok (some (i, some s)) =>
    match p.workers[i]? with
    | none => (p, .error .keyError)
    | some w =>
      match w.placeTask t s with
      | (w', .ok) => ({ (p.setWorker i w') with placed := p.placed.set t i }, .ok true)
      | (w', .raised e) => (p.setWorker i w', .error e)
where
  pickAny : List Worker → List Strategy → Nat → Option (Nat × Option Strategy)
    | [], _, _ => none
    | w :: r, strats, i =>
      match strats.find? w.canAccommodate with
      | some s => some (i, some s)
      | none => pickAny r strats (i + 1)

/-- `WorkerPool.remove_task`. -/
def removeTask (p : Pool) (t : Nat) : Pool × Outcome :=
  match p.placed.get? t with
  | none => (p, .raised .valueError)
  | some i =>
    match p.workers[i]? with
    | none => (p, .raised .keyError)
    | some w =>
      match w.removeTask t with
      | (w', .ok) => ({ (p.setWorker i w') with placed := p.placed.erase t }, .ok)
      | (w', e) => (p.setWorker i w', e)

/-- `WorkerPool.get_allocated_resources(task)` on worker `wi`: the worker-level read (which may
insert an empty ledger entry) and its result. -/
def onWorker' (p : Pool) (wi : Nat) (t : Nat) : Pool × Option (Except PyErr (List (Res × Nat))) :=
  match p.workers[wi]? with
  | none => (p, none)
  | some w => let (w', r) := w.getAllocated t; (p.setWorker wi w', some r)

def canAccommodate (p : Pool) (s : Strategy) : Bool := p.workers.any (·.canAccommodate s)
def isFull (p : Pool) : Bool := p.workers.all (·.isFull)

/-- `load_profile` on one worker or on all (stops at the first raise). -/
def loadProfile (p : Pool) (prof : Nat) (s : Strategy) (wid? : Option Nat) : Pool × Outcome :=
  match wid? with
  | some i =>
    match p.workers[i]? with
    | none => (p, .raised .keyError)
    | some w => let (w', o) := w.loadProfile prof s; (p.setWorker i w', o)
  | none => go p prof s p.workers.length 0
where
  go (p : Pool) (prof : Nat) (s : Strategy) : Nat → Nat → Pool × Outcome
    | 0, _ => (p, .ok)
    | n + 1, i =>
      match p.workers[i]? with
      | none => (p, .ok)
      | some w =>
        match w.loadProfile prof s with
        | (w', .ok) => go (p.setWorker i w') prof s n (i + 1)
        | (w', e) => (p.setWorker i w', e)

def evictProfile (p : Pool) (prof : Nat) (wid? : Option Nat) : Pool × Outcome :=
  match wid? with
  | some i =>
    match p.workers[i]? with
    | none => (p, .raised .keyError)
    | some w => let (w', o) := w.evictProfile prof; (p.setWorker i w', o)
  | none => go p prof p.workers.length 0
where
  go (p : Pool) (prof : Nat) : Nat → Nat → Pool × Outcome
    | 0, _ => (p, .ok)
    | n + 1, i =>
      match p.workers[i]? with
      | none => (p, .ok)
      | some w =>
        match w.evictProfile prof with
        | (w', .ok) => go (p.setWorker i w') prof n (i + 1)
        | (w', e) => (p.setWorker i w', e)

def stepProfiles (p : Pool) (dt : Int) : Pool := { p with workers := p.workers.map (·.stepProfiles dt) }

/-- `__copy__` (first raise wins; remaining workers are still copied in Python
only if no raise happened, so on a raise the result is not used). -/
def copy (p : Pool) : Pool × Outcome :=
  let cs := p.workers.map Worker.copy
  match cs.find? (fun c => c.2 != .ok) with
  | some c => (⟨cs.map (·.1), p.placed⟩, c.2)
  | none => (⟨cs.map (·.1), p.placed⟩, .ok)

/-- `__deepcopy__`. -/
def deepcopy (p : Pool) : Pool := ⟨p.workers.map Worker.deepcopy, []⟩

/-- `WorkerPool.resources`. -/
def resources (p : Pool) : Resources :=
  p.workers.foldl (fun acc w => acc.add w.res) ⟨[], [], []⟩

end Pool

/-! ### Operation histories (what the ledger suite and the C04 theorems quantify over) -/

inductive Op
  | addResource (w : Nat) (k : Res) (q : Nat)
  | allocate (w : Nat) (k : Res) (c : Comp) (q : Nat)
  | allocateMultiple (w : Nat) (req : Vec) (c : Comp)
  | deallocate (w : Nat) (c : Comp)
  | getAllocatedRes (w : Nat) (c : Comp)
  | wPlace (w : Nat) (t : Nat) (s : Strategy)
  | wRemove (w : Nat) (t : Nat)
  | wLoad (w : Nat) (p : Nat) (s : Strategy)
  | wEvict (w : Nat) (p : Nat)
  | wGetAllocated (w : Nat) (t : Nat)
  | step (dt : Int)
  | pPlace (t : Nat) (strats : List Strategy) (s? : Option Strategy) (wid? : Option Nat)
  | pRemove (t : Nat)
  | pLoad (p : Nat) (s : Strategy) (wid? : Option Nat)
  | pEvict (p : Nat) (wid? : Option Nat)
  deriving Repr

/-- Lift a worker-level operation to the pool (index out of range = KeyError). -/
def Pool.onWorker (p : Pool) (i : Nat) (f : Worker → Worker × Outcome) : Pool × Outcome :=
  match p.workers[i]? with
  | none => (p, .raised .keyError)
  | some w => let (w', o) := f w; (p.setWorker i w', o)

def onRes (f : Resources → Resources × Outcome) (w : Worker) : Worker × Outcome :=
  let (r, o) := f w.res; ({ w with res := r }, o)

def exceptOutcome {α} : Except PyErr α → Outcome
  | .ok _ => .ok
  | .error e => .raised e

/-- One operation on a pool. -/
def Pool.apply (p : Pool) : Op → Pool × Outcome
  | .addResource w k q => p.onWorker w (onRes fun r => (r.addResource k q, .ok))
  | .allocate w k c q => p.onWorker w (onRes fun r => r.allocate k c q)
  | .allocateMultiple w req c => p.onWorker w (onRes fun r => r.allocateMultiple req c)
  | .deallocate w c => p.onWorker w (onRes fun r => r.deallocate c)
  | .getAllocatedRes w c => p.onWorker w (onRes fun r => ((r.getAllocated c).1, .ok))
  | .wPlace w t s => p.onWorker w (·.placeTask t s)
  | .wRemove w t => p.onWorker w (·.removeTask t)
  | .wLoad w pr s => p.onWorker w (·.loadProfile pr s)
  | .wEvict w pr => p.onWorker w (·.evictProfile pr)
  | .wGetAllocated w t => p.onWorker w (fun x => let (x', r) := x.getAllocated t; (x', exceptOutcome r))
  | .step dt => (p.stepProfiles dt, .ok)
  | .pPlace t strats s? wid? => let (p', r) := p.placeTask t strats s? wid?; (p', exceptOutcome r)
  | .pRemove t => p.removeTask t
  | .pLoad pr s wid? => p.loadProfile pr s wid?
  | .pEvict pr wid? => p.evictProfile pr wid?

/-- The state after a whole history (exceptions do not stop the caller). -/
def Pool.run (p : Pool) (ops : List Op) : Pool := ops.foldl (fun p o => (p.apply o).1) p

end ErdosVerif.Model
