import ErdosVerif.Model.Sim
/-
C09 — the hidden input of `Simulator.__log_utilization` made explicit.

The source iterates `set(map(lambda v: v[0].name, worker_pool.resources.resources))`:
the iteration order of a Python `set` of `str` depends on the per-process string hash
(`PYTHONHASHSEED`).  `Sim.logUtilization` models the canonicalised (sorted) order, which
is what both sides of the end-to-end correspondence compare.  Here the order is an
explicit parameter `ord`: `ord i names` is the order in which the names of pool `i`
come out of the set (any function; the theorems in `Props/C09.lean` quantify over all
`ord` that return a permutation of their argument).

Core Lean only.
-/
namespace ErdosVerif.Model
namespace SimOrder
open Sim

/-- An iteration order for the name set of every pool. -/
abbrev Order := Nat → List String → List String

/-- The canonical order: what `for name in sorted(set(...))` gives. -/
def sortedOrder : Order := fun _ l => l.mergeSort (· ≤ ·)

/-- The elements of the set the code builds: the distinct resource names of the pool's
merged resource vector, in first-occurrence order (a representative; only the set of
elements matters). -/
def nameSet (res : Resources) : List String := (res.total.map (·.1.name)).eraseDups

/-- The row logged for one pool and one resource name. -/
def utilRow (time : Int) (i : Nat) (res : Resources) (nm : String) : Row :=
  let k : Res := ⟨nm, none⟩
  [istr time, "WORKER_POOL_UTILIZATION", plabel i, nm, istr (res.allocatedQ k), nstr (res.availQ k)]

/-- The rows of one `__log_utilization` call for pool `i`, given the order in which the
set yields its names. -/
def poolRows (time : Int) (i : Nat) (res : Resources) (names : List String) : List Row :=
  names.map (utilRow time i res)

/-- All rows of one `__log_utilization` call under the order `ord`. -/
def utilRows (ord : Order) (time : Int) (pools : List Pool) : List Row :=
  pools.zipIdx.flatMap fun (p, i) => poolRows time i p.resources (ord i (nameSet p.resources))

/-- `__log_utilization` with the set iteration order as a parameter.  Same text as
`Sim.logUtilization` except for `ord`. -/
def logUtilizationWith (ord : Order) (time : Int) : SimM Unit := do
  let s ← get
  for (p, i) in s.pools.toList.zipIdx do
    let res := p.resources
    let names := ord i (res.total.map (·.1.name)).eraseDups
    for nm in names do
      let k : Res := ⟨nm, none⟩
      row [istr time, "WORKER_POOL_UTILIZATION", plabel i, nm, istr (res.allocatedQ k), nstr (res.availQ k)]

end SimOrder
end ErdosVerif.Model
