import ErdosVerif.Model.Task
/-
M7 — executable model of `workload/tasks.py: TaskGraph` (cancel,
notify_task_completion, get_schedulable_tasks, get_releasable_tasks,
resolve_conditional, is_complete / is_cancelled, deadline, release_time).
Core Lean only.

The *structure* of a task graph is static during a run; node order (`_graph`
key order), children lists, parent lists (`_parent_graph`) and the topological
order are inputs taken from the real object (the graph algorithms themselves
are property C17's model). Everything state dependent is modelled here.

Random draws (`random.choices`, `random.choice`, `random.random`,
`EventTime.fuzz`) are an explicit tape consumed in program order.
-/
namespace ErdosVerif.Model

inductive Draw
  | choices (i : Nat)      -- index returned by `random.choices(population, weights, k=1)`
  | choice (i : Nat)       -- index returned by `random.choice(seq)`
  | coin (lt : Bool)       -- outcome of `random.random() < branch_prediction_accuracy`
  | fuzz (v : Int)         -- value returned by `EventTime.fuzz`
  deriving Repr, DecidableEq

/-- Exception-over-state monad over the draw tape: draws consumed before an
exception stay consumed (as in Python). -/
abbrev TapeM := ExceptT SErr (StateM (List Draw))

/-- Run against a tape: result (or exception) and the remaining tape. -/
def TapeM.runTape {α} (x : TapeM α) (tape : List Draw) : Except SErr α × List Draw :=
  (ExceptT.run x).run tape

def drawChoices : TapeM Nat := do
  match (← get) with
  | .choices i :: r => set r; pure i
  | _ => throw .fuel

def drawChoice : TapeM Nat := do
  match (← get) with
  | .choice i :: r => set r; pure i
  | _ => throw .fuel

def drawCoin : TapeM Bool := do
  match (← get) with
  | .coin b :: r => set r; pure b
  | _ => throw .fuel

def drawFuzz : TapeM Int := do
  match (← get) with
  | .fuzz v :: r => set r; pure v
  | _ => throw .fuel

inductive BranchPolicy
  | random | worstCase | bestCase | maximum | all
  deriving DecidableEq, Repr

structure GraphS where
  name : String
  tasks : Array TaskS
  children : Array (List Nat)
  parents : Array (List Nat)
  topo : List Nat
  deriving Repr

namespace GraphS

def size (g : GraphS) : Nat := g.tasks.size
def kids (g : GraphS) (n : Nat) : List Nat := g.children[n]?.getD []
def pars (g : GraphS) (n : Nat) : List Nat := g.parents[n]?.getD []
def task? (g : GraphS) (n : Nat) : Option TaskS := g.tasks[n]?
def setTask (g : GraphS) (n : Nat) (t : TaskS) : GraphS := { g with tasks := g.tasks.setIfInBounds n t }
def nodes (g : GraphS) : List Nat := List.range g.tasks.size

def stateOf (g : GraphS) (n : Nat) : TState := ((g.task? n).map (·.state)).getD .virtual
def completeOf (g : GraphS) (n : Nat) : Bool := ((g.task? n).map (·.isComplete)).getD false

/-- `Graph.depth_first(node)`: an explicit stack; children are pushed in order and
popped from the right; a node popped again after it was visited is skipped, so every
reachable node is yielded exactly once. -/
def dfsFrom (g : GraphS) (start : Nat) : List Nat :=
  go (g.size * g.size + g.size + 1) [start] [] []
where
  go : Nat → List Nat → List Nat → List Nat → List Nat
    | 0, _, _, acc => acc.reverse
    | _, [], _, acc => acc.reverse
    | fuel + 1, n :: stack, visited, acc =>
      if visited.contains n then go fuel stack visited acc
      else
        let visited := n :: visited
        let push := (g.kids n).filter (fun c => !visited.contains c)
        go fuel (push.reverse ++ stack) visited (n :: acc)

/-- `a` is the same task as `b` at the previous timestamp (same name, `ts + 1`). -/
def prevStamp (g : GraphS) (a b : Nat) : Bool :=
  match g.task? a, g.task? b with
  | some x, some y => x.name == y.name && x.ts + 1 == y.ts
  | _, _ => false

/-- `is_source_task`: no parents, or exactly one parent that is the same task of the
previous timestamp. `is_sink_task`: no children, or exactly one child that is the same
task of the next timestamp. (The graphs of the JSON / YAML loaders carry one timestamp, so
there the second clause never applies.) -/
def isSource (g : GraphS) (n : Nat) : Bool :=
  match g.pars n with
  | [] => true
  | [p] => g.prevStamp p n
  | _ => false
def isSink (g : GraphS) (n : Nat) : Bool :=
  match g.kids n with
  | [] => true
  | [c] => g.prevStamp n c
  | _ => false
def sinks (g : GraphS) : List Nat := g.nodes.filter g.isSink
def sources (g : GraphS) : List Nat := g.nodes.filter g.isSource

/-- `is_complete()`: all sink tasks complete. -/
def isComplete (g : GraphS) : Bool := g.sinks.all g.completeOf
/-- `is_cancelled()`: some sink task cancelled. -/
def isCancelled (g : GraphS) : Bool := g.sinks.any (fun n => g.stateOf n == .cancelled)

/-- `deadline`: maximum task deadline (ValueError on an empty graph). -/
def deadline (g : GraphS) : Int :=
  g.tasks.foldl (fun m t => max m t.deadline) ((g.tasks[0]?.map (·.deadline)).getD 0)

/-- `release_time`: minimum release time over the source tasks. -/
def releaseTime (g : GraphS) : Int :=
  match g.sources.filterMap (fun n => (g.task? n).map (·.release)) with
  | [] => 0
  | r :: rs => rs.foldl min r

/-- `completion_time`: max completion over the sinks. -/
def completionTime (g : GraphS) : Int :=
  match g.sinks.filterMap (fun n => (g.task? n).map (·.completion)) with
  | [] => 0
  | r :: rs => rs.foldl max r

/-- Result of `cancel`: the graph at the end (or at the raise point), the tasks
cancelled so far, and the exception if `Task.cancel` refused. -/
structure CancelRes where
  g : GraphS
  cancelled : List Nat
  err : Option SErr

/-- `TaskGraph.cancel(task, time)`: an explicit stack walk (children are pushed in
order and popped from the right). A terminal task that can still run only prunes
the current path (it is *not* marked visited, so it is reconsidered when reached
through another parent); an already-cancelled task is skipped with its subtree;
every task is cancelled at most once. `fuel` bounds the number of pops
(each edge is pushed at most once per cancelled parent, plus the root). -/
def cancel (g : GraphS) (n : Nat) (time : Int) : CancelRes :=
  go (g.size * g.size + g.size + 1) g [n] [] []
where
  go : Nat → GraphS → List Nat → List Nat → List Nat → CancelRes
    | 0, g, _, _, acc => ⟨g, acc.reverse, some .fuel⟩
    | _, g, [], _, acc => ⟨g, acc.reverse, none⟩
    | fuel + 1, g, c :: stack, visited, acc =>
      if visited.contains c then go fuel g stack visited acc
      else
        match g.task? c with
        | none => ⟨g, acc.reverse, some .keyError⟩
        | some tc =>
          if tc.terminal && c != n && !((g.pars c).all (fun p => g.stateOf p == .cancelled)) then
            go fuel g stack visited acc            -- prune this path only
          else if tc.state == .cancelled then
            go fuel g stack (c :: visited) acc     -- already cancelled (with its subtree)
          else
            match tc.doCancel time with
            | (t', none) => go fuel (g.setTask c t') ((g.kids c).reverse ++ stack) (c :: visited) (c :: acc)
            | (t', some e) => ⟨g.setTask c t', (c :: acc).reverse, some e⟩

/-- Result of `notify_task_completion`: graph at the end (or at the raise point),
released and cancelled tasks, the exception if any, and the remaining tape. -/
structure NotifyRes where
  g : GraphS
  released : List Nat
  cancelled : List Nat
  err : Option SErr
  tape : List Draw

/-- Cancel every listed branch head in turn (stops at the first exception). -/
def cancelBranches (g : GraphS) (finish : Int) (skip : Option Nat) :
    List Nat → List Nat → GraphS × List Nat × Option SErr
  | [], acc => (g, acc, none)
  | c :: rest, acc =>
    if some c == skip then
      match g.task? c with
      | some tc => cancelBranches (g.setTask c { tc with prob := 1000 }) finish skip rest acc
      | none => cancelBranches g finish skip rest acc
    else
      let r := g.cancel c finish
      match r.err with
      | some e => (r.g, acc ++ r.cancelled, some e)
      | none => cancelBranches r.g finish skip rest (acc ++ r.cancelled)

/-- `notify_task_completion(task, finish_time)`. -/
def notifyCompletion (g : GraphS) (n : Nat) (finish : Int) (tape : List Draw) : NotifyRes :=
  match g.task? n with
  | none => ⟨g, [], [], some .keyError, tape⟩
  | some t =>
    if !t.isComplete then ⟨g, [], [], some .valueError, tape⟩
    else
      let kids := g.kids n
      if t.conditional then
        let probs := kids.map (fun c => ((g.task? c).map (·.prob)).getD 0)
        if probs.all (· ≤ 0) then
          -- no child can run: cancel every branch
          let (g', cancelled, e) := cancelBranches g finish none kids []
          ⟨g', [], cancelled, e, tape⟩
        else if probs.foldl (· + ·) 0 != 1000 then ⟨g, [], [], some .valueError, tape⟩
        else
          match tape with
          | .choices i :: tape' =>
            match kids[i]? with
            | none => ⟨g, [], [], some .indexError, tape'⟩
            | some chosen =>
              let cs := g.stateOf chosen
              if cs.val > TState.scheduled.val && cs.val < TState.cancelled.val then
                ⟨g, [], [], some .runtimeError, tape'⟩
              else
                let (g', cancelled, e) := cancelBranches g finish (some chosen) kids []
                match e with
                | some e => ⟨g', [], cancelled, some e, tape'⟩
                | none => ⟨g', [chosen], cancelled, none, tape'⟩
          | _ => ⟨g, [], [], some .fuel, tape⟩
      else
        go g kids [] tape
where
  go (g : GraphS) : List Nat → List Nat → List Draw → NotifyRes
    | [], acc, tape => ⟨g, acc, [], none, tape⟩
    | c :: rest, acc, tape =>
      match g.task? c with
      | none => ⟨g, acc, [], some .keyError, tape⟩
      | some tc =>
        if tc.state.val > TState.scheduled.val && tc.state.val < TState.cancelled.val then
          ⟨g, acc, [], some .runtimeError, tape⟩
        else if tc.state == .cancelled then go g rest acc tape
        else if tc.terminal || (g.pars c).all g.completeOf then go g rest (acc ++ [c]) tape
        else go g rest acc tape

/-- `get_releasable_tasks()`. -/
def getReleasable (g : GraphS) : List Nat :=
  g.nodes.filter (fun n =>
    let s := g.stateOf n
    (s == .virtual || s == .scheduled || s == .preempted) && (g.pars n).all g.completeOf)

/-- First child with the strictly greatest (`>`) / smallest (`<`) probability. -/
def pickByProb (g : GraphS) (kids : List Nat) (greater : Bool) : Option Nat :=
  match kids with
  | [] => none
  | k :: rest =>
    let p (n : Nat) : Int := ((g.task? n).map (·.prob)).getD 0
    some (rest.foldl (fun b c => if (if greater then p c > p b else p c < p b) then c else b) k)

/-- `resolve_conditional(task, policy, accuracy)` (IndexError for a childless conditional). -/
def resolveConditional (g : GraphS) (n : Nat) (policy : BranchPolicy) : TapeM (List Nat) := do
  let some t := g.task? n | throw .keyError
  if !t.conditional then throw .valueError
  let kids := g.kids n
  if t.isComplete then
    let some c := g.pickByProb kids true | throw .indexError
    return [c]
  match policy with
  | .worstCase =>
    let some c := g.pickByProb kids false | throw .indexError
    return [c]
  | .bestCase =>
    let some c := g.pickByProb kids true | throw .indexError
    return [c]
  | .maximum =>
    let some first := kids[0]? | throw .indexError
    let mut best := first
    let mut bestTime : Int := 0
    for c in kids do
      let mut bt : Int := 0
      for nd in g.dfsFrom c do
        let some tn := g.task? nd | throw .keyError
        if tn.terminal then break
        bt := bt + (← liftExcept tn.remainingTime)
      if bt > bestTime then
        bestTime := bt
        best := c
    return [best]
  | .random =>
    match kids.find? (fun c => (g.stateOf c).val ≥ TState.scheduled.val) with
    | some c => return [c]
    | none =>
      let p (c : Nat) : Int := ((g.task? c).map (·.prob)).getD 0
      if kids.all (fun c => p c == 1000 || p c ≤ 0) then
        let some toRelease := g.pickByProb kids true | throw .indexError
        if (← drawCoin) then return [toRelease]
        else
          let others := kids.filter (· != toRelease)
          if others.isEmpty then throw .indexError   -- `random.choice([])`
          let i ← drawChoice
          let some c := others[i]? | throw .indexError
          return [c]
      else
        if kids.isEmpty then throw .indexError
        let i ← drawChoice
        let some c := kids[i]? | throw .indexError
        return [c]
  | .all => return kids
where
  liftExcept {α} (e : Except SErr α) : TapeM α :=
    match e with
    | .ok a => pure a
    | .error err => throw err

/-- Association list for `estimated_completion_time` (a dict keyed by task). -/
def ectGet (m : List (Nat × Int)) (n : Nat) : Option Int := (m.find? (·.1 == n)).map (·.2)
def ectSet (m : List (Nat × Int)) (n : Nat) (v : Int) : List (Nat × Int) :=
  if m.any (·.1 == n) then m.map (fun p => if p.1 == n then (n, v) else p) else m ++ [(n, v)]

/-- The decision of one iteration of the selection loop of
`get_schedulable_tasks`, by task state (the `if / elif` chain of the source:
COMPLETED / RUNNING only raise `any_released`; RELEASED within the horizon,
PREEMPTED and EVICTED are offered; a VIRTUAL task with an estimated completion
time is offered if the whole graph is being released or its estimate is within
the horizon; a SCHEDULED task likewise, under retraction only). `e?` is the
task's entry in `estimated_completion_time`. -/
def offerDecision (t : TaskS) (e? : Option Int) (time lookahead : Int) (retract rtg : Bool)
    (anyReleased : Bool) : Except SErr (Bool × Bool) :=
  match t.state with
  | .completed | .running => .ok (false, true)
  | .released => if t.release ≤ time + lookahead then .ok (true, true) else .ok (false, anyReleased)
  | .preempted | .evicted => .ok (true, true)
  | .virtual =>
    match e? with
    | none => .ok (false, anyReleased)
    | some e =>
      -- `task.remaining_time` is only evaluated when the first disjunct is false
      if anyReleased && rtg then .ok (true, true)
      else
        match t.remainingTime with
        | .error err => .error err
        | .ok r => if e ≤ time + lookahead + r then .ok (true, true) else .ok (false, anyReleased)
  | .scheduled =>
    if retract then
      match e? with
      | none => .ok (false, anyReleased)
      | some e =>
        if anyReleased && rtg then .ok (true, true)
        else
          match TaskS.slowest? t.strategies with
          | none => .error .attributeError
          | some s => if e ≤ time + lookahead + s.runtime then .ok (true, true) else .ok (false, anyReleased)
    else .ok (false, anyReleased)
  | .cancelled => .ok (false, anyReleased)

/-- One iteration of the selection loop: is task `n` offered, and the new `any_released`. -/
def offerStep (g : GraphS) (ect : List (Nat × Int)) (time lookahead : Int) (retract rtg : Bool)
    (n : Nat) (anyReleased : Bool) : Except SErr (Bool × Bool) :=
  match g.task? n with
  | none => .error .keyError
  | some t => offerDecision t (ectGet ect n) time lookahead retract rtg anyReleased

/-- The selection loop over the topological order. -/
def selectLoop (g : GraphS) (ect : List (Nat × Int)) (time lookahead : Int) (retract rtg : Bool) :
    List Nat → Bool → List Nat → Except SErr (List Nat)
  | [], _, out => .ok out
  | n :: rest, anyReleased, out =>
    match offerStep g ect time lookahead retract rtg n anyReleased with
    | .error e => .error e
    | .ok (offered, any') =>
      selectLoop g ect time lookahead retract rtg rest any' (if offered then out ++ [n] else out)

/-- `get_schedulable_tasks(...)` for one task graph. `placed` is what
`worker_pools.get_placed_tasks()` contributes under preemption (already as
identities of this or other graphs; returned through `extra`). -/
def getSchedulable (g : GraphS) (time lookahead : Int) (retract : Bool) (policy : BranchPolicy)
    (releaseTaskGraphs : Bool) : TapeM (List Nat) := do
  -- estimate the completion time of materialised tasks
  let mut ect : List (Nat × Int) := []
  let mut queue : List Nat := []
  for n in g.nodes do
    let some t := g.task? n | throw .keyError
    match t.state with
    | .completed =>
      ect := ectSet ect n t.completion; queue := queue ++ [n]
    | .running | .preempted | .evicted =>
      ect := ectSet ect n (time + (← resolveConditional.liftExcept t.remainingTime)); queue := queue ++ [n]
    | .released =>
      ect := ectSet ect n (max t.release time + (← resolveConditional.liftExcept t.remainingTime)); queue := queue ++ [n]
    | .scheduled =>
      if retract then
        let some s := TaskS.slowest? t.strategies | throw .attributeError
        ect := ectSet ect n (time + s.runtime)
      else
        let some p := t.placement | throw .attributeError
        let some pt := p.time | throw .typeError
        -- a placement whose time has passed (deferred start) cannot start before now
        ect := ectSet ect n (max pt time + (← resolveConditional.liftExcept t.remainingTime))
      queue := queue ++ [n]
    | .cancelled => pure ()
    | .virtual => pure ()
  -- propagate to VIRTUAL tasks
  let mut fuel := 4 * (g.size + 1) * (g.size + 1) * (g.size + 1) + 64
  while !queue.isEmpty do
    if fuel == 0 then throw .fuel
    fuel := fuel - 1
    let n := queue.head!
    queue := queue.tail
    let some t := g.task? n | throw .keyError
    let some ct := ectGet ect n | throw .keyError
    let kids ← if t.conditional then resolveConditional g n policy else pure (g.kids n)
    for c in kids do
      let some tc := g.task? c | throw .keyError
      if (!retract && tc.state != .virtual) ||
         (retract && !(tc.state == .virtual || tc.state == .scheduled)) then continue
      let some s := TaskS.slowest? tc.strategies | throw .attributeError
      -- `if child_task.release_time:` is always true for an EventTime object
      let cct := max (ct + s.runtime) (tc.release + s.runtime)
      match ectGet ect c with
      | some old =>
        if cct > old then
          ect := ectSet ect c cct; queue := queue ++ [c]
      | none =>
        ect := ectSet ect c cct; queue := queue ++ [c]
  -- choose
  match selectLoop g ect time lookahead retract releaseTaskGraphs g.topo false [] with
  | .ok out => return out
  | .error e => throw e

/-- `Task.is_ready_to_run(task_graph)`. -/
def isReadyToRun (g : GraphS) (n : Nat) : Bool :=
  match g.task? n with
  | none => false
  | some t =>
    let st := (g.pars n).map g.completeOf
    let parentsDone := if t.terminal then st.any id else st.all id
    parentsDone && (t.state == .scheduled || t.state == .preempted)

end GraphS
end ErdosVerif.Model
