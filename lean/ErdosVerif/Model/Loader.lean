/-
M12 (part 2): description → objects.

Source modelled (quirks included):
* `data/workload_loader.py` `WorkloadLoader.__init__`, `load_job_graph`,
  `__create_release_policy`, `__create_work_profile`,
  `__create_execution_strategies`, `__create_resources` (90-464)
* `data/worker_loader.py` `__create_worker_pools` (73-160)
* `workload/jobs.py` `JobGraph.generate_task_graphs`, `_generate_task_graph`
  (with the flags at their defaults: no conditional resolution, no branch
  predicated deadlines, no deadline decomposition), `__get_completion_time`
* `workload/graph.py` `topological_sort`, `get_longest_path` (tie breaking!)
* `workload/profile.py` `WorkProfile.__deepcopy__` (copy numbering)

Behaviour after the repairs b2eb371 / 8d52357 / d64eefe of /repo:
* every job gets `--override_slo` if that is active, else its own `slo`, else
  none (`-1`); nothing is carried from node to node;
* the horizon of `populate_task_graphs` is `EventTime(flags.loop_timeout)`;
* `override_num_invocation` replaces `invocations` for every policy that has
  them (poisson and closed_loop still insist on the key being present; gamma
  without the key is a `KeyError` only when there is no override).

Quirks kept on purpose:
* Q3 `WorkProfile.__deepcopy__` bumps the copy counter twice: the copies are
  called `P_2, P_4, …`; and `unique_work_profiles=False` (default) is the
  setting that *copies* the profiles per job graph.
* Q5 fuzz is drawn twice per task graph; only the second draw is used.

Assumed of descriptions (generator guarantees; not modelled otherwise): names of
profiles, of graphs and of the nodes of one graph are pairwise different.
Core Lean only.
-/
import ErdosVerif.Model.Release

namespace ErdosVerif.Loader
open ErdosVerif.Release

/-! ## Descriptions (what the YAML / JSON file says) -/

structure ResReqD where
  /-- the mapping key as written, e.g. `"GPU:any"` -/
  key : String
  qty : Int
  deriving Repr, Inhabited

structure StrategyD where
  res : Option (List ResReqD)
  batch : Option Int
  runtime : Option Int
  deriving Repr, Inhabited

structure ProfileD where
  name : Option String
  loading : Option (List StrategyD)
  exec : Option (List StrategyD)
  deriving Repr, Inhabited

structure NodeD where
  name : String
  profile : Option String
  slo : Option Int
  cond : Bool
  term : Bool
  /-- probability in permille (`none`: key absent, 1.0) -/
  prob : Option Int
  children : Option (List String)
  deriving Repr, Inhabited

structure GraphD where
  name : Option String
  nodes : Option (List NodeD)
  policy : Option String
  period : Option Int
  invocations : Option Int
  concurrency : Option Int
  start : Option Int
  /-- key `rate` present -/
  rate : Bool
  /-- key `coefficient` present -/
  coefficient : Bool
  variance : Option (Int × Int)
  deriving Repr, Inhabited

structure WorkloadD where
  profiles : Option (List ProfileD)
  graphs : Option (List GraphD)
  deriving Repr, Inhabited

/-- The command-line flags `WorkloadLoader` / `_generate_task_graph` read. -/
structure Flags where
  /-- `override_arrival_period` (active when > 0) -/
  period : Int := 0
  /-- `override_num_invocation` (active when > 0) -/
  n : Int := 0
  /-- `override_poisson_arrival_rate > epsilon` -/
  rate : Bool := false
  /-- `override_gamma_coefficient > epsilon` -/
  coef : Bool := false
  /-- `override_slo` (active when > 0) -/
  slo : Int := -1
  /-- `unique_work_profiles` (True = share the profile objects) -/
  unique : Bool := false
  /-- `replication_factor` -/
  repl : Int := 1
  minDeadline : Int := 0
  maxDeadline : Int := 9223372036854775807
  /-- `loop_timeout` in µs: the horizon of `populate_task_graphs` -/
  loopTimeout : Int := 9223372036854775807
  deriving Repr, Inhabited

/-! ## Objects -/

structure Res where
  name : String
  /-- a given id, or `#k` for the k-th fresh uuid -/
  id : String
  qty : Int
  deriving Repr, Inhabited, DecidableEq

structure Strategy where
  res : Option (List Res)
  batch : Int
  runtime : Int
  deriving Repr, Inhabited, DecidableEq

structure ProfileInst where
  name : String
  loading : List Strategy
  exec : List Strategy
  deriving Repr, Inhabited, DecidableEq

structure Job where
  name : String
  /-- index into the list of profile instances -/
  profile : Nat
  slo : Int
  cond : Bool
  term : Bool
  /-- permille -/
  prob : Int
  deriving Repr, Inhabited, DecidableEq

structure JobGraph where
  name : String
  policy : Policy
  variance : Int × Int
  jobs : List Job
  /-- `children[i]`: indices of the children of job `i`, in `add_child` order -/
  children : List (List Nat)
  deriving Repr, Inhabited

structure Task where
  /-- fresh identifier (stands for the uuid) -/
  id : Nat
  name : String
  taskGraph : String
  /-- index of the creating job in the job graph -/
  job : Nat
  timestamp : Int
  release : Int
  deadline : Int
  profile : Nat
  prob : Int
  deriving Repr, Inhabited, DecidableEq

structure TaskGraph where
  name : String
  /-- `tasks[i]` was created from `jobs[i]` -/
  tasks : List Task
  /-- same index lists as the job graph -/
  children : List (List Nat)
  /-- insertion order of the nodes in the `TaskGraph` (`get_nodes()`) -/
  order : List Nat
  deriving Repr, Inhabited

/-! ## Small dictionary helpers -/

/-- Python `d[key] = value` on an insertion-ordered dict keyed by `(name, id)`. -/
def dictInsert (l : List Res) (r : Res) : List Res :=
  if l.any (fun x => x.name == r.name && x.id == r.id) then
    l.map (fun x => if x.name == r.name && x.id == r.id then { x with qty := r.qty } else x)
  else l ++ [r]

def findIdx? (p : α → Bool) : List α → Nat → Option Nat
  | [], _ => none
  | a :: as, i => if p a then some i else findIdx? p as (i + 1)

/-! ## Profiles -/

/-- `__create_resources`: keys must split into exactly two parts on `:`. -/
def createResources : List ResReqD → List Res → Except String (List Res)
  | [], acc => .ok acc
  | r :: rs, acc =>
    match r.key.splitOn ":" with
    | [n, i] => createResources rs (dictInsert acc { name := n, id := i, qty := r.qty })
    | _ => .error "ValueError"

def createStrategy (s : StrategyD) : Except String Strategy := do
  let res ← match s.res with
    | none => pure none
    | some l => do pure (some (← createResources l []))
  pure { res := res, batch := s.batch.getD 1, runtime := s.runtime.getD 0 }

def createStrategies : List StrategyD → Except String (List Strategy)
  | [] => .ok []
  | s :: ss => do
    let a ← createStrategy s
    let as ← createStrategies ss
    pure (a :: as)

def createProfile (p : ProfileD) : Except String ProfileInst := do
  match p.name with
  | none => .error "KeyError"
  | some nm =>
    let l ← match p.loading with
      | none => pure []
      | some ss => createStrategies ss
    let e ← match p.exec with
      | none => pure []
      | some ss => createStrategies ss
    pure { name := nm, loading := l, exec := e }

def createProfiles : List ProfileD → Except String (List ProfileInst)
  | [] => .ok []
  | p :: ps => do
    let a ← createProfile p
    let as ← createProfiles ps
    pure (a :: as)

/-! ## Release policy from the description -/

def createPolicy (g : GraphD) (f : Flags) : Except String Policy := do
  let start := g.start.getD 0
  let ovP : Option Int := if f.period > 0 then some f.period else none
  let ovN : Option Int := if f.n > 0 then some f.n else none
  match g.policy with
  | some "periodic" =>
    if g.period.isNone && ovP.isNone then .error "ValueError" else
    pure { kind := .periodic, period := ovP.getD (g.period.getD 0), n := -1, start := start }
  | some "fixed" =>
    if g.period.isNone && ovP.isNone then .error "ValueError" else
    if g.invocations.isNone && ovN.isNone then .error "ValueError" else
    pure { kind := .fixed, period := ovP.getD (g.period.getD 0),
           n := ovN.getD (g.invocations.getD 0), start := start }
  | some "poisson" =>
    if (!g.rate && !f.rate) || g.invocations.isNone then .error "ValueError" else
    pure { kind := .poisson, n := ovN.getD (g.invocations.getD 0), start := start }
  | some "gamma" =>
    if (!g.rate && !f.rate) || (!g.coefficient && !f.coef) then .error "ValueError" else
    match ovN, g.invocations with
    | some n, _ => pure { kind := .gamma, n := n, start := start }
    | none, some n => pure { kind := .gamma, n := n, start := start }
    | none, none => .error "KeyError"
  | some "closed_loop" =>
    match g.concurrency, g.invocations with
    | some c, some n => mkClosedLoop c (ovN.getD n) start
    | _, _ => .error "ValueError"
  | _ => .error "NotImplementedError"

/-! ## Job graph from the description -/

/-- Loader state: every `WorkProfile` object created so far, and how often each
original profile has been deep-copied. -/
structure LState where
  insts : List ProfileInst
  /-- `_next_copy_number` of the originals (instances `0 … P-1`) -/
  copies : List Nat
  deriving Repr, Inhabited

/-- `deepcopy(work_profiles)`: one new instance per original, in order. Returns
the instance index to use for each original. -/
def deepcopyProfiles (st : LState) (nOrig : Nat) : LState × List Nat :=
  (List.range nOrig).foldl (fun (acc : LState × List Nat) i =>
    let (s, m) := acc
    let c := s.copies.getD i 0 + 2
    let o := s.insts.getD i default
    ({ insts := s.insts ++ [{ o with name := s!"{o.name}_{c}" }], copies := s.copies.set i c },
     m ++ [s.insts.length])) (st, [])

/-- `work_profiles[node["work_profile"]]`, or the default profile `Job` builds. -/
def resolveProfile (origNames : List String) (pmap : List Nat) (nd : NodeD) (st : LState) :
    Except String (LState × Nat) :=
  match nd.profile with
  | some pn =>
    match findIdx? (· == pn) origNames 0 with
    | none => .error "KeyError"
    | some i => .ok (st, pmap.getD i 0)
  | none =>
    .ok ({ st with insts := st.insts ++
              [{ name := s!"{nd.name}_#_work_profile", loading := [], exec := [] }] },
         st.insts.length)

/-- The SLO of the job made from a node: the override when active (`slo ≠ -1`),
else the node's own, else none. -/
def jobSlo (slo : Int) (nd : NodeD) : Int :=
  if slo = -1 then (match nd.slo with | some s => s | none => -1) else slo

/-- Pass 1 of `load_job_graph`: the jobs. -/
def loadJobs (origNames : List String) (pmap : List Nat) :
    List NodeD → Int → LState → List Job → Except String (LState × List Job)
  | [], _, st, acc => .ok (st, acc)
  | nd :: nds, slo, st, acc =>
    match resolveProfile origNames pmap nd st with
    | .error e => .error e
    | .ok (st1, pidx) =>
      loadJobs origNames pmap nds slo st1
        (acc ++ [{ name := nd.name, profile := pidx, slo := jobSlo slo nd, cond := nd.cond,
                   term := nd.term, prob := nd.prob.getD 1000 }])

/-- Pass 2: the edges. -/
def loadChildren (names : List String) : List NodeD → Except String (List (List Nat))
  | [] => .ok []
  | nd :: nds => do
    let cs ← (nd.children.getD []).foldlM (fun (acc : List Nat) c =>
      match findIdx? (· == c) names 0 with
      | none => Except.error "ValueError"
      | some i => pure (acc ++ [i])) []
    let rest ← loadChildren names nds
    pure (cs :: rest)

def loadJobGraph (name : String) (pol : Policy) (var : Int × Int) (nodes : List NodeD)
    (origNames : List String) (pmap : List Nat) (sloOverride : Int) (st : LState) :
    Except String (LState × JobGraph) := do
  let (st1, jobs) ← loadJobs origNames pmap nodes sloOverride st []
  let ch ← loadChildren (nodes.map (·.name)) nodes
  pure (st1, { name := name, policy := pol, variance := var, jobs := jobs, children := ch })

/-- One entry of `workload_data["graphs"]`, replicated. -/
def loadGraphD (g : GraphD) (f : Flags) (origNames : List String) (st : LState) :
    Except String (LState × List JobGraph) := do
  match g.name with
  | none => .error "ValueError"
  | some nm =>
    match g.nodes, g.policy with
    | some nodes, some _ =>
      let pol ← createPolicy g f
      let var := g.variance.getD (0, 0)
      let slo := if f.slo > 0 then f.slo else -1
      let nOrig := origNames.length
      let one (st : LState) (jgName : String) : Except String (LState × JobGraph) :=
        let (st1, pmap) := if f.unique then (st, List.range nOrig) else deepcopyProfiles st nOrig
        loadJobGraph jgName pol var nodes origNames pmap slo st1
      if f.repl > 1 then
        (List.range f.repl.toNat).foldlM (fun (acc : LState × List JobGraph) i => do
          let (s, jgs) := acc
          let (s1, jg) ← one s s!"{nm}_{i + 1}"
          pure (s1, jgs ++ [jg])) (st, [])
      else do
        let (s1, jg) ← one st nm
        pure (s1, [jg])
    | _, _ => .error "ValueError"

/-! ## Graph algorithms (`workload/graph.py`) on index graphs -/

structure TopoState where
  temp : List Nat
  perm : List Nat
  /-- finished nodes, most recent first: already the reversed list Python returns -/
  out : List Nat
  deriving Repr, Inhabited

mutual
/-- `visit(node)` of `topological_sort`; `fuel` bounds the recursion depth. -/
def topoVisit (ch : List (List Nat)) : Nat → Nat → TopoState → Except String TopoState
  | 0, _, _ => .error "RecursionError"
  | fuel + 1, node, st =>
    if st.perm.contains node then .ok st
    else if st.temp.contains node then .error "RuntimeError"
    else do
      let st1 ← topoVisitList ch fuel (ch.getD node []) { st with temp := node :: st.temp }
      pure { st1 with perm := node :: st1.perm, out := node :: st1.out }
def topoVisitList (ch : List (List Nat)) : Nat → List Nat → TopoState → Except String TopoState
  | _, [], st => .ok st
  | fuel, c :: cs, st => do
    let st1 ← topoVisit ch fuel c st
    topoVisitList ch fuel cs st1
end

/-- `Graph.topological_sort()` (nodes `0 … n-1` in insertion order). -/
def topoSort (ch : List (List Nat)) : Except String (List Nat) := do
  let n := ch.length
  let st ← (List.range n).foldlM (fun (st : TopoState) i =>
    if st.perm.contains i then pure st else topoVisit ch (n + 1) i st) { temp := [], perm := [], out := [] }
  pure st.out

/-- Relaxation loop of `get_longest_path`. -/
def relax (ch : List (List Nat)) (w : List Int) (topo : List Nat) :
    List Int × List (Option Nat) :=
  topo.foldl (fun (acc : List Int × List (Option Nat)) node =>
    (ch.getD node []).foldl (fun (acc : List Int × List (Option Nat)) child =>
      let (lpl, pred) := acc
      let cand := lpl.getD node 0 + w.getD child 0
      if lpl.getD child 0 ≤ cand then (lpl.set child cand, pred.set child (some node)) else acc) acc)
    (w, List.replicate w.length none)

/-- First index holding the maximum (Python `max` keeps the first maximal item). -/
def argmaxFirst : List Int → Nat → Nat → Int → Nat
  | [], _, best, _ => best
  | x :: xs, i, best, bv => if x > bv then argmaxFirst xs (i + 1) i x else argmaxFirst xs (i + 1) best bv

/-- Walk the predecessors back while the remaining length is positive. -/
def walkBack (w : List Int) (pred : List (Option Nat)) : Nat → Nat → Int → List Nat → List Nat
  | 0, _, _, acc => acc
  | fuel + 1, node, cum, acc =>
    if cum > 0 then
      match pred.getD node none with
      | none => acc
      | some p => walkBack w pred fuel p (cum - w.getD p 0) (p :: acc)
    else acc

/-- `Graph.get_longest_path(weights)` for a non-empty graph; source first. -/
def longestPath (ch : List (List Nat)) (w : List Int) : Except String (List Nat) := do
  let topo ← topoSort ch
  let (lpl, pred) := relax ch w topo
  match lpl with
  | [] => pure []
  | x :: xs =>
    let start := argmaxFirst xs 1 0 x
    let cum := lpl.getD start 0 - w.getD start 0
    pure (walkBack w pred ch.length start cum [start])

/-! ## Completion time and instantiation -/

/-- `get_slowest_strategy().runtime`: first maximum; `none` if there is no strategy. -/
def slowestRuntime : List Strategy → Option Int
  | [] => none
  | s :: ss => some (ss.foldl (fun m x => if x.runtime > m then x.runtime else m) s.runtime)

/-- `JobGraph.__get_completion_time()` in µs. -/
def completionTime (insts : List ProfileInst) (jg : JobGraph) : Except String Int := do
  if jg.jobs.isEmpty then .error "AttributeError" else
  -- weights(node) for every node, in order
  let w ← jg.jobs.foldlM (fun (acc : List Int) (j : Job) =>
    if j.prob > 0 then
      match slowestRuntime (insts.getD j.profile default).exec with
      | none => Except.error "AttributeError"
      | some r => pure (acc ++ [r])
    else pure (acc ++ [0])) []
  let path ← longestPath jg.children w
  path.foldlM (fun (acc : Int) i =>
    let j := jg.jobs.getD i default
    if j.slo ≠ -1 then pure (acc + j.slo) else
      match slowestRuntime (insts.getD j.profile default).exec with
      | none => Except.error "AttributeError"
      | some r => pure (acc + r)) 0

def isSource (children : List (List Nat)) (i : Nat) : Bool :=
  !(children.any (fun cs => cs.contains i))

/-- Node order of `TaskGraph(tasks=mapping)`: first mention, parents in job
order, each followed by its not yet seen children. -/
def insertionOrder (children : List (List Nat)) : List Nat :=
  (List.range children.length).foldl (fun (acc : List Nat) i =>
    let acc1 := if acc.contains i then acc else acc ++ [i]
    (children.getD i []).foldl (fun (a : List Nat) c => if a.contains c then a else a ++ [c]) acc1) []

/-- `_generate_task_graph`: one fresh copy of the job graph. `firstId` is the
first unused task identifier; task `i` gets `firstId + i`. -/
def instantiate (jg : JobGraph) (tgName : String) (timestamp : Int) (release deadline : Int)
    (firstId : Nat) : TaskGraph :=
  { name := tgName
    tasks := (List.range jg.jobs.length).map (fun i =>
      let j := jg.jobs.getD i default
      { id := firstId + i, name := j.name, taskGraph := tgName, job := i, timestamp := timestamp
        release := if isSource jg.children i then release else -1
        deadline := deadline, profile := j.profile, prob := j.prob })
    children := jg.children
    order := insertionOrder jg.children }

/-- State while task graphs are generated: fuzz tape and next fresh id. -/
structure GenState where
  tape : List Int
  nextId : Nat
  deriving Repr, Inhabited

/-- `_generate_task_graph` with its deadline computation: two fuzz draws, the
second one decides; a negative deadline is refused by `Task.update_deadline`. -/
def generateOne (insts : List ProfileInst) (f : Flags) (jg : JobGraph) (idx : Int) (release : Int)
    (gs : GenState) : Except String (GenState × TaskGraph) := do
  let T ← completionTime insts jg
  let rn := (gs.tape.drop 1).headD 0
  let dl := Release.deadline release T jg.variance.1 jg.variance.2 f.minDeadline f.maxDeadline rn
  if dl < 0 then .error "ValueError" else
  pure ({ tape := gs.tape.drop 2, nextId := gs.nextId + jg.jobs.length },
        instantiate jg s!"{jg.name}@{idx}" idx release dl gs.nextId)

/-- The loop of `generate_task_graphs`: release `k` becomes task graph
`name@(i+k)` with timestamp `i+k`. -/
def generateList (insts : List ProfileInst) (f : Flags) (jg : JobGraph) :
    Nat → List Int → GenState → Except String (GenState × List TaskGraph)
  | _, [], gs => .ok (gs, [])
  | i, r :: rs, gs =>
    match generateOne insts f jg (Int.ofNat i) r gs with
    | .error e => .error e
    | .ok (g1, tg) =>
      match generateList insts f jg (i + 1) rs g1 with
      | .error e => .error e
      | .ok (g2, tgs) => .ok (g2, tg :: tgs)

/-- Counters after `generate_task_graphs` released `k` graphs at times `rel`. -/
def loopAfterGenerate (pol : Policy) (rel : List Int) : LoopState :=
  if pol.kind = .closedLoop then
    { remaining := pol.n - rel.length, index := (rel.length : Int) - 1
      inflight := (List.range rel.length).map (fun i => Int.ofNat i)
      released := (List.range rel.length).map (fun i => (Int.ofNat i, rel.getD i 0)) }
  else
    { remaining := 9223372036854775807, index := (rel.length : Int) - 1, inflight := [], released := [] }

/-- `JobGraph.generate_task_graphs(completion_time)`. -/
def generateAll (insts : List ProfileInst) (f : Flags) (jg : JobGraph) (horizon : Option Int)
    (d : Draws) (gs : GenState) : Except String (GenState × List TaskGraph × LoopState) :=
  match getReleaseTimes jg.policy horizon d with
  | .error e => .error e
  | .ok rel =>
    match generateList insts f jg 0 rel gs with
    | .error e => .error e
    | .ok (gs1, tgs) => .ok (gs1, tgs, loopAfterGenerate jg.policy rel)

/-- The horizon `WorkloadLoader` passes: `EventTime(flags.loop_timeout, µs)`. -/
def loaderHorizon (f : Flags) : Option Int := some f.loopTimeout

/-! ## The whole workload -/

structure Loaded where
  insts : List ProfileInst
  jobGraphs : List JobGraph
  /-- per job graph: its task graphs from `populate_task_graphs` -/
  taskGraphs : List (List TaskGraph)
  /-- per job graph: closed-loop counters -/
  loops : List LoopState
  gen : GenState
  deriving Repr, Inhabited

def usesDraws (jg : JobGraph) : Bool :=
  (jg.policy.kind = .poisson || jg.policy.kind = .gamma) && jg.policy.n > 0

/-- `WorkloadLoader(path, _flags=FLAGS)`. `draws` holds one entry per call of
numpy (job graphs with a poisson / gamma policy and `n > 0`, in order). -/
def loadWorkload (d : WorkloadD) (f : Flags) (tape : List Int)
    (draws : List Draws) : Except String Loaded := do
  match d.profiles, d.graphs with
  | none, none => .error "ValueError"
  | none, _ => .error "KeyError"
  | some ps, gsD =>
    let origs ← createProfiles ps
    match gsD with
    | none => .error "KeyError"
    | some gs =>
      let origNames := origs.map (·.name)
      let st0 : LState := { insts := origs, copies := List.replicate origs.length 0 }
      let (st, jgs) ← gs.foldlM (fun (acc : LState × List JobGraph) g => do
        let (s, l) := acc
        let (s1, l1) ← loadGraphD g f origNames s
        pure (s1, l ++ l1)) (st0, [])
      let (gen, tgs, loops, _) ← jgs.foldlM
        (fun (acc : GenState × List (List TaskGraph) × List LoopState × List Draws) jg => do
          let (g, t, lp, ds) := acc
          let (dr, ds1) := if usesDraws jg then (ds.headD .none, ds.drop 1) else (Draws.none, ds)
          let (g1, t1, l1) ← generateAll st.insts f jg (loaderHorizon f) dr g
          pure (g1, t ++ [t1], lp ++ [l1], ds1))
        ({ tape := tape, nextId := 0 }, [], [], draws)
      pure { insts := st.insts, jobGraphs := jgs, taskGraphs := tgs, loops := loops, gen := gen }

/-- `Workload.notify_task_graph_completion(tg, f)` for graph `gi`'s task graph
with index `idx`: closed-loop graphs may release one follow-up. -/
def notifyCompletion (f : Flags) (ld : Loaded) (gi : Nat) (idx fin : Int) :
    Except String (Loaded × Option TaskGraph) := do
  let jg := ld.jobGraphs.getD gi default
  let ls := ld.loops.getD gi default
  if jg.policy.kind ≠ .closedLoop then pure (ld, none) else
  let (ls1, r) := loopComplete ls idx fin
  match r with
  | none => pure ({ ld with loops := ld.loops.set gi ls1 }, none)
  | some i =>
    let (gen1, tg) ← generateOne ld.insts f jg i (fin + 1) ld.gen
    pure ({ ld with loops := ld.loops.set gi ls1, gen := gen1 }, some tg)

/-! ## Worker description -/

structure WResD where
  name : Option String
  qty : Option Int
  deriving Repr, Inhabited

structure WorkerD where
  name : Option String
  resources : Option (List WResD)
  deriving Repr, Inhabited

structure PoolD where
  name : Option String
  workers : Option (List WorkerD)
  deriving Repr, Inhabited

structure Worker where
  name : String
  resources : List Res
  deriving Repr, Inhabited, DecidableEq

structure Pool where
  name : String
  workers : List Worker
  deriving Repr, Inhabited, DecidableEq

/-- Resource entries of one worker; `fresh` counts the uuids handed out. -/
def loadWorkerResources : List WResD → List Res → Nat → Except String (List Res × Nat)
  | [], acc, fresh => .ok (acc, fresh)
  | r :: rs, acc, fresh =>
    match r.name with
    | none => .error "KeyError"
    | some nm =>
      match nm.splitOn ":" with
      | [n] =>
        match r.qty with
        | none => .error "KeyError"
        | some q => loadWorkerResources rs (acc ++ [{ name := n, id := s!"#{fresh}", qty := q }]) (fresh + 1)
      | [n, i] =>
        match r.qty with
        | none => .error "KeyError"
        | some q => loadWorkerResources rs (dictInsert acc { name := n, id := i, qty := q }) fresh
      | _ => .error "ValueError"

def loadWorkers : List WorkerD → List Worker → Nat → Except String (List Worker × Nat)
  | [], acc, fresh => .ok (acc, fresh)
  | w :: ws, acc, fresh =>
    match w.resources with
    | none => .error "KeyError"
    | some rs => do
      let (res, fresh1) ← loadWorkerResources rs [] fresh
      match w.name with
      | none => .error "KeyError"
      | some nm => loadWorkers ws (acc ++ [{ name := nm, resources := res }]) fresh1

def loadPools : List PoolD → List Pool → Nat → Except String (List Pool)
  | [], acc, _ => .ok acc
  | p :: ps, acc, fresh =>
    match p.workers with
    | none => .error "KeyError"
    | some ws => do
      let (wk, fresh1) ← loadWorkers ws [] fresh
      match p.name with
      | none => .error "KeyError"
      | some nm => loadPools ps (acc ++ [{ name := nm, workers := wk }]) fresh1

/-- `WorkerLoader(path)`: an empty file is refused. -/
def loadWorkerPools (d : List PoolD) : Except String (List Pool) :=
  if d.isEmpty then .error "ValueError" else loadPools d [] 0

end ErdosVerif.Loader
