/-
M3 — executable model of `/repo/workload/graph.py` (class `Graph`), all of it.

Core Lean only (no Mathlib): this module is linked into the line-protocol driver
and is meant to be reused by the task-graph (M7) and simulator (M8) models.

## Representation

Nodes are `Nat` labels (the harness maps real hashable node objects to labels in
construction order).  Python's two `defaultdict(list)`s are insertion-ordered
association lists:

* `Graph.children`  = `self._graph`         (key order = dict order, observable
  through `get_nodes`, `get_sources`, `topological_sort`, `max` tie-breaking …)
* `Graph.parents`   = `self._parent_graph`  (only ever *read by key*)

Decision on `defaultdict` reads: `get_parents` does `self._parent_graph[node]`,
which INSERTS the key with `[]` when it is missing.  Nothing in `graph.py`,
`tasks.py` or `jobs.py` iterates `_parent_graph`, tests membership in it or takes
its length, so key presence is not observable: a missing key and a key bound to
`[]` behave identically.  The model therefore reads with a default
(`parentsOf`) and does not insert; the harness compares `_parent_graph` with
empty entries dropped and keys sorted.  `_graph` on the other hand is only read
after an explicit `node not in self._graph` test (or written on purpose by
`add_node` / `add_child`), so no hidden insertion exists there.

## Outcomes

Python exceptions are `Except String _` with the class name (`"ValueError"`,
`"RuntimeError"`, `"KeyError"`, `"TypeError"`).  Generators (`breadth_first`,
`depth_first`) return the list of yielded nodes together with the exception that
ends the iteration, if any (`List Nat × Option String`): Python yields the prefix
and then raises.  `"OutOfFuel"` is a model-only outcome: every loop / recursion
runs on fuel and the fuel handed out by the public functions is proved
sufficient in `Lemmas/Graph*.lean` (so `"OutOfFuel"` is never produced on
well-formed graphs; CPython's recursion limit of 1000 frames is not modelled).

## Quirks kept on purpose (each is exercised by the correspondence suite)

* `remove(x)` (as repaired by /repo commit ce9bde1) unlinks `x` from its
  children's parent lists AND from its parents' child lists, then deletes both
  keys; well-formedness is preserved (`wf_remove`).  `self._graph[parent]` is a
  `defaultdict` read: in a malformed state where a listed parent is not a key,
  the key is inserted before `list.remove` raises `ValueError` (modelled).
* `depth_first` (as repaired by /repo commit 71bd5c0) skips a popped node that
  is already visited (`dfsSkipVisitedOnPop = true`).  The former behaviour
  (finding C17-D1: a node pushed by several already-expanded parents before its
  first pop was yielded several times) is still available as
  `depthFirstWith false` for the regression record.
* `breadth_first(node)` (as repaired by /repo commit a5de234) first consumes
  `depth_first(node)` into `reachable_nodes` (an exception of that generator
  surfaces before anything is yielded) and waits only for the parents in that
  set.  It still tests `if node:` (truthiness) to choose the branch but
  `node is None` to choose the parent filter: for a falsy non-`None` label (e.g.
  the integer `0`) `reachable_nodes` is never bound and the first evaluation of
  the filter raises `NameError`.
* `topological_sort` iterates a live `dict.items()` view inside
  `while any(mark != "Permanent")`; one pass makes everything permanent, the
  `while` is modelled as written (fuel 2) and proved to exit after one pass.
* `get_longest_path` relaxes with `<=` (later parents win ties), `max` returns
  the first maximum in dict order, the walk back stops when the remaining
  weight is `<= 0` (so with zero weights the path may not start at a source)
  and raises `ValueError` on the empty graph (`max()` of an empty sequence).
* `get_node_depth` falls off the loop (returns `None`) when the node is not in
  the topological order; unreachable for real dicts, kept as `none`.
-/

namespace ErdosVerif.Model

/-! ### Insertion-ordered dictionaries with `Nat` keys -/

/-- Python `dict` with `Nat` keys: association list in insertion order. -/
abbrev Dict (β : Type) := List (Nat × β)

namespace Dict
variable {β : Type}

/-- `d[k]` / `d.get(k)`. -/
def get? (d : Dict β) (k : Nat) : Option β := List.lookup k d

/-- `k in d`. -/
def has (d : Dict β) (k : Nat) : Bool := (List.lookup k d).isSome

/-- `list(d.keys())`. -/
def keys (d : Dict β) : List Nat := d.map Prod.fst

/-- `d[k] = v`: an existing key keeps its position, a new key is appended. -/
def set : Dict β → Nat → β → Dict β
  | [], k, v => [(k, v)]
  | (k', v') :: r, k, v => if k' = k then (k, v) :: r else (k', v') :: set r k v

/-- `del d[k]` (the order of the remaining keys is kept). -/
def erase : Dict β → Nat → Dict β
  | [], _ => []
  | (k', v') :: r, k => if k' = k then r else (k', v') :: erase r k

end Dict

/-! ### The graph -/

/-- `workload.graph.Graph`: `children` is `_graph`, `parents` is `_parent_graph`. -/
structure Graph where
  /-- `_graph`: node ↦ ordered child list; key order is the dict order. -/
  children : Dict (List Nat) := []
  /-- `_parent_graph`: node ↦ ordered parent list (missing key ≡ `[]`). -/
  parents : Dict (List Nat) := []
deriving Repr, DecidableEq, Inhabited

/-- `foldlM` in `Except String`, written out so that proofs can `induction` on it. -/
def foldE {α σ : Type} (f : α → σ → Except String σ) : List α → σ → Except String σ
  | [], s => .ok s
  | a :: as, s =>
    match f a s with
    | .error e => .error e
    | .ok s' => foldE f as s'

namespace Graph

/-- `Graph()` with no nodes. -/
def empty : Graph := {}

/-- `node in self._graph`. -/
def hasNode (g : Graph) (n : Nat) : Bool := (List.lookup n g.children).isSome

/-- `self.get_nodes()` as a list (dict order). -/
def getNodes (g : Graph) : List Nat := g.children.map Prod.fst

/-- `len(graph)`. -/
def size (g : Graph) : Nat := g.children.length

/-- `self._parent_graph[n]` (a `defaultdict` read; see header). -/
def parentsOf (g : Graph) (n : Nat) : List Nat := (List.lookup n g.parents).getD []

/-- `self._graph[n]` for a node, `[]` otherwise (total helper for specifications). -/
def childrenOf (g : Graph) (n : Nat) : List Nat := (List.lookup n g.children).getD []

/-- `self._graph[x].extend([])`: make sure the key exists. -/
def touch (d : Dict (List Nat)) (x : Nat) : Dict (List Nat) :=
  if (List.lookup x d).isSome then d else d ++ [(x, [])]

/-- Body of `add_child` after the membership test. -/
def linkChild (g : Graph) (n c : Nat) : Graph :=
  let ch1 := Dict.set g.children n (g.childrenOf n ++ [c])
  { children := touch ch1 c
    parents := Dict.set g.parents c (g.parentsOf c ++ [n]) }

/-- `add_child(node, child)`; `ValueError` (before any mutation) if `node` is absent. -/
def addChild (g : Graph) (n c : Nat) : Except String Graph :=
  if g.hasNode n then .ok (g.linkChild n c) else .error "ValueError"

/-- `add_node(node, *children)` (never raises: the node is inserted first). -/
def addNode (g : Graph) (n : Nat) (cs : List Nat) : Graph :=
  cs.foldl (fun g c => g.linkChild n c) { g with children := touch g.children n }

/-- `Graph(nodes=mapping)`: `add_node` for every item in mapping order. -/
def ofMapping (m : List (Nat × List Nat)) : Graph :=
  m.foldl (fun g p => g.addNode p.1 p.2) empty

/-- `TaskGraph.update_edges(mapping)`: re-runs `Graph.__init__(mapping)` on the live
object, i.e. both dicts are replaced by fresh ones and filled from the mapping;
nothing of the old state survives (name / job-graph reference are outside M3). -/
def updateEdges (_g : Graph) (m : List (Nat × List Nat)) : Graph := ofMapping m

/-- `get_children(node)`. -/
def getChildren (g : Graph) (n : Nat) : Except String (List Nat) :=
  match List.lookup n g.children with
  | none => .error "ValueError"
  | some cs => .ok cs

/-- `get_parents(node)`. -/
def getParents (g : Graph) (n : Nat) : Except String (List Nat) :=
  if g.hasNode n then .ok (g.parentsOf n) else .error "ValueError"

/-- `get_sources()`: nodes without parents, dict order. -/
def getSources (g : Graph) : List Nat := g.getNodes.filter (fun n => (g.parentsOf n).isEmpty)

/-- Nodes without children, dict order.  `Graph` has no such method; this is what
`TaskGraph.get_sink_tasks` computes when no task has a next-timestamp twin. -/
def getSinks (g : Graph) : List Nat := g.getNodes.filter (fun n => (g.childrenOf n).isEmpty)

/-- `get_edges()`. -/
def getEdges (g : Graph) : List (Nat × Nat) :=
  g.children.flatMap (fun p => p.2.map (fun c => (p.1, c)))

/-- `is_source(node)`. -/
def isSource (g : Graph) (n : Nat) : Except String Bool :=
  if g.hasNode n then .ok (g.parentsOf n).isEmpty else .error "ValueError"

/-- `filter(function)`. -/
def filter (g : Graph) (p : Nat → Bool) : List Nat := g.getNodes.filter p

/-- `list.remove(x)`: drop the first occurrence, `none` (= `ValueError`) if absent. -/
def removeFirst (x : Nat) : List Nat → Option (List Nat)
  | [] => none
  | y :: ys => if y = x then some ys else (removeFirst x ys).map (y :: ·)

/-- The `for child in get_children(node): _parent_graph[child].remove(node)` loop.
Returns the parent dict reached and whether `list.remove` raised. -/
def unlinkParents (n : Nat) : List Nat → Dict (List Nat) → Dict (List Nat) × Bool
  | [], pa => (pa, true)
  | c :: cs, pa =>
    match removeFirst n ((List.lookup c pa).getD []) with
    | none => (pa, false)
    | some l => unlinkParents n cs (Dict.set pa c l)

/-- The `for parent in get_parents(node): _graph[parent].remove(node)` loop.
`_graph[parent]` is a `defaultdict` read: a missing key is inserted (with `[]`)
before `list.remove` raises. -/
def unlinkChildren (n : Nat) : List Nat → Dict (List Nat) → Dict (List Nat) × Bool
  | [], ch => (ch, true)
  | p :: ps, ch =>
    match removeFirst n ((List.lookup p ch).getD []) with
    | none => (touch ch p, false)
    | some l => unlinkChildren n ps (Dict.set ch p l)

/-- `remove(node)`: the state reached and the exception, if any.  The node is
unlinked from its children's parent lists and from its parents' child lists,
then both keys are deleted. -/
def remove (g : Graph) (n : Nat) : Graph × Option String :=
  match List.lookup n g.children with
  | none => (g, some "ValueError")
  | some cs =>
    match unlinkParents n cs g.parents with
    | (pa, false) => ({ g with parents := pa }, some "ValueError")
    | (pa, true) =>
      match unlinkChildren n ((List.lookup n pa).getD []) g.children with
      | (ch, false) => ({ children := ch, parents := pa }, some "ValueError")
      | (ch, true) => ({ children := Dict.erase ch n, parents := Dict.erase pa n }, none)

/-! ### `topological_sort` -/

/-- The three marks of `topological_sort`. -/
inductive Mark where
  | unmarked | temporary | permanent
deriving Repr, DecidableEq, Inhabited

/-- Local state of `topological_sort`: `node_marks` and the output list in append
order (the function returns it reversed). -/
structure TopoState where
  marks : Dict Mark
  out : List Nat
deriving Repr, DecidableEq, Inhabited

/-- The nested `visit(node)`; recursion depth is bounded by fuel. -/
def visit (g : Graph) : Nat → Nat → TopoState → Except String TopoState
  | 0, _, _ => .error "OutOfFuel"
  | fuel + 1, n, st =>
    match List.lookup n st.marks with
    | none => .error "KeyError"
    | some .permanent => .ok st
    | some .temporary => .error "RuntimeError"
    | some .unmarked =>
      match List.lookup n g.children with
      | none => .error "ValueError"
      | some cs =>
        match foldE (visit g fuel) cs { st with marks := Dict.set st.marks n .temporary } with
        | .error e => .error e
        | .ok st' => .ok { marks := Dict.set st'.marks n .permanent, out := st'.out ++ [n] }

/-- One step of `for node, mark in node_marks.items(): if mark == "Unmarked": visit(node)`
(the view is live: the mark is read when the iteration reaches the node). -/
def passStep (g : Graph) (fuel : Nat) (n : Nat) (st : TopoState) : Except String TopoState :=
  match List.lookup n st.marks with
  | some .unmarked => visit g fuel n st
  | _ => .ok st

/-- `while any(mark != "Permanent" ...): <one pass>`; `k` bounds the number of
evaluations of the loop condition. -/
def topoWhile (g : Graph) (fuel : Nat) : Nat → TopoState → Except String TopoState
  | 0, _ => .error "OutOfFuel"
  | k + 1, st =>
    if st.marks.all (fun p => p.2 == .permanent) then .ok st
    else
      match foldE (passStep g fuel) (st.marks.map Prod.fst) st with
      | .error e => .error e
      | .ok st' => topoWhile g fuel k st'

/-- Initial `node_marks`. -/
def topoInit (g : Graph) : TopoState := { marks := g.getNodes.map (fun n => (n, Mark.unmarked)), out := [] }

/-- `topological_sort()`: `RuntimeError` on a cycle, `KeyError` on a dangling child. -/
def topologicalSort (g : Graph) : Except String (List Nat) :=
  match topoWhile g (g.size + 1) 2 (topoInit g) with
  | .error e => .error e
  | .ok st => .ok st.out.reverse

/-! ### `get_node_depth` -/

/-- `max(l)` / `min(l)` on a non-empty list of naturals (`0` on `[]`, never used). -/
def aggregate (useMin : Bool) : List Nat → Nat
  | [] => 0
  | x :: xs => xs.foldl (fun a b => if useMin then Nat.min a b else Nat.max a b) x

/-- The loop of `get_node_depth` over the topological order; `d` is `node_to_depth`
(a `defaultdict(lambda: 1)`).  `none` = fell off the loop (Python returns `None`). -/
def depthLoop (g : Graph) (useMin : Bool) (target : Nat) : List Nat → Dict Nat → Option Nat
  | [], _ => none
  | n :: rest, d =>
    let ps := g.parentsOf n
    let d' := if ps.isEmpty then d
      else Dict.set d n (aggregate useMin (ps.map (fun p => (List.lookup p d).getD 1)) + 1)
    if n = target then some ((List.lookup n d').getD 1) else depthLoop g useMin target rest d'

/-- `get_node_depth(node, func)` with `func ∈ {max, min}` (`useMin`). -/
def getNodeDepth (g : Graph) (n : Nat) (useMin : Bool := false) : Except String (Option Nat) :=
  if g.hasNode n then
    match g.topologicalSort with
    | .error e => .error e
    | .ok order => .ok (depthLoop g useMin n order [])
  else .error "ValueError"

/-! ### `depth_first` -/

/-- **The one-line switch for finding C17-D1.**  `true` = the code as it is since
/repo commit 71bd5c0 (`if node in visited_nodes: continue` right after the pop);
`false` = the former generator (a popped node was yielded even if it was already
visited).  Lemmas about `depthFirstWith` are stated for an explicit flag. -/
def dfsSkipVisitedOnPop : Bool := true

/-- The `while len(frontier) > 0` loop of `depth_first`.  `stack` has the top (right
end of the deque) first; `acc` are the nodes yielded so far. -/
def dfsLoop (g : Graph) (skip : Bool) : Nat → List Nat → List Nat → List Nat → List Nat × Option String
  | 0, _, _, acc => (acc, some "OutOfFuel")
  | _ + 1, [], _, acc => (acc, none)
  | fuel + 1, n :: stack, visited, acc =>
    if skip && visited.contains n then dfsLoop g skip fuel stack visited acc
    else
      let visited' := n :: visited
      match List.lookup n g.children with
      | none => (acc ++ [n], some "ValueError")
      | some cs =>
        dfsLoop g skip fuel ((cs.filter (fun c => !visited'.contains c)).reverse ++ stack) visited' (acc ++ [n])

/-- Fuel that always suffices for `dfsLoop` (every edge pushes at most once). -/
def dfsFuel (g : Graph) (frontier : List Nat) : Nat :=
  (g.children.foldl (fun a p => a + p.2.length) 0) + frontier.length + 1

/-- `depth_first(node)` with an explicit choice of current / repaired behaviour. -/
def depthFirstWith (skip : Bool) (g : Graph) (start : Option Nat) : List Nat × Option String :=
  let frontier := match start with
    | none => g.getSources.reverse
    | some n => [n]
  dfsLoop g skip (dfsFuel g frontier) frontier [] []

/-- `depth_first(node=None)`: yielded nodes and the exception ending the iteration. -/
def depthFirst (g : Graph) (start : Option Nat) : List Nat × Option String :=
  depthFirstWith dfsSkipVisitedOnPop g start

/-! ### `are_dependent` -/

/-- `are_dependent(node_1, node_2)`. -/
def areDependent (g : Graph) (a b : Nat) : Except String Bool :=
  match g.getNodeDepth a with
  | .error e => .error e
  | .ok da =>
    match g.getNodeDepth b with
    | .error e => .error e
    | .ok db =>
      match da, db with
      | none, none => .ok false            -- `None == None`
      | some x, some y =>
        if x = y then .ok false
        else
          let (top, bottom) := if x > y then (b, a) else (a, b)
          let (ys, err) := g.depthFirst (some top)
          -- the generator is consumed lazily: a hit before the exception returns True
          if ys.contains bottom then .ok true
          else match err with
            | some e => .error e
            | none => .ok false
      | _, _ => .error "TypeError"         -- `None > int`

/-! ### `breadth_first` -/

/-- `all(parent in visited for parent in parents if dep(parent))` with Python's
short-circuit order (`dep` may raise). -/
def allParentsVisited (dep : Nat → Except String Bool) (visited : List Nat) :
    List Nat → Except String Bool
  | [] => .ok true
  | p :: ps =>
    match dep p with
    | .error e => .error e
    | .ok false => allParentsVisited dep visited ps
    | .ok true => if visited.contains p then allParentsVisited dep visited ps else .ok false

/-- The `for child in self.get_children(current_node)` loop: returns the new frontier.
`guard` is the cycle guard of the start-node branch (/repo 13ffad9): a child that
passes the parent test but is already visited raises `RuntimeError`. -/
def bfsChildren (g : Graph) (dep : Nat → Except String Bool) (guard : Bool) (visited : List Nat) :
    List Nat → List Nat → Except String (List Nat)
  | [], frontier => .ok frontier
  | c :: cs, frontier =>
    if g.hasNode c then
      match allParentsVisited dep visited (g.parentsOf c) with
      | .error e => .error e
      | .ok true =>
        if guard && visited.contains c then .error "RuntimeError"
        else bfsChildren g dep guard visited cs (frontier ++ [c])
      | .ok false => bfsChildren g dep guard visited cs frontier
    else .error "ValueError"    -- `get_parents(child)` on a dangling child

/-- The `while len(frontier) > 0` loop of `breadth_first` (frontier head = left end).
An exception inside the child loop is raised before the current node is yielded;
the nodes yielded earlier stay yielded. -/
def bfsLoop (g : Graph) (dep : Nat → Except String Bool) (guard : Bool) :
    Nat → List Nat → List Nat → List Nat → List Nat × Option String
  | 0, _, _, acc => (acc, some "OutOfFuel")
  | _ + 1, [], _, acc => (acc, none)
  | fuel + 1, cur :: rest, visited, acc =>
    let visited' := cur :: visited
    match List.lookup cur g.children with
    | none => (acc, some "ValueError")
    | some cs =>
      match bfsChildren g dep guard visited' cs rest with
      | .error e => (acc, some e)
      | .ok frontier' => bfsLoop g dep guard fuel frontier' visited' (acc ++ [cur])

/-- Fuel for `bfsLoop`: `(E+2)^(|V|+1)`; on graphs without parallel edges `|V|+1`
already suffices, parallel edges multiply the number of visits. -/
def bfsFuel (g : Graph) : Nat :=
  ((g.children.foldl (fun a p => a + p.2.length) 0) + 2) ^ (g.size + 1)

/-- `breadth_first(node)` run with an explicit amount of loop fuel (see `breadthFirst`).
`truthy` is Python's `bool(node)` for the start label (`True` for every `Task` /
`Job`; `False` e.g. for the integer label `0`).  With a (truthy) start node,
`reachable_nodes = set(depth_first(node))` is computed first and only parents in
that set are waited for. -/
def breadthFirstWithFuel (fuel : Nat) (g : Graph) (start : Option Nat) (truthy : Bool := true) :
    List Nat × Option String :=
  match start with
  | none => bfsLoop g (fun _ => .ok true) false fuel g.getSources [] []
  | some n =>
    if truthy then
      match g.depthFirst (some n) with
      | (_, some e) => ([], some e)     -- raised while building `reachable_nodes`: nothing yielded yet
      | (reachable, none) =>
        bfsLoop g (fun p => .ok (reachable.contains p)) true fuel [n] [] []
    else
      -- `reachable_nodes` is unbound: the parent filter raises on its first evaluation
      -- (`node is not None`, so the cycle guard is active here too)
      bfsLoop g (fun _ => .error "NameError") true fuel g.getSources [] []

/-- `breadth_first(node)`.  With a start node a cycle reachable from it is reported as
`RuntimeError` by the guard in `bfsChildren` (/repo 13ffad9; between a5de234 and that
commit the real generator looped forever); the nodes yielded before stay yielded.
The driver still runs on capped fuel (`breadthFirstWithFuel`) so that a runaway real
generator would be reported instead of hanging the run. -/
def breadthFirst (g : Graph) (start : Option Nat) (truthy : Bool := true) :
    List Nat × Option String :=
  breadthFirstWithFuel (bfsFuel g) g start truthy

/-! ### `get_longest_path` -/

/-- The default `weights`: 1 for a source, 2 otherwise. -/
def defaultWeight (g : Graph) (n : Nat) : Int := if (g.parentsOf n).isEmpty then 1 else 2

/-- Inner loop `for child in get_children(node)` of the relaxation. State is
`(longest_path_length, predecessor)`. -/
def relaxChildren (w : Nat → Int) (n : Nat) :
    List Nat → Dict Int × Dict Nat → Except String (Dict Int × Dict Nat)
  | [], s => .ok s
  | c :: cs, (lpl, pred) =>
    match List.lookup c lpl, List.lookup n lpl with
    | some lc, some ln =>
      if lc ≤ ln + w c then relaxChildren w n cs (Dict.set lpl c (ln + w c), Dict.set pred c n)
      else relaxChildren w n cs (lpl, pred)
    | _, _ => .error "KeyError"

/-- One step of `for node in topological_sort()`. -/
def relaxNode (g : Graph) (w : Nat → Int) (n : Nat) (s : Dict Int × Dict Nat) :
    Except String (Dict Int × Dict Nat) :=
  match List.lookup n g.children with
  | none => .error "ValueError"
  | some cs => relaxChildren w n cs s

/-- `max(d.items(), key=lambda kv: kv[1])`: the first maximum in dict order. -/
def argmaxFirst : Dict Int → Option (Nat × Int)
  | [] => none
  | p :: r => some (r.foldl (fun best q => if q.2 > best.2 then q else best) p)

/-- The `while cumulative_sum_length > 0` walk along `predecessor`; `path` is in
append order (end node first). -/
def walkBack (w : Nat → Int) (pred : Dict Nat) : Nat → Nat → Int → List Nat → Except String (List Nat)
  | 0, _, _, _ => .error "OutOfFuel"
  | k + 1, cur, cum, path =>
    if cum > 0 then
      match List.lookup cur pred with
      | none => .error "KeyError"
      | some p => walkBack w pred k p (cum - w p) (path ++ [p])
    else .ok path

/-- `get_longest_path(weights)` for an explicit weight function. -/
def getLongestPath (g : Graph) (w : Nat → Int) : Except String (List Nat) :=
  match g.topologicalSort with
  | .error e => .error e
  | .ok order =>
    match foldE (relaxNode g w) order (g.getNodes.map (fun n => (n, w n)), []) with
    | .error e => .error e
    | .ok (lpl, pred) =>
      match argmaxFirst lpl with
      | none => .error "ValueError"      -- `max()` of an empty sequence
      | some (start, total) =>
        match walkBack w pred (g.size + 1) start (total - w start) [start] with
        | .error e => .error e
        | .ok path => .ok path.reverse

/-- `get_longest_path()` with `weights=None`. -/
def getLongestPathDefault (g : Graph) : Except String (List Nat) :=
  g.getLongestPath g.defaultWeight

/-! ### Critical-path clauses of `TaskGraph` / `JobGraph` -/

/-- `sum(f(x) for x in path)`. -/
def pathSum (f : Nat → Int) (path : List Nat) : Int := path.foldl (fun a n => a + f n) 0

/-- `TaskGraph.critical_path_runtime` (µs): the weights are the slowest-strategy
runtimes and the same runtimes are summed along the returned path. -/
def criticalPathRuntime (g : Graph) (runtime : Nat → Int) : Except String Int :=
  match g.getLongestPath runtime with
  | .error e => .error e
  | .ok path => .ok (pathSum runtime path)

/-- `JobGraph.critical_path_runtime` and `JobGraph.__get_completion_time` (µs): the
path is chosen with weight `runtime` for jobs with `probability > ε` (`live`) and
`0` for the others, then `cost` is summed along it (`cost = runtime` for
`critical_path_runtime`; `cost = slo if slo is valid else runtime` for
`completion_time`). -/
def jobPathCost (g : Graph) (runtime : Nat → Int) (live : Nat → Bool) (cost : Nat → Int) :
    Except String Int :=
  match g.getLongestPath (fun n => if live n then runtime n else 0) with
  | .error e => .error e
  | .ok path => .ok (pathSum cost path)

/-- `TaskGraph.is_source_task`: no parents, or exactly one parent that is the same
task of the previous timestamp (`prev parent task`). -/
def isSourceTask (g : Graph) (prev : Nat → Nat → Bool) (n : Nat) : Except String Bool :=
  match g.getParents n with
  | .error e => .error e
  | .ok [] => .ok true
  | .ok [p] => .ok (prev p n)
  | .ok _ => .ok false

/-- `TaskGraph.is_sink_task`: no children, or exactly one child that is the same
task of the next timestamp (`next child task`). -/
def isSinkTask (g : Graph) (next : Nat → Nat → Bool) (n : Nat) : Except String Bool :=
  match g.getChildren n with
  | .error e => .error e
  | .ok [] => .ok true
  | .ok [c] => .ok (next c n)
  | .ok _ => .ok false

end Graph
end ErdosVerif.Model
