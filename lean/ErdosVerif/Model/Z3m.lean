/-
M11 (part 4): what `schedulers/z3_scheduler.py` (`Z3Scheduler`, `TaskOptimizerVariables`)
hands to `z3.Optimize` for one invocation, and how the solver's model is read back.

Part 1 is a small constraint language — exactly the fragment of z3 the scheduler uses:
integer terms (literal, constant, n-ary `+`, `-`, `ite` on a Boolean constant), bit-vector
terms (constant of a width, literal, `extract`, `bvxor`), Boolean terms (`and`/`or` n-ary,
`not`, `=>`, `=` on Booleans, `<= >= <` and `=` on integers, `=` / `distinct` on
bit-vectors), hard assertions, weighted soft assertions, one `maximize` objective, and
`sat σ`.  Bit-vectors are little-endian `List Bool` of the declared width.

Part 2 is the instance (`Inst`: what the model-building code reads), `gen inst` mirroring
assertion by assertion `_add_variables` → `TaskOptimizerVariables.__init__` →
`_initialize_timing_constraints` / `_initialize_placement_constraints` /
`_initialize_resource_constraints`, `_add_task_dependency_constraints`,
`_add_resource_constraints`, `_add_objective`; `Inst.crash` (the `Z3Exception` outcomes);
`decode` / `decodeFail` mirroring the result loop of `schedule()`.

Quirks kept on purpose (docs/planner_z3.md):
* only *offered* tasks exist for the encoding: RUNNING tasks are seen only through the
  reduced *available* quantities of their worker (for the whole horizon), SCHEDULED tasks that
  are not re-offered are not seen at all; parents that are not offered impose nothing;
* a task's duration is `task.remaining_time` (slowest strategy for VIRTUAL / RELEASED), its
  demand on a worker is that of the fastest strategy compatible with the worker *now*;
  placements carry no strategy;
* occupancy is the closed interval `[s, s + remaining]` for unrelated tasks
  (`ends_before` is strict) while a child may start at `parent start + remaining`;
* resources are bit positions: width = max *available* quantity over the workers, a worker
  with less gets the top bits set ("phantom task"); two tasks may overlap on a worker only if
  the low `total quantity` bits of *every* entry of the worker are complementary (`xor = 1…1`);
* `Extract(total − 1, 0, ·)` uses the entry's *total* quantity: wider than the bit-vector
  (some of the resource is allocated on the worker with the most of it) → `Z3Exception`;
  a resource type with no available unit anywhere → `BitVec(·, 0)` → `Z3Exception`;
* with 0 available units the allowed pattern is `int("1"*n + "0")` truncated to the width
  (`format(0, "#02b")` has one digit), i.e. `1…10`;
* the overlap definitions are asserted once per worker; the `…_independent_…` constant is
  named by worker *name* and resource *name* (two entries of one name share it);
* `enforce_deadlines=True` makes the deadline a weight-1 soft assertion.

Core Lean only (the driver links this module).
-/
namespace ErdosVerif.Z3m

/-! ## Part 1: the constraint language -/

/-- Little-endian bit-vector; the width is the length. -/
abbrev Bits := List Bool

def ones (w : Nat) : Bits := List.replicate w true
def zeros (w : Nat) : Bits := List.replicate w false

/-- Force a value to width `w` (assignments are total functions, the declaration fixes the width). -/
def fit (w : Nat) (l : Bits) : Bits := (l ++ zeros w).take w

def bxor (a b : Bits) : Bits := List.zipWith (fun x y => x != y) a b

def popcount : Bits → Nat
  | [] => 0
  | b :: l => (if b then 1 else 0) + popcount l

/-- The `w` low bits of `n`. -/
def toBits : Nat → Nat → Bits
  | 0, _ => []
  | w + 1, n => (n % 2 == 1) :: toBits w (n / 2)

def fromBits : Bits → Nat
  | [] => 0
  | b :: l => (if b then 1 else 0) + 2 * fromBits l

inductive BvT (V : Type) where
  | var (v : V) (w : Nat)
  | lit (b : Bits)
  | extract (hi lo : Nat) (a : BvT V)
  | xor (a b : BvT V)
  deriving Repr

inductive IntT (V : Type) where
  | lit (n : Int)
  | var (v : V)
  | add (l : List (IntT V))
  | sub (a b : IntT V)
  | ite (c : V) (a b : IntT V)

inductive BoolT (V : Type) where
  | tt
  | ff
  | var (v : V)
  | not (a : BoolT V)
  | and (l : List (BoolT V))
  | or (l : List (BoolT V))
  | imp (a b : BoolT V)
  | iff (a b : BoolT V)
  | le (a b : IntT V)
  | ge (a b : IntT V)
  | lt (a b : IntT V)
  | eqI (a b : IntT V)
  | eqV (a b : BvT V)
  | neV (a b : BvT V)

/-- A z3 model: one value per constant and sort. -/
structure Assign (V : Type) where
  i : V → Int
  b : V → Bool
  v : V → Bits

variable {V : Type}

def BvT.eval (σ : Assign V) : BvT V → Bits
  | .var v w => fit w (σ.v v)
  | .lit b => b
  | .extract hi lo a => ((a.eval σ).drop lo).take (hi + 1 - lo)
  | .xor a b => bxor (a.eval σ) (b.eval σ)

mutual
def IntT.eval (σ : Assign V) : IntT V → Int
  | .lit n => n
  | .var v => σ.i v
  | .add l => IntT.evalSum σ l
  | .sub a b => a.eval σ - b.eval σ
  | .ite c a b => if σ.b c then a.eval σ else b.eval σ
def IntT.evalSum (σ : Assign V) : List (IntT V) → Int
  | [] => 0
  | a :: l => a.eval σ + IntT.evalSum σ l
end

mutual
def BoolT.eval (σ : Assign V) : BoolT V → Bool
  | .tt => true
  | .ff => false
  | .var v => σ.b v
  | .not a => !a.eval σ
  | .and l => BoolT.evalAll σ l
  | .or l => BoolT.evalAny σ l
  | .imp a b => !a.eval σ || b.eval σ
  | .iff a b => a.eval σ == b.eval σ
  | .le a b => decide (a.eval σ ≤ b.eval σ)
  | .ge a b => decide (a.eval σ ≥ b.eval σ)
  | .lt a b => decide (a.eval σ < b.eval σ)
  | .eqI a b => decide (a.eval σ = b.eval σ)
  | .eqV a b => a.eval σ == b.eval σ
  | .neV a b => !(a.eval σ == b.eval σ)
def BoolT.evalAll (σ : Assign V) : List (BoolT V) → Bool
  | [] => true
  | a :: l => a.eval σ && BoolT.evalAll σ l
def BoolT.evalAny (σ : Assign V) : List (BoolT V) → Bool
  | [] => false
  | a :: l => a.eval σ || BoolT.evalAny σ l
end

/-- What is handed to `z3.Optimize`. -/
structure Model (V : Type) where
  hard : List (BoolT V)
  soft : List (Nat × BoolT V)      -- (weight, assertion), all in the default group
  maximize : IntT V

/-- σ satisfies every hard assertion. -/
def sat (σ : Assign V) (m : Model V) : Prop := ∀ a ∈ m.hard, a.eval σ = true

instance (σ : Assign V) (m : Model V) : Decidable (sat σ m) :=
  inferInstanceAs (Decidable (∀ a ∈ m.hard, a.eval σ = true))

def violated (σ : Assign V) (m : Model V) : List (BoolT V) := m.hard.filter (fun a => !a.eval σ)

def nsum : List Nat → Nat
  | [] => 0
  | a :: as => a + nsum as

/-- Total weight of the soft assertions σ falsifies (the MaxSMT objective z3 minimises first). -/
def softPenalty (σ : Assign V) (m : Model V) : Nat :=
  nsum ((m.soft.filter (fun p => !p.2.eval σ)).map (fun p => p.1))

def objective (σ : Assign V) (m : Model V) : Int := m.maximize.eval σ

/-! ## Part 2: the instance and the generator -/

def DEADLINE_ACHIEVEMENT_WEIGHT : Nat := 10000000
def TASK_SKIP_PENALTY : Int := -2000000000

/-- One entry of a worker's `Resources`: name, total quantity (`__total_resources`) and
currently available quantity (`_resource_vector`). -/
structure ResEntry where
  name : String
  total : Nat
  avail : Nat
  deriving Repr, Inhabited, DecidableEq

structure WorkerI where
  name : String
  pool : String
  res : List ResEntry
  deriving Repr, Inhabited

/-- One `ExecutionStrategy`: runtime in µs, entries of the requirement `(name, quantity)`. -/
structure Strat where
  runtime : Nat
  req : List (String × Nat)
  deriving Repr, Inhabited

inductive TState | virtual | released | scheduled | running | other
  deriving DecidableEq, Repr, Inhabited

/-- An offered task (`tasks_to_be_scheduled`). -/
structure TaskI where
  uniq : String
  graph : String
  state : TState
  release : Int            -- `task.release_time` in µs (−1 = invalid)
  deadline : Int
  remaining0 : Nat         -- `task._remaining_time` (read unless VIRTUAL / RELEASED)
  strats : List Strat
  deriving Repr, Inhabited

/-- A node of a task graph, also tasks that are not offered.  `finish` is specification data
only (the generator never reads it): the expected finish of a RUNNING (`now + remaining`) or
SCHEDULED (`placement time + remaining`) task, −1 otherwise. -/
structure Node where
  uniq : String
  graph : String
  deadline : Int
  finish : Int
  deriving Repr, Inhabited, DecidableEq

/-- Specification data only (the generator never reads it): what a SCHEDULED task that is not
re-offered will occupy. -/
structure Reservation where
  worker : Nat
  res : String
  qty : Nat
  from_ : Int
  to_ : Int
  deriving Repr, Inhabited

structure Inst where
  now : Int
  workers : List WorkerI           -- bit order: worker k ↔ key `2**k`
  tasks : List TaskI
  nodes : List Node
  edges : List (String × String)   -- (parent, child); for one child in `get_parents` order
  enforceDeadlines : Bool
  reserved : List Reservation := []
  deriving Repr, Inhabited

inductive Var where
  | start (t : Nat)
  | placed (t : Nat)
  | worker (t : Nat)
  | res (t : Nat) (r : String)
  | endsBefore (a b : Nat)          -- `a_ends_before_b_starts`
  | overlap (a b : Nat)
  | indep (w e a b : Nat)           -- `{worker}_{resource}_independent_{a}_{b}`, e = entry index
  | penalty
  | slack (g : String)
  | slackSum
  deriving DecidableEq, Repr, Inhabited

/-! ### Accessors -/

def Inst.nT (I : Inst) : Nat := I.tasks.length
def Inst.nW (I : Inst) : Nat := I.workers.length
def Inst.task (I : Inst) (t : Nat) : TaskI := I.tasks.getD t default
def Inst.worker (I : Inst) (w : Nat) : WorkerI := I.workers.getD w default

/-- `Resources.get_available_quantity(Resource(name, "any"))`. -/
def WorkerI.avail (w : WorkerI) (r : String) : Nat :=
  nsum ((w.res.filter (fun e => e.name == r)).map (fun e => e.avail))

/-- `strategy.resources.get_total_quantity(Resource(name, "any"))`. -/
def Strat.qty (s : Strat) (r : String) : Nat :=
  nsum ((s.req.filter (fun p => p.1 == r)).map (fun p => p.2))

/-- `Worker.can_accomodate_strategy` = `Resources.__gt__` on the *available* quantities. -/
def compatible (w : WorkerI) (s : Strat) : Bool :=
  s.req.all (fun p => decide (p.2 ≤ w.avail p.1))

/-- `worker.get_compatible_strategies(task.available_execution_strategies)`. -/
def WorkerI.compat (w : WorkerI) (t : TaskI) : List Strat := t.strats.filter (compatible w)

/-- `get_fastest_strategy`: Python `min(key=runtime)` keeps the first minimum. -/
def fastest : List Strat → Option Strat
  | [] => none
  | s :: l => some (l.foldl (fun best x => if x.runtime < best.runtime then x else best) s)

def slowestRuntime (l : List Strat) : Nat := l.foldl (fun m s => max m s.runtime) 0

/-- `task.remaining_time` in µs. -/
def TaskI.rem (t : TaskI) : Nat :=
  match t.state with
  | .virtual | .released => slowestRuntime t.strats
  | _ => t.remaining0

/-- `resource_types`: names of all entries of all strategies. -/
def TaskI.types (t : TaskI) : List String :=
  (t.strats.flatMap (fun s => s.req.map (fun p => p.1))).eraseDups

def Inst.rem (I : Inst) (t : Nat) : Nat := (I.task t).rem
def Inst.types (I : Inst) (t : Nat) : List String := (I.task t).types

/-- Width of the bit-vector of resource type `r`: the largest available quantity. -/
def Inst.size (I : Inst) (r : String) : Nat := (I.workers.map (fun w => w.avail r)).foldl max 0

/-- Does the task get resource variables (`self._resources is not None`)? -/
def Inst.hasRes (I : Inst) (t : Nat) : Bool := I.workers.any (fun w => !(w.compat (I.task t)).isEmpty)

/-- Quantity of `r` the fastest strategy compatible with worker `w` asks for. -/
def Inst.req (I : Inst) (t w : Nat) (r : String) : Nat :=
  match fastest ((I.worker w).compat (I.task t)) with
  | some s => s.qty r
  | none => 0

/-- `can_be_placed` of `_initialize_resource_constraints`. -/
def Inst.canBePlaced (I : Inst) (t w : Nat) : Bool :=
  (I.types t).all (fun r => !((I.worker w).compat (I.task t)).isEmpty &&
    decide (I.req t w r ≤ (I.worker w).avail r))

/-! ### Graph helpers -/

def Inst.childrenOf (I : Inst) (u : String) : List String :=
  (I.edges.filter (fun e => e.1 == u)).map (fun e => e.2)
def Inst.parentsOf (I : Inst) (u : String) : List String :=
  (I.edges.filter (fun e => e.2 == u)).map (fun e => e.1)

def Inst.desc (I : Inst) : Nat → String → List String
  | 0, _ => []
  | k + 1, u => let cs := I.childrenOf u; cs ++ cs.flatMap (I.desc k)

def Inst.reach (I : Inst) (a b : String) : Bool := (I.desc I.nodes.length a).contains b

/-- Same graph and `TaskGraph.are_dependent` (ancestor / descendant). -/
def Inst.dependent (I : Inst) (t1 t2 : Nat) : Bool :=
  let a := I.task t1; let b := I.task t2
  a.graph == b.graph && (I.reach a.uniq b.uniq || I.reach b.uniq a.uniq)

def Inst.idxOf (I : Inst) (u : String) : Option Nat :=
  (List.range I.nT).find? (fun t => (I.task t).uniq == u)

/-- Offered parents of `c`, in `get_parents` order. -/
def Inst.parentVars (I : Inst) (c : Nat) : List Nat :=
  (I.parentsOf (I.task c).uniq).filterMap I.idxOf

/-- `Graph.get_node_depth` (sources have depth 1, otherwise max over parents + 1). -/
def Inst.depth (I : Inst) : Nat → String → Nat
  | 0, _ => 1
  | k + 1, u => match I.parentsOf u with
    | [] => 1
    | ps => (ps.map (I.depth k)).foldl max 0 + 1

def Inst.depthOf (I : Inst) (t : Nat) : Nat := I.depth I.nodes.length (I.task t).uniq

/-- `TaskGraph.deadline`: the largest task deadline of the graph. -/
def Inst.graphDeadline (I : Inst) (g : String) : Int :=
  match (I.nodes.filter (fun n => n.graph == g)).map (fun n => n.deadline) with
  | [] => 0
  | d :: ds => ds.foldl max d

def Inst.graphs (I : Inst) : List String := (I.tasks.map (fun t => t.graph)).eraseDups

/-- The task whose start defines the graph's slack: the first offered task of maximal depth. -/
def Inst.lastTask (I : Inst) (g : String) : Nat :=
  match (List.range I.nT).filter (fun t => (I.task t).graph == g) with
  | [] => 0
  | t :: ts => ts.foldl (fun best x => if I.depthOf x > I.depthOf best then x else best) t

/-! ### Names (the f-strings of the code) -/

def Inst.tname (I : Inst) (t : Nat) : String := (I.task t).uniq

def Inst.varName (I : Inst) : Var → String
  | .start t => s!"{I.tname t}_start"
  | .placed t => s!"{I.tname t}_is_placed"
  | .worker t => s!"{I.tname t}_worker"
  | .res t r => s!"{I.tname t}_{r}"
  | .endsBefore a b => s!"{I.tname a}_ends_before_{I.tname b}_starts"
  | .overlap a b => s!"{I.tname a}_{I.tname b}_overlap"
  | .indep w e a b => s!"{(I.worker w).name}_{((I.worker w).res.getD e default).name}_independent_{I.tname a}_{I.tname b}"
  | .penalty => "TASK_SKIP_PENALTY"
  | .slack g => s!"{g}_slack"
  | .slackSum => "TASK_SLACK_SUM"

/-! ### Terms -/

abbrev B := BoolT Var
abbrev Z := IntT Var
abbrev BV := BvT Var

def Inst.startT (_I : Inst) (t : Nat) : Z := .var (.start t)
def Inst.placedT (_I : Inst) (t : Nat) : B := .var (.placed t)
def Inst.pwT (I : Inst) (t : Nat) : BV := .var (.worker t) I.nW
def Inst.resT (I : Inst) (t : Nat) (r : String) : BV := .var (.res t r) (I.size r)
/-- The dict key of worker `k` as a literal of the worker bit-vector: `2**k`. -/
def Inst.idxLit (I : Inst) (k : Nat) : BV := .lit (toBits I.nW (2 ^ k))
/-- `start + remaining` -/
def Inst.endT (I : Inst) (t : Nat) : Z := .add [I.startT t, .lit (I.rem t)]

/-- `(2 ** (n - 1)) >> i for i in range(n + 1)` -/
def Inst.pwVals (I : Inst) : List Bits :=
  (List.range (I.nW + 1)).map (fun i => toBits I.nW (2 ^ (I.nW - 1) >>> i))

/-- Upper bits of an allowed resource pattern: all ones; with no available unit the code
produces `"1"*n + "0"`, truncated to the width. -/
def hiBits (size m : Nat) : Bits := if m = 0 then false :: ones (size - 1) else ones (size - m)

/-- `val in range(2**m)` with `popcount(val) == req`, as `m` bits. -/
def lowCands (m req : Nat) : List Bits :=
  ((List.range (2 ^ m)).map (toBits m)).filter (fun l => popcount l == req)

def allowedLits (size m req : Nat) : List Bits := (lowCands m req).map (fun l => l ++ hiBits size m)

/-! ### Assertions -/

/-- `_initialize_timing_constraints`, hard part. -/
def Inst.cTiming (I : Inst) (t : Nat) : List B :=
  [.and [.ge (I.startT t) (.lit (I.task t).release), .ge (I.startT t) (.lit I.now)]]

/-- `_initialize_timing_constraints`, soft part. -/
def Inst.sTiming (I : Inst) (t : Nat) : List (Nat × B) :=
  let d : B := .le (I.endT t) (.lit (I.task t).deadline)
  if I.enforceDeadlines then [(1, d)]
  else [(DEADLINE_ACHIEVEMENT_WEIGHT, d), (DEADLINE_ACHIEVEMENT_WEIGHT, .iff (I.placedT t) .tt)]

/-- `_initialize_placement_constraints`. -/
def Inst.cPlacement (I : Inst) (t : Nat) : List B :=
  [.or (I.pwVals.map (fun v => .eqV (I.pwT t) (.lit v))),
   .iff (I.placedT t) (.neV (I.pwT t) (.lit (zeros I.nW)))]

/-- `_initialize_resource_constraints`, one worker. -/
def Inst.cResW (I : Inst) (t w : Nat) : List B :=
  if I.canBePlaced t w then
    (I.types t).map (fun r =>
      .imp (.eqV (I.pwT t) (I.idxLit w))
        (.or ((allowedLits (I.size r) ((I.worker w).avail r) (I.req t w r)).map
          (fun l => .eqV (I.resT t r) (.lit l)))))
  else
    [.imp (I.placedT t) (.neV (I.pwT t) (I.idxLit w))]

/-- `TaskOptimizerVariables.__init__`. -/
def Inst.cTask (I : Inst) (t : Nat) : List B :=
  if I.hasRes t then
    I.cTiming t ++ I.cPlacement t ++ (List.range I.nW).flatMap (I.cResW t)
  else [.iff (I.placedT t) .ff]

/-- `_add_task_dependency_constraints`, one task. -/
def Inst.cDeps (I : Inst) (c : Nat) : List B :=
  [.imp (I.placedT c) (.and ((I.parentVars c).map I.placedT)),
   .imp (I.placedT c) (.and ((I.parentVars c).map (fun p => .ge (I.startT c) (I.endT p))))]

/-- `task_resource_dependencies`: pairs that may run in parallel. -/
def Inst.pairs (I : Inst) : List (Nat × Nat) :=
  (List.range I.nT).flatMap (fun i =>
    ((List.range I.nT).filter (fun j => decide (i < j) && I.hasRes i && I.hasRes j && !I.dependent i j)).map
      (fun j => (i, j)))

/-- Entries (with their index) of worker `w` whose name is a resource type of both tasks. -/
def Inst.shared (I : Inst) (w i j : Nat) : List (Nat × ResEntry) :=
  ((List.range (I.worker w).res.length).map (fun e => (e, (I.worker w).res.getD e default))).filter
    (fun p => (I.types i).contains p.2.name && (I.types j).contains p.2.name)

def Inst.cIndep (I : Inst) (w i j : Nat) (p : Nat × ResEntry) : B :=
  .iff (.var (.indep w p.1 i j))
    (.eqV (.xor (.extract (p.2.total - 1) 0 (I.resT i p.2.name)) (.extract (p.2.total - 1) 0 (I.resT j p.2.name)))
      (.lit (ones p.2.total)))

/-- `_add_resource_constraints`: one worker, one pair. -/
def Inst.cPair (I : Inst) (w : Nat) (p : Nat × Nat) : List B :=
  let i := p.1; let j := p.2
  [ .iff (.var (.endsBefore i j)) (.lt (I.endT i) (I.startT j)),
    .iff (.var (.endsBefore j i)) (.lt (I.endT j) (I.startT i)),
    .iff (.var (.overlap i j)) (.not (.or [.var (.endsBefore i j), .var (.endsBefore j i)])) ] ++
  (I.shared w i j).map (I.cIndep w i j) ++
  [ .imp (.and [I.placedT i, I.placedT j, .eqV (I.pwT i) (I.idxLit w), .eqV (I.pwT j) (I.idxLit w),
                .var (.overlap i j)])
      (.and ((I.shared w i j).map (fun q => .var (.indep w q.1 i j)))) ]

def Inst.slackRow (I : Inst) (g : String) : B :=
  let l := I.lastTask g
  .eqI (.var (.slack g)) (.sub (.lit (I.graphDeadline g - (I.rem l : Int))) (I.startT l))

/-- `Sum(total_slack)`; the Python sum of an empty list is the integer 0. -/
def Inst.slackSumT (I : Inst) : Z :=
  if I.nT = 0 then .lit 0
  else .add ((List.range I.nT).map (fun t => .ite (.placed t) (.var (.slack (I.task t).graph)) (.var .penalty)))

/-- `_add_objective` (goal `max_slack`). -/
def Inst.cObjective (I : Inst) : List B :=
  [.eqI (.var .penalty) (.lit TASK_SKIP_PENALTY)] ++ I.graphs.map I.slackRow ++
  [.eqI (.var .slackSum) I.slackSumT]

def Inst.hard (I : Inst) : List B :=
  (List.range I.nT).flatMap I.cTask ++
  (List.range I.nT).flatMap I.cDeps ++
  (List.range I.nW).flatMap (fun w => I.pairs.flatMap (I.cPair w)) ++
  I.cObjective

def Inst.soft (I : Inst) : List (Nat × B) :=
  ((List.range I.nT).filter I.hasRes).flatMap I.sTiming

/-- Everything `schedule()` hands to `z3.Optimize`. -/
def gen (I : Inst) : Model Var := ⟨I.hard, I.soft, .var .slackSum⟩

/-! ### Exceptions raised while building the model -/

/-- `z3.BitVec(name, 0)`: no worker, or a resource type of a task (that some worker can
accommodate) with no available unit on any worker. -/
def Inst.crashWidth (I : Inst) : Bool :=
  (decide (I.nT ≠ 0) && decide (I.nW = 0)) ||
  (List.range I.nT).any (fun t => I.hasRes t && (I.types t).any (fun r => I.size r == 0))

/-- `z3.Extract(total − 1, 0, bv)`: the entry's total quantity is 0 or exceeds the width. -/
def Inst.crashExtract (I : Inst) : Bool :=
  (List.range I.nW).any (fun w => I.pairs.any (fun p =>
    (I.shared w p.1 p.2).any (fun q => q.2.total == 0 || decide (I.size q.2.name < q.2.total))))

/-- `(class, message)` of the exception `schedule()` raises, if any. -/
def Inst.crash (I : Inst) : Option (String × String) :=
  if I.crashWidth then some ("Z3Exception", "bit-vector size must be greater than zero")
  else if I.crashExtract then some ("Z3Exception", "invalid extract application")
  else none

/-! ### Decoding (the result loop of `schedule`) -/

structure Decision where
  task : Nat
  placed : Option (Nat × Int)      -- worker index, start time; z3 reports no strategy
  deriving Repr, DecidableEq

/-- `workers[model[placed_on_worker].as_long()]`: the worker whose key is the value. -/
def Inst.workerOf (I : Inst) (σ : Assign Var) (t : Nat) : Option Nat :=
  (List.range I.nW).find? (fun k => fit I.nW (σ.v (.worker t)) == toBits I.nW (2 ^ k))

/-- One offered task.  (`is_placed` true with a value that is no key would be a `KeyError`;
`C10_Z3.placed_has_worker` shows it cannot happen for a satisfying σ.) -/
def Inst.decodeTask (I : Inst) (σ : Assign Var) (t : Nat) : Decision :=
  if σ.b (.placed t) then ⟨t, (I.workerOf σ t).map (fun k => (k, σ.i (.start t)))⟩ else ⟨t, none⟩

/-- `check() == sat`: one decision per offered task, in `tasks_to_variables` order. -/
def decode (I : Inst) (σ : Assign Var) : List Decision := (List.range I.nT).map (I.decodeTask σ)

/-- Otherwise: every offered task unplaced. -/
def decodeFail (I : Inst) : List Decision := (List.range I.nT).map (fun t => ⟨t, none⟩)

/-! ### Well-formedness (hypotheses of theorems; evaluated by the driver on every instance) -/

/-- Unique names are unique (`tasks_to_variables` is keyed by them). -/
def Inst.wfNames (I : Inst) : Bool :=
  (List.range I.nT).all (fun t => I.idxOf (I.tname t) == some t)

/-- Offered tasks reachable from `a` through parent→child edges between offered tasks. -/
def Inst.descIn (I : Inst) : Nat → Nat → List Nat
  | 0, _ => []
  | k + 1, a =>
    let cs := (List.range I.nT).filter (fun c => (I.parentVars c).contains a)
    cs ++ cs.flatMap (I.descIn k)

/-- Every dependent pair of offered tasks is linked by a chain of offered tasks. -/
def Inst.wfChains (I : Inst) : Bool :=
  (List.range I.nT).all (fun a => (List.range I.nT).all (fun b =>
    !I.dependent a b || (I.descIn I.nT a).contains b || (I.descIn I.nT b).contains a))

/-- No worker has two resource entries of one name. -/
def Inst.wfSingleEntry (I : Inst) : Bool :=
  I.workers.all (fun w => w.res.all (fun e => (w.res.filter (fun e' => e'.name == e.name)).length == 1))

/-- `Resources` invariant: no more available than there is. -/
def Inst.wfAvail (I : Inst) : Bool :=
  I.workers.all (fun w => w.res.all (fun e => decide (e.avail ≤ e.total)))

def Inst.wf (I : Inst) : Bool := I.wfNames && I.wfChains && I.wfSingleEntry && I.wfAvail

end ErdosVerif.Z3m

namespace ErdosVerif.Z3m

/-! ### Specification vocabulary (what the C10 / C11 theorems talk about) -/

/-- Offered tasks that the decision of σ has occupying worker `w` at instant `τ`
(half-open occupancy `[start, start + remaining)`, the simulator's own). -/
def Inst.active (I : Inst) (σ : Assign Var) (w : Nat) (τ : Int) : List Nat :=
  (List.range I.nT).filter (fun t => σ.b (.placed t) && (I.workerOf σ t == some w) &&
    decide (σ.i (.start t) ≤ τ) && decide (τ < σ.i (.start t) + (I.rem t : Int)))

/-- Units of resource `r` in use on worker `w` at instant `τ` by the decided tasks. -/
def Inst.load (I : Inst) (σ : Assign Var) (w : Nat) (r : String) (τ : Int) : Nat :=
  nsum ((I.active σ w τ).map (fun t => I.req t w r))

/-- Units of `r` on worker `w` reserved at `τ` by SCHEDULED tasks that are not part of the call. -/
def Inst.reservedAt (I : Inst) (w : Nat) (r : String) (τ : Int) : Nat :=
  nsum ((I.reserved.filter (fun x => x.worker == w && x.res == r && decide (x.from_ ≤ τ) && decide (τ < x.to_))).map
    (fun x => x.qty))

/-- No offered task has started (non-preemptive `get_schedulable_tasks`). -/
def Inst.wfStates (I : Inst) : Bool :=
  I.tasks.all (fun t => t.state == .virtual || t.state == .released || t.state == .scheduled)

/-- Executable form of `C10_Z3.jointly_feasible` at the start instants of the placed tasks
(loads only change there). -/
def Inst.capacityOK (I : Inst) (σ : Assign Var) : Bool :=
  (List.range I.nW).all (fun w => (I.worker w).res.all (fun e =>
    ((List.range I.nT).filter (fun t => σ.b (.placed t))).all (fun t =>
      decide (I.load σ w e.name (σ.i (.start t)) ≤ e.avail))))

/-- Executable form of the C11 clauses over offered parents. -/
def Inst.precedenceOK (I : Inst) (σ : Assign Var) : Bool :=
  (List.range I.nT).all (fun c => !σ.b (.placed c) || (I.parentVars c).all (fun p =>
    σ.b (.placed p) && decide (σ.i (.start c) ≥ σ.i (.start p) + (I.rem p : Int))))

end ErdosVerif.Z3m
