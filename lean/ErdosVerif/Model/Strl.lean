/-
M12 / C20 — STRL compilation (tetrisched C++ back-end), executable model.

Mirrors, for the node kinds Choose, Allocation, Objective, Min, Max, LessThan,
Scale (uniform granularity, `useOverlapConstraints = false`, no optimisation
pass):

* `ChooseExpression::parse`      (Expression.cpp:513-675)
* `AllocationExpression::parse`  (Expression.cpp:1469-1513)
* `ObjectiveExpression::parse`   (Expression.cpp:1542-1685)
* `LessThanExpression::parse`    (Expression.cpp:1757-1986)
* `MinExpression::parse`         (Expression.cpp:1993-2339)
* `MaxExpression::parse`         (Expression.cpp:2358-2699)
* `ScaleExpression::parse`       (Expression.cpp:2722-2798)
* `CapacityConstraintMap::registerUsageForDuration / registerUsageAtTime`,
  `CapacityConstraint::registerUsage / translate` (CapacityConstraint.cpp:48-235)
* `Expression::populateResults`, `ChooseExpression::populateResults`,
  `ObjectiveExpression::populateResults` (Expression.cpp:297-395, 677-713, 1687-1742)

Quirks kept on purpose (each is exercised by the correspondence suite):
* a variable built with the 2-argument constructor has lower bound 0 and no
  upper bound (SolverModel.cpp:28-32); indicator variables are binary;
* capacity constraints are keyed by the *registration* time `start + k·g`, not
  by a global grid: two leaves whose start times differ modulo the granularity
  never meet in one constraint;
* a `LessThan` over two children whose end / start are compile-time constants
  emits no constraint at all and reports the constant indicator 1;
* a `Min` all of whose children have constant indicators adds the constant 1 to
  its utility; a `Min` with a child that provides no utility still emits its
  variables and the constraints of the other children, then reports NO_UTILITY;
* `Max` never parses its children: it reads the result the root `Objective`
  produced when it parsed all leaves first; children without utility are skipped;
* `populateResults` drops every child whose utility evaluates to 0 and merges
  placements in a map keyed by the task name (later entries overwrite).

Variable identity in the model is structural (`VarId` = position of the emitting
node in the tree + role), exactly like the C++ identity (the `VariablePtr`); the
rendered `name` is only used for the correspondence with the dumped C++ model.
All coefficients are integers (the C++ uses `double`; generators use integral
utilities and scale factors).
-/
namespace ErdosVerif.Strl

/-- Position of a node: child indices from the root, innermost first. -/
abbrev Path := List Nat

inductive Role where
  | placed
  | using (pid : Nat)
  | minInd | minStart | minEnd
  | maxStart | maxEnd | maxInd
  | ltSat
  deriving DecidableEq, Repr

structure VarId where
  path : Path
  role : Role
  deriving DecidableEq, Repr

inductive VType where
  | int | bin
  deriving DecidableEq, Repr

structure Var where
  id : VarId
  name : String
  ty : VType
  lb : Option Int
  ub : Option Int
  deriving Repr, DecidableEq

inductive Op where
  | le | eq | ge
  deriving DecidableEq, Repr

structure Constr where
  name : String
  op : Op
  rhs : Int
  terms : List (Int × VarId)
  deriving Repr, DecidableEq

/-- Objective / utility terms; `none` is a constant term. -/
abbrev UTerms := List (Int × Option VarId)

structure MipModel where
  vars : List Var
  cons : List Constr
  obj : UTerms
  objUb : Option Int
  deriving Repr

structure Partition where
  id : Nat
  name : String
  qty : Nat
  deriving Repr

/-- STRL expressions (trees). -/
inductive Expr where
  | choose (name strategy : String) (parts : List Nat) (n start dur : Nat) (u : Int)
  | alloc (name : String) (allocs : List (Nat × Nat)) (start dur : Nat)
  | obj (name : String) (cs : List Expr)
  | min (name : String) (cs : List Expr)
  | max (name : String) (cs : List Expr)
  | lt (name : String) (a b : Expr)
  | scale (name : String) (f : Int) (disregard : Bool) (c : Expr)
  deriving Repr

def Expr.name : Expr → String
  | .choose n .. => n
  | .alloc n .. => n
  | .obj n _ => n
  | .min n _ => n
  | .max n _ => n
  | .lt n .. => n
  | .scale n .. => n

/-- Compilation context: partitions known to the scheduler, the ids passed as
`availablePartitions`, the current time and the (uniform) granularity. -/
structure Ctx where
  parts : List Partition
  avail : List Nat
  now : Nat
  gran : Nat
  deriving Repr

def Ctx.find (c : Ctx) (pid : Nat) : Option Partition := c.parts.find? (·.id == pid)

/-- A time or an indicator that is either known at compile time or a variable. -/
inductive TV where
  | const (n : Int)
  | var (v : VarId)
  deriving Repr

/-- `ParseResult`. `util = false` is `EXPRESSION_NO_UTILITY`. -/
structure PR where
  util : Bool
  start : TV
  stop : TV
  utility : UTerms
  ub : Option Int
  ind : TV
  deriving Repr

def PR.none : PR := ⟨false, .const 0, .const 0, [], .none, .const 0⟩

/-- One `registerUsageAtTime` call that reached the map. -/
structure Reg where
  pid : Nat
  pname : String
  qty : Nat
  time : Nat
  usage : TV   -- `.var` allocation variable or `.const` fixed allocation
  deriving Repr

structure Out where
  pr : PR
  vars : List Var
  cons : List Constr
  regs : List Reg
  deriving Repr

def uint32Max : Nat := 4294967295

/-- Registration times of `registerUsageForDuration` (static discretisation):
`start, start+g, …` while `< start + dur`. -/
def slotTimes (g start dur : Nat) : List Nat :=
  (List.range ((dur + g - 1) / g)).map (fun k => start + k * g)

def regsFor (ctx : Ctx) (p : Partition) (start dur : Nat) (usage : TV) : List Reg :=
  (slotTimes ctx.gran start dur).map (fun t => ⟨p.id, p.name, p.qty, t, usage⟩)

/-- `resourcePartitions | availablePartitions`, in the order of the Choose's list. -/
def schedulable (ctx : Ctx) (parts : List Nat) : List Partition :=
  parts.filterMap (fun pid => if ctx.avail.contains pid then ctx.find pid else .none)

def chooseVarName (name : String) (start : Nat) (strategy : String) : String :=
  name ++ "_placed_at_" ++ toString start ++ "_for_" ++ strategy

def usingVarName (name : String) (pid start : Nat) : String :=
  name ++ "_using_partition_" ++ toString pid ++ "_at_" ++ toString start

/-- `ChooseExpression::parse`. -/
def compileChoose (ctx : Ctx) (path : Path) (name strategy : String) (parts : List Nat)
    (n start dur : Nat) (u : Int) : Out :=
  if ctx.now > start then ⟨PR.none, [], [], []⟩ else
  let sched := schedulable ctx parts
  if sched.isEmpty then ⟨PR.none, [], [], []⟩ else
  let ind : VarId := ⟨path, .placed⟩
  let indVar : Var := ⟨ind, chooseVarName name start strategy, .bin, some 0, .none⟩
  let allocVars : List Var := sched.map (fun p =>
    ⟨⟨path, .using p.id⟩, usingVarName name p.id start, .int, some 0, some (Int.ofNat (Nat.min p.qty n))⟩)
  let demand : Constr :=
    ⟨name ++ "_fulfills_demand_at_" ++ toString start ++ "_for_" ++ strategy, .eq, 0,
      sched.map (fun p => ((1 : Int), (⟨path, .using p.id⟩ : VarId))) ++ [(-(Int.ofNat n), ind)]⟩
  let regs := sched.flatMap (fun p => regsFor ctx p start dur (.var ⟨path, .using p.id⟩))
  ⟨⟨true, .const start, .const (start + dur), [(u, some ind)], some u, .var ind⟩,
    indVar :: allocVars, [demand], regs⟩

/-- `AllocationExpression::parse`. -/
def compileAlloc (ctx : Ctx) (allocs : List (Nat × Nat)) (start dur : Nat) : Out :=
  let regs := allocs.flatMap (fun (pid, q) =>
    match ctx.find pid with
    | some p => regsFor ctx p start dur (.const q)
    | .none => [])
  ⟨⟨true, .const start, .const (start + dur), [(0, .none)], some 0, .const 1⟩, [], [], regs⟩

/-- `constraint->addTerm(coefficient, XOrVariable)`: a variable becomes a term, a
constant is moved to the right-hand side. Returns (terms, rhs delta). -/
def tvTerm (coef : Int) : TV → List (Int × VarId) × Int
  | .var v => ([(coef, v)], 0)
  | .const c => ([], -(coef * c))

def addUb : Option Int → Option Int → Option Int
  | some a, some b => some (a + b)
  | _, _ => .none

/-- Accumulator of the per-child loop of `MinExpression::parse`. -/
structure MinAcc where
  indTerms : List (Int × VarId) := []
  count : Nat := 0
  cons : List Constr := []
  utility : UTerms := []

/-- An indicator as a term of an "all of them" row: a variable counts, a constant does not. -/
def indTermOf : TV → List (Int × VarId) × Nat
  | .var v => ([(1, v)], 1)
  | .const _ => ([], 0)

def minStep (name : String) (minStart minEnd : VarId) (acc : MinAcc) (childName : String) (r : PR) : MinAcc :=
  if !r.util then acc else
  let it := indTermOf r.ind
  let st := tvTerm 1 r.start
  let et := tvTerm 1 r.stop
  let c1 : Constr := ⟨name ++ "_min_start_time_constr_child_" ++ childName, .ge, 0 + st.2, st.1 ++ [(-1, minStart)]⟩
  let c2 : Constr := ⟨name ++ "_min_end_time_constr_child_" ++ childName, .le, 0 + et.2, et.1 ++ [(-1, minEnd)]⟩
  { indTerms := acc.indTerms ++ it.1, count := acc.count + it.2,
    cons := acc.cons ++ [c1, c2], utility := acc.utility ++ r.utility }

/-- The per-child loop of `MinExpression::parse`. -/
def minAcc (path : Path) (name : String) (children : List (String × PR)) : MinAcc :=
  children.foldl (fun a x => minStep name ⟨path, .minStart⟩ ⟨path, .minEnd⟩ a x.1 x.2) {}

/-- Everything of `MinExpression::parse` after the children have been parsed. -/
def finishMin (path : Path) (name : String) (children : List (String × PR)) : PR × List Var × List Constr :=
  let minInd : VarId := ⟨path, .minInd⟩
  let minStart : VarId := ⟨path, .minStart⟩
  let minEnd : VarId := ⟨path, .minEnd⟩
  let vars : List Var := [⟨minInd, name ++ "_min_indicator", .bin, some 0, .none⟩,
    ⟨minStart, name ++ "_min_start_time", .int, some 0, .none⟩,
    ⟨minEnd, name ++ "_min_end_time", .int, some 0, .none⟩]
  let acc := minAcc path name children
  let allUtil := children.all (fun x => x.2.util)
  let bound := children.foldl (fun b x => addUb b x.2.ub) (some 0)
  if acc.count == 0 then
    let pr : PR := if allUtil then
        ⟨true, .var minStart, .var minEnd, acc.utility ++ [(1, .none)], some 1, .const 1⟩
      else PR.none
    (pr, vars, acc.cons)
  else
    let c : Constr := ⟨name ++ "_min_enforce_all_children", .eq, 0,
      acc.indTerms ++ [(-(Int.ofNat acc.count), minInd)]⟩
    let pr : PR := if allUtil then
        ⟨true, .var minStart, .var minEnd, acc.utility, bound, .var minInd⟩
      else PR.none
    (pr, vars, acc.cons ++ [c])

/-- Accumulator of the per-child loop of `MaxExpression::parse`. -/
structure MaxAcc where
  sub : List (Int × VarId) := []
  subRhs : Int := 0
  st : List (Int × VarId) := []
  stRhs : Int := 0
  en : List (Int × VarId) := []
  enRhs : Int := 0
  sLo : Int := uint32Max
  sHi : Int := 0
  eHi : Int := 0
  any : Bool := false
  utility : UTerms := []
  ub : Option Int := some 0

def tvConst : TV → Int
  | .const c => c
  | .var _ => 0

/-- Children of a `Max` are leaves with constant times (Choose) in this fragment. -/
def maxStep (acc : MaxAcc) (r : PR) : MaxAcc :=
  if !r.util then acc else
  let s := tvConst r.start
  let e := tvConst r.stop
  let subT := tvTerm 1 r.ind
  let stT := tvTerm s r.ind
  let enT := tvTerm e r.ind
  { sub := acc.sub ++ subT.1, subRhs := acc.subRhs + subT.2,
    st := acc.st ++ stT.1, stRhs := acc.stRhs + stT.2,
    en := acc.en ++ enT.1, enRhs := acc.enRhs + enT.2,
    sLo := if s < acc.sLo then s else acc.sLo,
    sHi := if s > acc.sHi then s else acc.sHi,
    eHi := if e > acc.eHi then e else acc.eHi,
    any := true,
    utility := acc.utility ++ r.utility,
    ub := match acc.ub, r.ub with
      | some a, some b => some (if a < b then b else a)
      | _, _ => .none }

def finishMax (path : Path) (name : String) (children : List PR) : PR × List Var × List Constr :=
  let maxStart : VarId := ⟨path, .maxStart⟩
  let maxEnd : VarId := ⟨path, .maxEnd⟩
  let maxInd : VarId := ⟨path, .maxInd⟩
  let acc := children.foldl maxStep {}
  let vars : List Var := [⟨maxStart, name ++ "_max_start_time", .int, some (-acc.sLo), some acc.sHi⟩,
    ⟨maxEnd, name ++ "_max_end_time", .int, some 0, some acc.eHi⟩,
    ⟨maxInd, name ++ "_max_indicator", .bin, some 0, .none⟩]
  let cS : Constr := ⟨name ++ "_max_start_time_constr", .ge, acc.stRhs - acc.sLo,
    acc.st ++ [(-acc.sLo, maxInd), (-1, maxStart)]⟩
  let cE : Constr := ⟨name ++ "_max_end_time_constr", .le, acc.enRhs, acc.en ++ [(-1, maxEnd)]⟩
  let cC : Constr := ⟨name ++ "_max_child_subexpr_constr", .eq, acc.subRhs, acc.sub ++ [(-1, maxInd)]⟩
  (⟨true, .var maxStart, .var maxEnd, acc.utility, acc.ub, .var maxInd⟩, vars, [cS, cE, cC])

def isConst : TV → Bool
  | .const _ => true
  | .var _ => false

def finishLt (path : Path) (name : String) (a b : PR) : PR × List Var × List Constr :=
  if !(a.util && b.util) then (PR.none, [], []) else
  let utility := a.utility ++ b.utility
  let ub := addUb a.ub b.ub
  if isConst a.stop && isConst b.start then
    if tvConst a.stop ≤ tvConst b.start then
      (⟨true, a.start, b.stop, utility, ub, .const 1⟩, [], [])
    else (PR.none, [], [])
  else
    let sat : VarId := ⟨path, .ltSat⟩
    let ia := indTermOf a.ind
    let ib := indTermOf b.ind
    let cI : Constr := ⟨name ++ "_less_than_indicator_constraint", .eq, 0,
      ia.1 ++ ib.1 ++ [(-(Int.ofNat (ia.2 + ib.2)), sat)]⟩
    let t1 := tvTerm 1 a.stop
    let t2 := tvTerm (-1) b.start
    let cH : Constr := ⟨name ++ "_happens_before_constraint", .le, 0 + t1.2 + t2.2, t1.1 ++ t2.1⟩
    (⟨true, a.start, b.stop, utility, ub, .var sat⟩,
      [⟨sat, name ++ "_is_satisfied", .bin, some 0, .none⟩], [cI, cH])

def finishScale (f : Int) (disregard : Bool) (c : PR) : PR :=
  if !c.util then PR.none else
  if disregard then
    let utility : UTerms := match c.ind with
      | .var v => [(f, some v)]
      | .const k => [(f * k, .none)]
    ⟨true, c.start, c.stop, utility, some f, c.ind⟩
  else
    ⟨true, c.start, c.stop, c.utility.map (fun (k, v) => (k * f, v)), c.ub.map (· * f), c.ind⟩

mutual
/-- `parse` of the subtree at `path` (the Objective node is handled by `compile`). -/
def compileNode (ctx : Ctx) (path : Path) : Expr → Out
  | .choose name strategy parts n start dur u => compileChoose ctx path name strategy parts n start dur u
  | .alloc _ allocs start dur => compileAlloc ctx allocs start dur
  | .obj _ cs =>
    -- nested objectives are not part of the modelled fragment (see `wf`)
    let outs := compileList ctx path 0 cs
    ⟨PR.none, outs.flatMap (·.2.vars), outs.flatMap (·.2.cons), outs.flatMap (·.2.regs)⟩
  | .min name cs =>
    let outs := compileList ctx path 0 cs
    let fm := finishMin path name (outs.map (fun x => (x.1, x.2.pr)))
    ⟨fm.1, fm.2.1 ++ outs.flatMap (·.2.vars), outs.flatMap (·.2.cons) ++ fm.2.2, outs.flatMap (·.2.regs)⟩
  | .max name cs =>
    let outs := compileList ctx path 0 cs
    let fm := finishMax path name (outs.map (·.2.pr))
    ⟨fm.1, fm.2.1 ++ outs.flatMap (·.2.vars), outs.flatMap (·.2.cons) ++ fm.2.2, outs.flatMap (·.2.regs)⟩
  | .lt name a b =>
    let oa := compileNode ctx (0 :: path) a
    let ob := compileNode ctx (1 :: path) b
    let fl := finishLt path name oa.pr ob.pr
    ⟨fl.1, oa.vars ++ ob.vars ++ fl.2.1, oa.cons ++ ob.cons ++ fl.2.2, oa.regs ++ ob.regs⟩
  | .scale _ f d c =>
    let oc := compileNode ctx (0 :: path) c
    ⟨finishScale f d oc.pr, oc.vars, oc.cons, oc.regs⟩
def compileList (ctx : Ctx) (path : Path) (i : Nat) : List Expr → List (String × Out)
  | [] => []
  | e :: es => (e.name, compileNode ctx (i :: path) e) :: compileList ctx path (i + 1) es
end

/-! ### Capacity constraints -/

def Reg.key (r : Reg) : Nat × Nat := (r.pid, r.time)

/-- Keys in first-registration order. -/
def capKeys (regs : List Reg) : List (Nat × Nat) := (regs.map Reg.key).eraseDups

/-- The term a registration contributes to its capacity constraint (variable usage). -/
def Reg.varTerm (r : Reg) : Option (Int × VarId) :=
  match r.usage with
  | .var v => some (1, v)
  | .const _ => .none

/-- The constant a registration moves to the right-hand side (fixed usage). -/
def Reg.constUse (r : Reg) : Int :=
  match r.usage with
  | .const c => c
  | .var _ => 0

/-- `CapacityConstraint` for one (partition, time) key: the variable usages in
registration order, the partition quantity minus the constant usages. -/
def capConstr (regs : List Reg) (k : Nat × Nat) : Constr :=
  let rs := regs.filter (fun r => r.key == k)
  let qty : Int := match rs.head? with
    | some r => r.qty
    | .none => 0
  let pname := match rs.head? with
    | some r => r.pname
    | .none => ""
  ⟨"CapacityConstraint_" ++ pname ++ "_at_" ++ toString k.2, .le,
    qty - (rs.map Reg.constUse).sum, rs.filterMap Reg.varTerm⟩

def capConstrs (regs : List Reg) : List Constr := (capKeys regs).map (capConstr regs)

/-- `ObjectiveExpression::parse` at the root: children, capacity map, objective. -/
def compile (ctx : Ctx) (root : Expr) : MipModel :=
  match root with
  | .obj _ cs =>
    let outs := compileList ctx [] 0 cs
    let used := outs.filter (fun x => x.2.pr.util)
    let regs := outs.flatMap (·.2.regs)
    { vars := outs.flatMap (·.2.vars),
      cons := outs.flatMap (·.2.cons) ++ capConstrs regs,
      obj := used.flatMap (·.2.pr.utility),
      objUb := used.foldl (fun b x => addUb b x.2.pr.ub) (some 0) }
  | _ => ⟨[], [], [], .none⟩

/-! ### Well-formedness (everything the C++ rejects with an exception) -/

def isLeafChoose : Expr → Bool
  | .choose .. => true
  | _ => false

mutual
/-- Exceptions raised while the tree is being *built* (constructors and
`addChild`), in construction order (children before their parent). -/
def buildErr : Expr → Option String
  | .choose _ _ parts _ _ _ _ =>
    if parts.eraseDups.length != parts.length then some "RuntimeException" else .none
  | .alloc .. => .none
  | .obj _ cs => buildErrList cs
  | .min _ cs => buildErrList cs
  | .max _ cs =>
    match buildErrList cs with
    | some e => some e
    | .none => if !cs.all isLeafChoose then some "ExpressionConstructionException" else .none
  | .lt _ a b =>
    match buildErr a with
    | some e => some e
    | .none => buildErr b
  | .scale _ _ _ c => buildErr c
def buildErrList : List Expr → Option String
  | [] => .none
  | e :: es =>
    match buildErr e with
    | some err => some err
    | .none => buildErrList es
end

mutual
/-- `none` = accepted; `some cls` = the C++ throws `cls` while parsing. -/
def wfNode (ctx : Ctx) (path : Path) : Expr → Option String
  | .choose .. => .none
  | .alloc .. => .none
  | .obj .. => some "unsupported-nested-objective"
  | .min _ cs =>
    if cs.isEmpty then some "ExpressionSolutionException" else wfList ctx path 0 cs
  | .max _ cs =>
    if cs.isEmpty then some "ExpressionSolutionException"
    else if (compileList ctx path 0 cs).any (fun x => x.2.pr.util) then .none
    else some "ExpressionConstructionException"
  | .lt _ a b =>
    match wfNode ctx (0 :: path) a with
    | some e => some e
    | .none => wfNode ctx (1 :: path) b
  | .scale _ _ _ c => wfNode ctx (0 :: path) c
def wfList (ctx : Ctx) (path : Path) (i : Nat) : List Expr → Option String
  | [] => .none
  | e :: es =>
    match wfNode ctx (i :: path) e with
    | some err => some err
    | .none => wfList ctx path (i + 1) es
end

def wf (ctx : Ctx) (e : Expr) : Option String :=
  match buildErr e with
  | some err => some err
  | .none =>
    match e with
    | .obj _ cs => if ctx.gran == 0 then some "zero-granularity" else wfList ctx [] 0 cs
    | _ => some "ExpressionConstructionException"

/-! ### Feasibility of an assignment -/

abbrev Assign := VarId → Int

def evalTerms (σ : Assign) (ts : List (Int × VarId)) : Int :=
  (ts.map (fun (c, v) => c * σ v)).sum

def evalU (σ : Assign) (ts : UTerms) : Int :=
  (ts.map (fun (c, v) => match v with
    | some v => c * σ v
    | .none => c)).sum

def Constr.holds (σ : Assign) (c : Constr) : Bool :=
  match c.op with
  | .le => evalTerms σ c.terms ≤ c.rhs
  | .eq => evalTerms σ c.terms = c.rhs
  | .ge => evalTerms σ c.terms ≥ c.rhs

/-- Bounds as the solver back-ends see them (GurobiSolver.cpp:146-150): a missing
lower bound is 0, a missing upper bound is +∞, indicators are binary. -/
def Var.holds (σ : Assign) (v : Var) : Bool :=
  let x := σ v.id
  (match v.lb with | some l => l ≤ x | .none => 0 ≤ x) &&
  (match v.ub with | some u => x ≤ u | .none => true) &&
  (match v.ty with | .bin => x ≤ 1 | .int => true)

def MipModel.feasible (m : MipModel) (σ : Assign) : Bool :=
  m.vars.all (Var.holds σ) && m.cons.all (Constr.holds σ)

def MipModel.objective (m : MipModel) (σ : Assign) : Int := evalU σ m.obj

/-! ### `populateResults` -/

structure Placement where
  name : String
  start : Int
  stop : Int
  /-- (partition id, time, quantity) -/
  allocs : List (Nat × Int × Int)
  deriving Repr, DecidableEq

/-- `SolutionResult` (without the satisfied-expression names). -/
structure Sol where
  util : Bool
  start : Option Int
  stop : Option Int
  utility : Option Int
  placements : List Placement
  deriving Repr

def Sol.none : Sol := ⟨false, .none, .none, .none, []⟩

def resolveTV (σ : Assign) : TV → Int
  | .const c => c
  | .var v => σ v

/-- `XOrVariableT<Time>::resolve()` converts the solver's `double` to `Time`
(`uint32_t`): a negative value (the start time of an unsatisfied `Max` may go
down to `-min child start`) wraps modulo 2^32 in the compiled code. -/
def wrap32 (x : Int) : Int := x % 4294967296

/-- `solution->placements[name] = placement` on a map keyed by the task name. -/
def mergeP (acc : List Placement) (p : Placement) : List Placement :=
  acc.filter (fun q => q.name != p.name) ++ [p]

/-- The merge loop of `Expression::populateResults`: children whose utility is
exactly 0 are skipped (a child without utility has no value, is not skipped, and
contributes nothing). -/
def mergeChildren (children : List Sol) : List Placement :=
  children.foldl (fun acc s => if s.utility == some 0 then acc else s.placements.foldl mergeP acc) []

/-- Base-class `populateResults` given the node's own parse result. -/
def baseSol (σ : Assign) (pr : PR) (children : List Sol) : Sol :=
  if !pr.util then Sol.none else
  ⟨true, some (wrap32 (resolveTV σ pr.start)), some (wrap32 (resolveTV σ pr.stop)), some (evalU σ pr.utility),
    mergeChildren children⟩

mutual
def populateNode (ctx : Ctx) (σ : Assign) (path : Path) : Expr → Sol
  | .choose name strategy parts n start dur u =>
    let o := compileChoose ctx path name strategy parts n start dur u
    let s := baseSol σ o.pr []
    if !s.util || s.utility == some 0 then s else
    let allocs := (schedulable ctx parts).filterMap (fun p =>
      let x := σ ⟨path, .using p.id⟩
      if x == 0 then .none else some (p.id, (start : Int), x))
    { s with placements := [⟨name, start, start + dur, allocs⟩] }
  | .alloc _ allocs start dur => baseSol σ (compileAlloc ctx allocs start dur).pr []
  | .obj _ _ => Sol.none
  | .min name cs =>
    baseSol σ (compileNode ctx path (.min name cs)).pr (populateList ctx σ path 0 cs)
  | .max name cs =>
    baseSol σ (compileNode ctx path (.max name cs)).pr (populateList ctx σ path 0 cs)
  | .lt name a b =>
    baseSol σ (compileNode ctx path (.lt name a b)).pr
      [populateNode ctx σ (0 :: path) a, populateNode ctx σ (1 :: path) b]
  | .scale name f d c =>
    baseSol σ (compileNode ctx path (.scale name f d c)).pr [populateNode ctx σ (0 :: path) c]
def populateList (ctx : Ctx) (σ : Assign) (path : Path) (i : Nat) : List Expr → List Sol
  | [] => []
  | e :: es => populateNode ctx σ (i :: path) e :: populateList ctx σ path (i + 1) es
end

/-- `ObjectiveExpression::populateResults` at the root. -/
def populate (ctx : Ctx) (σ : Assign) (root : Expr) : Sol :=
  match root with
  | .obj _ cs =>
    let children := populateList ctx σ [] 0 cs
    let utility := (compile ctx root).objective σ
    let pls := mergeChildren children
    if utility == 0 then ⟨true, some 0, some uint32Max, some 0, pls⟩ else
    let live := children.filter (fun s => s.util && s.utility != some 0)
    let st := live.foldl (fun m s => match s.start with
      | some x => if x < m then x else m
      | .none => m) (uint32Max : Int)
    let en := live.foldl (fun m s => match s.stop with
      | some x => if x > m then x else m
      | .none => m) (0 : Int)
    ⟨true, some st, some en, some utility, pls⟩
  | _ => Sol.none

end ErdosVerif.Strl
