/-
M1 — executable model of `utils.EventTime` (/repo/utils.py:35-176).

Python behaviours reproduced (each is exercised by the "time" correspondence suite):

* `Unit` is an enum with values `US = 1`, `MS = 1e3`, `S = 1e6`; `Unit.__lt__` is
  `self.value < other.value`; `Unit.to(other)` is the *float* `self.value / other.value`.
* `to(unit)` raises `ValueError` iff `unit > self.unit` (coarsening is refused) and
  otherwise returns `EventTime(int(self.time * self.unit.to(unit)), unit)`.
  `self.time * <float>` first converts the Python `int` to a double (round to nearest,
  ties to even; `OverflowError` when it does not fit) and then multiplies in double
  arithmetic (one more rounding; an infinite product makes `int()` raise
  `OverflowError`). The factor is always one of `1.0`, `1000.0`, `1000000.0`, so the
  exact product is an integer and `int()` never truncates. The model computes this
  with exact integers: `rnd53` is "round an integer to the nearest double".
  No `Float` is used; below 2^53 `rnd53` is the identity (`rnd53_of_small`).
* `a + b`: same unit → plain integer addition; otherwise the coarser operand is
  converted with `to` to the finer unit and the result carries the finer unit.
* `a - b` is `a + EventTime(-b.time, b.unit)`; `a == b` is `(a - b).time == 0`;
  `a < b` is `(a - b).time < 0`; `<=`, `>`, `>=` come from `functools.total_ordering`
  (`a <= b` is `a < b or a == b`, `a > b` is `not a < b and a != b`, `a >= b` is
  `not a < b`); `!=` is the default `not ==`.
* `__hash__` is `self.to(US).time`; `__mul__` by an `int` multiplies `time`;
  `is_invalid()` is `time == -1` (whatever the unit); `zero()` is `0 µs`,
  `invalid()` is the ordinary value `-1 µs`.
* Not modelled: `fuzz` (random draw, input of other models), `to_unchecked`
  (returns a float pair, unused in /repo), `__str__`/`__repr__`.

Exceptions are outcomes: `Except String _` with the Python class name.
-/
namespace ErdosVerif.Model.Time

/-- `EventTime.Unit`. -/
inductive TUnit where
  | US | MS | S
  deriving DecidableEq, Repr, Inhabited

/-- Microseconds per unit (`Unit.value`; `1`, `1e3`, `1e6`). -/
def TUnit.factor : TUnit → Int
  | .US => 1
  | .MS => 1000
  | .S => 1000000

/-- `Unit.__lt__`: `self.value < other.value`. -/
def TUnit.lt (u v : TUnit) : Bool := decide (u.factor < v.factor)

/-- `u > v` as derived by `total_ordering` from `__lt__` and (identity) `__eq__`:
`not (u < v) and u != v`. -/
def TUnit.gt (u v : TUnit) : Bool := !(u.lt v) && decide (u ≠ v)

def TUnit.name : TUnit → String
  | .US => "US"
  | .MS => "MS"
  | .S => "S"

def TUnit.ofName? : String → Option TUnit
  | "US" => some .US
  | "MS" => some .MS
  | "S" => some .S
  | _ => none

/-- The units as the generated table prints them (name, µs per unit). -/
def unitTable : List (String × Nat) :=
  [TUnit.US, TUnit.MS, TUnit.S].map fun u => (u.name, u.factor.toNat)

/-- An `EventTime` instance: `_time` (a Python `int`) and `_unit`. -/
structure EventTime where
  time : Int
  unit : TUnit
  deriving DecidableEq, Repr, Inhabited

/-- The exact value in microseconds (specification function, not code of /repo). -/
def EventTime.toUs (a : EventTime) : Int := a.time * a.unit.factor

/-- Round a natural number to the nearest IEEE-754 double (53 bit significand,
round-half-to-even). The result is again a natural number; no exponent limit here. -/
def rndNat (m : Nat) : Nat :=
  if m < 2 ^ 53 then m
  else
    let s := m.log2 + 1 - 53        -- number of low bits that do not fit
    let q := m >>> s
    let r := m % 2 ^ s
    let half := 2 ^ (s - 1)
    let q' := if half < r ∨ (r = half ∧ q % 2 = 1) then q + 1 else q
    q' <<< s

/-- Round an integer to the nearest double (symmetric). -/
def rnd53 (x : Int) : Int :=
  if x < 0 then -(rndNat x.natAbs : Int) else (rndNat x.natAbs : Int)

/-- Doubles are finite below 2^1024 (`float(int)` and `int(float)` raise `OverflowError`
beyond): a natural number is below 2^1024 iff its `log2` is below 1024. -/
def finiteDouble (m : Nat) : Bool := decide (m.log2 < 1024)

/-- `int -> float` (PyLong_AsDouble): rounded value or `OverflowError`. -/
def toDouble (x : Int) : Except String Int :=
  let r := rnd53 x
  if finiteDouble r.natAbs then .ok r else .error "OverflowError"

/-- `int(time * factor)` for a float `factor` that is an exactly representable
positive integer. -/
def mulFloat (time factor : Int) : Except String Int := do
  let t ← toDouble time
  toDouble (t * factor)

/-- `EventTime.to`. -/
def EventTime.to (a : EventTime) (u : TUnit) : Except String EventTime :=
  if u.gt a.unit then .error "ValueError"
  else do
    let t ← mulFloat a.time (a.unit.factor / u.factor)
    .ok ⟨t, u⟩

/-- `EventTime.__add__`. -/
def EventTime.add (a b : EventTime) : Except String EventTime :=
  if a.unit = b.unit then .ok ⟨a.time + b.time, a.unit⟩
  else if a.unit.lt b.unit then do
    let b' ← b.to a.unit
    .ok ⟨a.time + b'.time, a.unit⟩
  else do
    let a' ← a.to b.unit
    .ok ⟨a'.time + b.time, b.unit⟩

/-- `EventTime.__sub__`: `self + EventTime(-other.time, other.unit)`. -/
def EventTime.sub (a b : EventTime) : Except String EventTime :=
  a.add ⟨-b.time, b.unit⟩

/-- `EventTime.__eq__`: `(self - other).time == 0`. -/
def EventTime.eq (a b : EventTime) : Except String Bool := do
  let d ← a.sub b
  .ok (d.time == 0)

/-- `EventTime.__lt__`: `(self - other).time < 0`. -/
def EventTime.lt (a b : EventTime) : Except String Bool := do
  let d ← a.sub b
  .ok (decide (d.time < 0))

/-- default `__ne__`: `not (self == other)`. -/
def EventTime.ne (a b : EventTime) : Except String Bool := do
  let e ← a.eq b
  .ok (!e)

/-- `total_ordering` `__le__`: `self < other or self == other`. -/
def EventTime.le (a b : EventTime) : Except String Bool := do
  let l ← a.lt b
  if l then .ok true else a.eq b

/-- `total_ordering` `__gt__`: `not (self < other) and self != other`. -/
def EventTime.gt (a b : EventTime) : Except String Bool := do
  let l ← a.lt b
  if l then .ok false else a.ne b

/-- `total_ordering` `__ge__`: `not (self < other)`. -/
def EventTime.ge (a b : EventTime) : Except String Bool := do
  let l ← a.lt b
  .ok (!l)

/-- `EventTime.__hash__`: `self.to(US).time`. -/
def EventTime.hash (a : EventTime) : Except String Int := do
  let a' ← a.to .US
  .ok a'.time

/-- `EventTime.__mul__` with an `int`. -/
def EventTime.mul (a : EventTime) (k : Int) : EventTime := ⟨a.time * k, a.unit⟩

/-- `EventTime.is_invalid`. -/
def EventTime.isInvalid (a : EventTime) : Bool := a.time == -1

/-- `EventTime.zero()`. -/
def EventTime.zero : EventTime := ⟨0, .US⟩

/-- `EventTime.invalid()`. -/
def EventTime.invalid : EventTime := ⟨-1, .US⟩

/-- `min(a, b)` of Python on two EventTimes: `b if b < a else a`. -/
def EventTime.min (a b : EventTime) : Except String EventTime := do
  let l ← b.lt a
  .ok (if l then b else a)

/-- `max(a, b)`: `b if b > a else a`. -/
def EventTime.max (a b : EventTime) : Except String EventTime := do
  let g ← b.gt a
  .ok (if g then b else a)

end ErdosVerif.Model.Time
