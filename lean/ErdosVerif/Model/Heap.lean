/-
M2 (first half) — CPython's `heapq` algorithms, exactly, generic over the element
type and a comparison `lt : α → α → Bool` (the only operator `heapq` uses, `x < y`).

Source: CPython 3.12 `Lib/heapq.py` / `Modules/_heapqmodule.c` (the C accelerator is
what `import heapq` gives; it runs the same comparisons in the same order as the
pure-Python version and performs swaps where the Python version moves a hole — with a
pure `lt` the resulting list is identical).

```
def _siftdown(heap, startpos, pos):          # "bubble up towards the root"
    newitem = heap[pos]
    while pos > startpos:
        parentpos = (pos - 1) >> 1
        parent = heap[parentpos]
        if newitem < parent: heap[pos] = parent; pos = parentpos; continue
        break
    heap[pos] = newitem

def _siftup(heap, pos):                      # "bubble the smaller child up to a leaf,
    endpos = len(heap); startpos = pos       #  then _siftdown from there"
    newitem = heap[pos]
    childpos = 2*pos + 1
    while childpos < endpos:
        rightpos = childpos + 1
        if rightpos < endpos and not heap[childpos] < heap[rightpos]: childpos = rightpos
        heap[pos] = heap[childpos]; pos = childpos; childpos = 2*pos + 1
    heap[pos] = newitem
    _siftdown(heap, startpos, pos)

def heappush(heap, item): heap.append(item); _siftdown(heap, 0, len(heap)-1)
def heappop(heap):
    lastelt = heap.pop()                     # IndexError when empty
    if heap: returnitem = heap[0]; heap[0] = lastelt; _siftup(heap, 0); return returnitem
    return lastelt
def heapify(x):
    for i in reversed(range(len(x)//2)): _siftup(x, i)
```

Core Lean only. Interface for reuse:
`heappush lt a x : Array α`, `heappop lt a : Option (α × Array α)` (`none` = `IndexError`),
`heapify lt a : Array α`.
-/
namespace ErdosVerif.Model.Heap

variable {α : Type}

/-- `_siftdown(heap, startpos, pos)`: move `heap[pos]` towards the root while it is
`<` its parent, never above `startpos`. -/
def siftdown (lt : α → α → Bool) (a : Array α) (startpos pos : Nat) : Array α :=
  if h : startpos < pos ∧ pos < a.size then
    let parent := (pos - 1) / 2
    have hp : parent < a.size := by omega
    if lt a[pos] a[parent] then
      siftdown lt (a.swap parent pos hp h.2) startpos parent
    else a
  else a
termination_by pos
decreasing_by omega

/-- Index of the child `_siftup` moves up: the left child unless the right child
exists and `not (left < right)`. Requires `2*pos+1 < a.size`. -/
def smallerChild (lt : α → α → Bool) (a : Array α) (pos : Nat) (h : 2 * pos + 1 < a.size) : Nat :=
  if h2 : 2 * pos + 2 < a.size then
    if lt a[2 * pos + 1] a[2 * pos + 2] then 2 * pos + 1 else 2 * pos + 2
  else 2 * pos + 1

theorem smallerChild_lt_size (lt : α → α → Bool) (a : Array α) (pos : Nat) (h : 2 * pos + 1 < a.size) :
    smallerChild lt a pos h < a.size := by
  unfold smallerChild; split
  · split <;> omega
  · omega

theorem smallerChild_gt (lt : α → α → Bool) (a : Array α) (pos : Nat) (h : 2 * pos + 1 < a.size) :
    pos < smallerChild lt a pos h := by
  unfold smallerChild; split
  · split <;> omega
  · omega

/-- First loop of `_siftup`: the element at `pos` travels down to a leaf, at each level
the smaller child moves up. Returns the array and the leaf position reached. -/
def bubbleToLeaf (lt : α → α → Bool) (a : Array α) (pos : Nat) : Array α × Nat :=
  if h : 2 * pos + 1 < a.size then
    let c := smallerChild lt a pos h
    have hc : c < a.size := smallerChild_lt_size lt a pos h
    have hg : pos < c := smallerChild_gt lt a pos h
    bubbleToLeaf lt (a.swap pos c (by omega) hc) c
  else (a, pos)
termination_by a.size - pos
decreasing_by simp only [Array.size_swap]; omega

/-- `_siftup(heap, pos)`. -/
def siftup (lt : α → α → Bool) (a : Array α) (pos : Nat) : Array α :=
  let r := bubbleToLeaf lt a pos
  siftdown lt r.1 pos r.2

/-- `heapq.heappush`. -/
def heappush (lt : α → α → Bool) (a : Array α) (x : α) : Array α :=
  siftdown lt (a.push x) 0 a.size

/-- `heapq.heappop`; `none` is Python's `IndexError` on an empty list. -/
def heappop (lt : α → α → Bool) (a : Array α) : Option (α × Array α) :=
  if h : 0 < a.size then
    let last := a[a.size - 1]
    let a' := a.pop
    if h' : 0 < a'.size then
      some (a'[0], siftup lt (a'.set 0 last h') 0)
    else some (last, a')
  else none

/-- The `for i in reversed(range(k))` loop of `heapify`: `_siftup` at `k-1, …, 0`. -/
def heapifyLoop (lt : α → α → Bool) (a : Array α) : Nat → Array α
  | 0 => a
  | k + 1 => heapifyLoop lt (siftup lt a k) k

/-- `heapq.heapify`. -/
def heapify (lt : α → α → Bool) (a : Array α) : Array α :=
  heapifyLoop lt a (a.size / 2)

/-- Python's `min(xs)` (first minimum: replace the candidate only when `x < best`). -/
def minFirst (lt : α → α → Bool) : List α → Option α
  | [] => none
  | x :: xs => some (xs.foldl (fun best y => if lt y best then y else best) x)

/-! ### `sorted` / `list.sort` for short lists (CPython 3.12 `listobject.c`, n < 64:
`count_run`, reverse a strictly descending run, then `binarysort` the rest) -/

/-- Length of the strictly descending continuation after `prev`. -/
def runLenDesc (lt : α → α → Bool) (prev : α) : List α → Nat
  | [] => 0
  | x :: xs => if lt x prev then 1 + runLenDesc lt x xs else 0

/-- Length of the non-descending continuation after `prev`. -/
def runLenAsc (lt : α → α → Bool) (prev : α) : List α → Nat
  | [] => 0
  | x :: xs => if lt x prev then 0 else 1 + runLenAsc lt x xs

/-- `count_run`: length of the initial run and whether it is (strictly) descending. -/
def countRun (lt : α → α → Bool) : List α → Nat × Bool
  | [] => (0, false)
  | [_] => (1, false)
  | x0 :: x1 :: rest =>
    if lt x1 x0 then (2 + runLenDesc lt x1 rest, true) else (2 + runLenAsc lt x1 rest, false)

/-- The binary search of `binarysort`: insertion point of `pivot` in the sorted prefix
`a[l..r)`, to the right of elements that are not greater. -/
def bisectRight (lt : α → α → Bool) (a : Array α) (pivot : α) (l r : Nat) : Nat :=
  if h : l < r ∧ r ≤ a.size then
    let p := l + (r - l) / 2
    if lt pivot a[p] then bisectRight lt a pivot l p else bisectRight lt a pivot (p + 1) r
  else l
termination_by r - l
decreasing_by all_goals omega

/-- CPython's sort for lists shorter than 64 (for longer lists timsort merges runs; under a
strict weak order the result is the same unique stable arrangement). -/
def pySorted (lt : α → α → Bool) (l : List α) : List α :=
  let (n, desc) := countRun lt l
  let pre := if desc then (l.take n).reverse else l.take n
  (l.drop n).foldl (fun acc x =>
    let i := bisectRight lt acc.toArray x 0 acc.length
    acc.take i ++ x :: acc.drop i) pre

/-- Pop up to `n` times, collecting what comes out (`[heappop(h) for _ in range(n)]`, stopping
early when the heap is empty). -/
def drain (lt : α → α → Bool) : Nat → Array α → List α
  | 0, _ => []
  | n + 1, a =>
    match heappop lt a with
    | none => []
    | some (x, a') => x :: drain lt n a'

end ErdosVerif.Model.Heap
