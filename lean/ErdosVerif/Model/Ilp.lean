/-
M11 (part 2): the optimisation model that `schedulers/ilp_scheduler.py`
(`ILPScheduler`, Gurobi back-end, non-batching mode) builds for one invocation,
and the decoding of a solver assignment into placements.

`Inst` is what the model-building code reads: the invocation time, the workers
(index order = `workers` dict order 1..n, here 0-based), the tasks that receive
`TaskOptimizerVariables` in `tasks_to_variables` order (offered tasks first, then
`previously_placed_tasks`), the task graphs (nodes + edges, including tasks that
are *not* part of this invocation), the scheduler flags and the scheduler's
persistent `_allowed_to_miss_deadlines` set.

`gen inst : Mip.Model Var` mirrors, constraint for constraint and with the same
names, `_add_variables` → `TaskOptimizerVariables.__init__` /
`_initialize_timing_constraints` / `_initialize_placement_constraints`,
`_add_task_dependency_constraints`, `_add_resource_constraints` / `_overlaps`
and `_add_objective`.  `decode` mirrors `get_placements` + the collection loop
of `schedule()`.

Quirks kept on purpose (see docs/planner_ilp.md):
* a RUNNING task has no variables: its start is the constant `now`, its placement
  "variables" are the constants 0/1, and its occupancy is `[now, now + full runtime
  of the placed strategy]` (not the remaining time);
* starts are `≥ max(now + 1, release)`; a child starts `≥ parent start +
  runtime + 1`; two tasks overlap iff the *closed* intervals `[s, s + r]` meet;
* the all-parents-placed indicator compares the placed parents *that have
  variables* with the number of *all* parents in the graph;
* capacity is charged per task `t₁`: own demand + demand of every task that
  overlaps `t₁` (pairwise, not per instant), on every worker, also workers `t₁`
  is not placed on;
* dependent (ancestor/descendant) pairs get `Overlap = 0` and no indicator rows;
* a SCHEDULED task in non-retracting mode is re-optimised with `Σ x = 1`;
* a SCHEDULED task with an incompatible (worker, strategy) pair crashes the call
  (`Inst.crash`).

Core Lean only (the driver links this module).
-/
import ErdosVerif.Model.Mip
namespace ErdosVerif.Ilp
open ErdosVerif.Mip

/-- One `ExecutionStrategy`: batch size (only used in names), runtime in µs and the
entries of the requirement's resource vector `(resource name, quantity)`. -/
structure Strat where
  batch : Nat
  runtime : Nat
  req : List (String × Nat)
  deriving Repr, Inhabited

inductive TState | virtual | released | scheduled | running | other
  deriving DecidableEq, Repr, Inhabited

structure TaskI where
  uniq : String            -- `task.unique_name` = name@graph
  name : String            -- `task.name`
  ts : Int                 -- `task.timestamp`
  graph : String           -- `task.task_graph`
  state : TState
  release : Int            -- `task.release_time` in µs (−1 when invalid)
  deadline : Int
  strats : List Strat      -- `task.available_execution_strategies`, in order
  prevW : Nat              -- RUNNING only: index of the worker of `current_placement`
  prevS : Nat              -- RUNNING only: index of `current_placement.execution_strategy`
  deriving Repr, Inhabited

structure WorkerI where
  name : String
  pool : String
  res : List (String × Nat)   -- resource entries (name, total quantity), insertion order
  deriving Repr, Inhabited

/-- A node of a task graph (also tasks without variables in this invocation). -/
structure Node where
  uniq : String
  name : String
  ts : Int
  graph : String
  state : TState := .other
  deriving Repr, Inhabited

structure Inst where
  now : Int
  workers : List WorkerI
  tasks : List TaskI
  nOffered : Nat               -- the first `nOffered` tasks are `tasks_to_be_scheduled`
  nodes : List Node
  edges : List (String × String)   -- (parent unique name, child unique name)
  enforceDeadlines : Bool
  retract : Bool
  releaseTaskgraphs : Bool
  goalSlack : Bool             -- false: `max_goodput`, true: `max_slack`
  allowed0 : List String       -- `_allowed_to_miss_deadlines` before the call
  deriving Repr, Inhabited

inductive Var where
  | start (t : Nat)
  | x (t w s : Nat)
  | allParents (t : Nat)
  | overlap (t1 t2 : Nat)
  | after (t1 t2 : Nat)        -- `t1_starts_after_t2_ends`
  | before (t1 t2 : Nat)       -- `t1_ends_before_t2_starts`
  | greward (g : Nat)
  | treward (t : Nat)
  deriving DecidableEq, Repr, Inhabited

/-! ### Accessors -/

def Inst.nT (I : Inst) : Nat := I.tasks.length
def Inst.nW (I : Inst) : Nat := I.workers.length
def Inst.task (I : Inst) (t : Nat) : TaskI := I.tasks.getD t default
def Inst.worker (I : Inst) (w : Nat) : WorkerI := I.workers.getD w default
def TaskI.nS (t : TaskI) : Nat := t.strats.length
def TaskI.strat (t : TaskI) (s : Nat) : Strat := t.strats.getD s default
def TaskI.running (t : TaskI) : Bool := t.state == .running
def Inst.running (I : Inst) (t : Nat) : Bool := (I.task t).running
def Inst.runtime (I : Inst) (t s : Nat) : Int := (((I.task t).strat s).runtime : Nat)

def nsum : List Nat → Nat
  | [] => 0
  | a :: as => a + nsum as

/-- `Resources.get_total_quantity(Resource(name, "any"))`: all entries of that name. -/
def qty (l : List (String × Nat)) (r : String) : Nat :=
  nsum ((l.filter (fun p => p.1 == r)).map (fun p => p.2))

/-- `Resources.get_unique_resource_types()`: names in first-occurrence order. -/
def WorkerI.types (w : WorkerI) : List String := (w.res.map (fun p => p.1)).eraseDups

/-- `deepcopy(worker).get_compatible_strategies`: `Resources.__gt__` on the cleared
worker, entry by entry of the requirement. -/
def compatible (w : WorkerI) (s : Strat) : Bool :=
  s.req.all (fun p => decide (p.2 ≤ qty w.res p.1))

/-! ### Graph helpers -/

def Inst.childrenOf (I : Inst) (u : String) : List String :=
  (I.edges.filter (fun e => e.1 == u)).map (fun e => e.2)
def Inst.parentsOf (I : Inst) (u : String) : List String :=
  (I.edges.filter (fun e => e.2 == u)).map (fun e => e.1)

/-- Strict descendants of `u` by paths of length ≤ fuel. -/
def Inst.desc (I : Inst) : Nat → String → List String
  | 0, _ => []
  | k + 1, u => let cs := I.childrenOf u; cs ++ cs.flatMap (I.desc k)

/-- `TaskGraph.are_dependent` for two tasks of the same graph. -/
def Inst.reach (I : Inst) (a b : String) : Bool := (I.desc I.nodes.length a).contains b

def Inst.dependent (I : Inst) (t1 t2 : Nat) : Bool :=
  let a := I.task t1; let b := I.task t2
  a.graph == b.graph && (I.reach a.uniq b.uniq || I.reach b.uniq a.uniq)

/-- Indices of the tasks *with variables* that are parents of `c`. -/
def Inst.parentVars (I : Inst) (c : Nat) : List Nat :=
  (List.range I.nT).filter (fun p => I.edges.contains ((I.task p).uniq, (I.task c).uniq))

/-- `len(set(task_graph.get_parents(task)))`. -/
def Inst.nParents (I : Inst) (c : Nat) : Nat := ((I.parentsOf (I.task c).uniq).eraseDups).length

def Inst.hasVarName (I : Inst) (u : String) : Bool := I.tasks.any (fun t => t.uniq == u)

/-- `TaskGraph.is_sink_task`. -/
def Inst.isSink (I : Inst) (t : TaskI) : Bool :=
  match I.childrenOf t.uniq with
  | [] => true
  | [c] => match I.nodes.find? (fun n => n.uniq == c) with
    | some n => n.name == t.name && n.ts == t.ts + 1
    | none => false
  | _ => false

def Inst.sourcesPresent (I : Inst) (g : String) : Bool :=
  (I.nodes.filter (fun n => n.graph == g && (I.parentsOf n.uniq).isEmpty)).all
    (fun n => I.hasVarName n.uniq)

/-- `_allowed_to_miss_deadlines` after `_add_variables`. -/
def Inst.allowed (I : Inst) : List String :=
  I.allowed0 ++ (I.tasks.filter (fun t =>
    !(t.state == .scheduled || t.state == .running) && !I.sourcesPresent t.graph)).map (fun t => t.graph)

def Inst.enforce (I : Inst) (t : Nat) : Bool :=
  I.enforceDeadlines && !(I.releaseTaskgraphs && I.allowed.contains (I.task t).graph)

/-! ### Expressions -/

/-- Does the pair (worker, strategy) of task `t` carry a Gurobi variable? -/
def Inst.hasVar (I : Inst) (t w s : Nat) : Bool :=
  !I.running t && compatible (I.worker w) ((I.task t).strat s)

/-- `placed_on_worker_with_strategy(w, s)`: a variable, or the constant 0 / 1. -/
def Inst.xE (I : Inst) (t w s : Nat) : LinExpr Var :=
  if I.running t then
    .ofConst (if w = (I.task t).prevW ∧ s = (I.task t).prevS then 1 else 0)
  else if compatible (I.worker w) ((I.task t).strat s) then .ofVar (.x t w s)
  else .ofConst 0

/-- `start_time`: a variable, or the constant `now` for a RUNNING task. -/
def Inst.startE (I : Inst) (t : Nat) : LinExpr Var :=
  if I.running t then .ofConst I.now else .ofVar (.start t)

/-- All (worker, strategy) keys of task `t` in dict order (worker-major). -/
def Inst.keys (I : Inst) (t : Nat) : List (Nat × Nat) :=
  (List.range I.nW).flatMap (fun w => (List.range (I.task t).nS).map (fun s => (w, s)))

/-- `gp.quicksum(placed_on_workers)`. -/
def Inst.sumX (I : Inst) (t : Nat) : LinExpr Var :=
  LinExpr.sumL ((I.keys t).map (fun k => I.xE t k.1 k.2))

/-- `Σ x[w,s] * runtime(s)` (the "remaining time" expression). -/
def Inst.durE (I : Inst) (t : Nat) : LinExpr Var :=
  LinExpr.sumL ((I.keys t).map (fun k => LinExpr.smul (I.runtime t k.2) (I.xE t k.1 k.2)))

def Inst.nonRunning (I : Inst) : List Nat := (List.range I.nT).filter (fun t => !I.running t)

/-- `TaskOptimizerVariables.__init__` (lines 238-255) seeds `.Start` on *every* value of the
placement dict of a SCHEDULED task; for a (worker, strategy) pair that is not compatible the
value is the int `0`, which has no such attribute: `schedule()` raises `AttributeError`
before any model is solved. -/
def Inst.crash (I : Inst) : Option String :=
  if I.nonRunning.any (fun t => (I.task t).state == .scheduled &&
      (I.keys t).any (fun k => !I.hasVar t k.1 k.2)) then some "AttributeError" else none

/-! ### Well-formedness (hypotheses of the theorems; checked by the driver on every
instance the harness extracts from the real call) -/

/-- A RUNNING task's previous placement names a worker of this invocation and one of the
task's own strategies (otherwise the code raises `ValueError` / misses the dict key), which
that worker can hold; a RUNNING task has no parent with variables (its parents completed). -/
def Inst.wfRunning (I : Inst) : Bool :=
  (List.range I.nT).all (fun t => !I.running t ||
    (decide ((I.task t).prevW < I.nW) && decide ((I.task t).prevS < (I.task t).nS) &&
     compatible (I.worker (I.task t).prevW) ((I.task t).strat (I.task t).prevS) &&
     (I.parentVars t).isEmpty))

/-- No more parents with variables than parents in the graph (true when unique names are
unique: `tasks_to_variables` is keyed by them). -/
def Inst.wfParents (I : Inst) : Bool :=
  (List.range I.nT).all (fun c => decide ((I.parentVars c).length ≤ I.nParents c))

def Inst.wfOffered (I : Inst) : Bool := decide (I.nOffered ≤ I.nT)

/-- Indices of the tasks with variables reachable from `a` through parent→child edges
*between tasks with variables*, by paths of length ≤ fuel. -/
def Inst.descIn (I : Inst) : Nat → Nat → List Nat
  | 0, _ => []
  | k + 1, a =>
    let cs := (List.range I.nT).filter (fun c => (I.parentVars c).contains a)
    cs ++ cs.flatMap (I.descIn k)

/-- Every dependent (ancestor/descendant) pair of tasks with variables is connected by a
chain of tasks with variables (no ancestor "through" a task that is not part of the call). -/
def Inst.wfChains (I : Inst) : Bool :=
  (List.range I.nT).all (fun a => (List.range I.nT).all (fun b =>
    !I.dependent a b || (I.descIn I.nT a).contains b || (I.descIn I.nT b).contains a))

/-- Every task of the workload that is RUNNING or SCHEDULED has variables in this call: RUNNING
and (non-retracting mode) SCHEDULED tasks through `previously_placed_tasks`, and in retracting
mode every SCHEDULED task because `get_schedulable_tasks` re-offers it.  This is what makes
"a predecessor that is already running or scheduled" a predecessor *with variables*, to which
the C11 theorems apply, and what makes the capacity theorem speak about all planned work. -/
def Inst.wfPlaced (I : Inst) : Bool :=
  I.nodes.all (fun n => !(n.state == .scheduled || n.state == .running) || I.hasVarName n.uniq)

def Inst.wf (I : Inst) : Bool :=
  I.wfRunning && I.wfParents && I.wfOffered && I.wfChains && I.wfPlaced

/-! ### Names (identical to the f-strings of the code) -/

def Inst.tname (I : Inst) (t : Nat) : String := (I.task t).uniq
def Inst.xName (I : Inst) (t w s : Nat) : String :=
  s!"{I.tname t}_placed_on_{(I.worker w).name}_with_batch_size_{((I.task t).strat s).batch}_runtime_{((I.task t).strat s).runtime}"

/-- Graph names in order of first appearance among the tasks with variables. -/
def Inst.graphs (I : Inst) : List String := (I.tasks.map (fun t => t.graph)).eraseDups

def Inst.varName (I : Inst) : Var → String
  | .start t => s!"{I.tname t}_start"
  | .x t w s => I.xName t w s
  | .allParents t => s!"{I.tname t}_all_parents_placed"
  | .overlap a b => s!"Overlap[{I.tname a},{I.tname b}]"
  | .after a b => s!"{I.tname a}_starts_after_{I.tname b}_ends"
  | .before a b => s!"{I.tname a}_ends_before_{I.tname b}_starts"
  | .greward g => s!"{I.graphs.getD g ""}_reward"
  | .treward t => s!"{I.tname t}_reward"

/-! ### Constraints -/

/-- `_initialize_timing_constraints`. -/
def Inst.cDeadline (I : Inst) (t : Nat) : List (Constr Var) :=
  if I.enforce t then
    [.lin s!"{I.tname t}_enforce_deadlines" (LinExpr.add (I.startE t) (I.durE t)) .le (I.task t).deadline]
  else []

/-- `_initialize_placement_constraints`. -/
def Inst.cPlacement (I : Inst) (t : Nat) : List (Constr Var) :=
  if (I.task t).state == .scheduled && !I.retract then
    [.lin s!"{I.tname t}_previously_scheduled_required_placement" (I.sumX t) .eq 1]
  else
    [.lin s!"{I.tname t}_consistent_placement" (I.sumX t) .le 1]

/-- The precedence rows of child `c` w.r.t. parent `p`. -/
def Inst.cStartAfter (I : Inst) (c p : Nat) : List (Constr Var) :=
  (I.keys p).map (fun k =>
    .lin s!"{I.tname c}_start_after_{I.tname p}_on_worker_{(I.worker k.1).name}_with_batch_size_{((I.task p).strat k.2).batch}_runtime_{((I.task p).strat k.2).runtime}"
      (LinExpr.sub (I.startE c)
        (LinExpr.add (I.startE p) (LinExpr.smul (I.runtime p k.2 + 1) (I.xE p k.1 k.2))))
      .ge 0)

/-- `Σ_p 1 * quicksum(p.placed_on_workers)`. -/
def Inst.parentExpr (I : Inst) (c : Nat) : LinExpr Var :=
  LinExpr.sumL ((I.parentVars c).map (fun p => LinExpr.smul 1 (I.sumX p)))

/-- `_add_task_dependency_constraints` for one non-RUNNING task. -/
def Inst.cDeps (I : Inst) (c : Nat) : List (Constr Var) :=
  if (I.parentVars c).isEmpty then [] else
    (I.parentVars c).flatMap (I.cStartAfter c) ++
    [ .ind s!"{I.tname c}_parents_placed_False" (.allParents c) 0 (I.parentExpr c) .le ((I.nParents c : Int) - 1),
      .ind s!"{I.tname c}_parents_placed_True" (.allParents c) 1 (I.parentExpr c) .eq (I.nParents c : Int),
      .ind s!"{I.tname c}_placement_False" (.allParents c) 0 (I.sumX c) .eq 0 ]

/-- Ordered pairs of distinct tasks, row-major. -/
def Inst.pairs (I : Inst) : List (Nat × Nat) :=
  (List.range I.nT).flatMap (fun a => ((List.range I.nT).filter (fun b => b != a)).map (fun b => (a, b)))

/-- `task_1.start - task_2.start - Σ x₂ r₂`. -/
def Inst.afterExpr (I : Inst) (a b : Nat) : LinExpr Var :=
  LinExpr.sub (LinExpr.sub (I.startE a) (I.startE b)) (I.durE b)
/-- `task_1.start + Σ x₁ r₁ - task_2.start`. -/
def Inst.beforeExpr (I : Inst) (a b : Nat) : LinExpr Var :=
  LinExpr.sub (LinExpr.add (I.startE a) (I.durE a)) (I.startE b)

/-- Overlap rows for the ordered pair `(a, b)` (`_add_resource_constraints` first half,
`_overlaps`). -/
def Inst.cOverlap (I : Inst) (p : Nat × Nat) : List (Constr Var) :=
  let a := p.1; let b := p.2
  if I.dependent a b then
    [.lin s!"{I.tname a}_no_overlap_{I.tname b}_dependent" (LinExpr.ofVar (.overlap a b)) .eq 0]
  else
    [ .ind s!"{I.tname a}_starts_after_{I.tname b}_ends_False" (.after a b) 0 (I.afterExpr a b) .le 0,
      .ind s!"{I.tname a}_starts_after_{I.tname b}_ends_True" (.after a b) 1 (I.afterExpr a b) .ge 1,
      .ind s!"{I.tname a}_ends_before_{I.tname b}_starts_False" (.before a b) 0 (I.beforeExpr a b) .ge 0,
      .ind s!"{I.tname a}_ends_before_{I.tname b}_starts_True" (.before a b) 1 (I.beforeExpr a b) .le (-1),
      .lin s!"{I.tname a}_overlap_{I.tname b}"
        (LinExpr.add (LinExpr.add (LinExpr.ofVar (.after a b)) (LinExpr.ofVar (.before a b)))
          (LinExpr.ofVar (.overlap a b))) .eq 1 ]

/-- "previously placed, but not on this worker": the task is skipped on `w`. -/
def Inst.skipOn (I : Inst) (t w : Nat) : Bool :=
  I.running t && !(w == (I.task t).prevW && decide ((I.task t).prevS < (I.task t).nS))

/-- Strategies of `t` with a non-zero request for resource `r`. -/
def Inst.stratsNeeding (I : Inst) (t : Nat) (r : String) : List Nat :=
  (List.range (I.task t).nS).filter (fun s => qty ((I.task t).strat s).req r != 0)

def Inst.ownDemand (I : Inst) (t w : Nat) (r : String) : LinExpr Var :=
  LinExpr.sumL ((I.stratsNeeding t r).map (fun s =>
    LinExpr.smul (qty ((I.task t).strat s).req r : Nat) (I.xE t w s)))

def Inst.otherDemand (I : Inst) (t1 t2 w : Nat) (r : String) : QuadExpr Var :=
  QuadExpr.sumQ ((I.stratsNeeding t2 r).map (fun s =>
    QuadExpr.mulVar (LinExpr.smul (qty ((I.task t2).strat s).req r : Nat) (I.xE t2 w s)) (.overlap t1 t2)))

def Inst.others (I : Inst) (t1 w : Nat) : List Nat :=
  (List.range I.nT).filter (fun t2 => t2 != t1 && !I.skipOn t2 w)

def Inst.resExpr (I : Inst) (t1 w : Nat) (r : String) : QuadExpr Var :=
  QuadExpr.add (QuadExpr.ofLin (I.ownDemand t1 w r))
    (QuadExpr.sumQ ((I.others t1 w).map (fun t2 => I.otherDemand t1 t2 w r)))

/-- `_add_resource_constraints` second half, for task `t1`. -/
def Inst.cResource (I : Inst) (t1 : Nat) : List (Constr Var) :=
  ((List.range I.nW).filter (fun w => !I.skipOn t1 w)).flatMap (fun w =>
    (I.worker w).types.map (fun r =>
      .quad s!"{I.tname t1}_{(I.worker w).name}_{r}_constraint" (I.resExpr t1 w r) .le
        (qty (I.worker w).res r : Nat)))

/-- Is task `t` a reward task of its graph (`_add_objective`)? -/
def Inst.isReward (I : Inst) (t : Nat) : Bool :=
  if I.releaseTaskgraphs then I.isSink (I.task t)
  else !(I.childrenOf (I.task t).uniq).any (fun c => I.hasVarName c)

def Inst.rewardTasks (I : Inst) (g : String) : List Nat :=
  (List.range I.nT).filter (fun t => (I.task t).graph == g && I.isReward t)

def Inst.cObjective (I : Inst) : List (Constr Var) :=
  if I.goalSlack then [] else
    (List.range I.graphs.length).flatMap (fun gi =>
      let g := I.graphs.getD gi ""
      (I.rewardTasks g).map (fun t =>
        .lin s!"{I.tname t}_reward_constraint"
          (LinExpr.sub (LinExpr.ofVar (.treward t)) (I.sumX t)) .eq 0) ++
      [.and s!"{g}_reward_constraint" (.greward gi) ((I.rewardTasks g).map Var.treward)])

def Inst.constrs (I : Inst) : List (Constr Var) :=
  I.nonRunning.flatMap (fun t => I.cDeadline t ++ I.cPlacement t) ++
  I.nonRunning.flatMap I.cDeps ++
  I.pairs.flatMap I.cOverlap ++
  (List.range I.nT).flatMap I.cResource ++
  I.cObjective

/-! ### Variables -/

def Inst.startLb (I : Inst) (t : Nat) : Int := max (I.now + 1) (I.task t).release

def binDecl (v : Var) : VarDecl Var := ⟨v, .bin, some 0, some 1⟩

def Inst.taskVars (I : Inst) (t : Nat) : List (VarDecl Var) :=
  ⟨.start t, .int, some (I.startLb t), none⟩ ::
    ((I.keys t).filter (fun k => I.hasVar t k.1 k.2)).map (fun k => binDecl (.x t k.1 k.2))

def Inst.vars (I : Inst) : List (VarDecl Var) :=
  I.nonRunning.flatMap I.taskVars ++
  (I.nonRunning.filter (fun c => !(I.parentVars c).isEmpty)).map (fun c => binDecl (.allParents c)) ++
  I.pairs.map (fun p => binDecl (.overlap p.1 p.2)) ++
  (I.pairs.filter (fun p => !I.dependent p.1 p.2)).flatMap (fun p =>
    [binDecl (.after p.1 p.2), binDecl (.before p.1 p.2)]) ++
  (List.range I.graphs.length).map (fun g => ⟨.greward g, .int, none, none⟩) ++
  (if I.goalSlack then [] else
    (List.range I.graphs.length).flatMap (fun gi =>
      (I.rewardTasks (I.graphs.getD gi "")).map (fun t => binDecl (.treward t))))

/-! ### Objective -/

/-- Product of two linear expressions (only needed for the `max_slack` objective). -/
def mulLin (a b : LinExpr Var) : QuadExpr Var :=
  ⟨a.terms.flatMap (fun p => b.terms.map (fun q => (p.1 * q.1, p.2, q.2))),
   LinExpr.add (LinExpr.add (LinExpr.smul b.const ⟨a.terms, 0⟩) (LinExpr.smul a.const ⟨b.terms, 0⟩))
     (LinExpr.ofConst (a.const * b.const))⟩

def Inst.slackTasks (I : Inst) : List Nat :=
  (List.range I.graphs.length).flatMap (fun gi =>
    (List.range I.nT).filter (fun t => (I.task t).graph == I.graphs.getD gi "" &&
      (I.isSink (I.task t) || !(I.childrenOf (I.task t).uniq).any (fun c => I.hasVarName c))))

def Inst.obj (I : Inst) : QuadExpr Var :=
  if I.goalSlack then
    QuadExpr.sumQ (I.slackTasks.map (fun t =>
      mulLin (I.sumX t) (LinExpr.sub (LinExpr.ofConst (I.task t).deadline) (I.startE t))))
  else
    QuadExpr.ofLin (LinExpr.sumL ((List.range I.graphs.length).map (fun g => LinExpr.ofVar (.greward g))))

/-- The model handed to Gurobi. -/
def gen (I : Inst) : Model Var := ⟨I.vars, I.constrs, I.obj⟩

/-! ### Decoding (`get_placements` + the collection loop of `schedule`) -/

structure Decision where
  task : Nat
  placed : Option (Nat × Nat × Int)   -- worker index, strategy index, start time
  deriving Repr, DecidableEq

/-- One step of the scan over workers: the inner loop over strategies stops at the first
hit (`break`), a later worker overrides an earlier hit. -/
def Inst.scanStep (I : Inst) (σ : Var → Int) (t : Nat) (acc : Option (Nat × Nat)) (w : Nat) :
    Option (Nat × Nat) :=
  match (List.range (I.task t).nS).find? (fun s => I.hasVar t w s && σ (.x t w s) == 1) with
  | some s => some (w, s)
  | none => acc

/-- The scan over workers (outer, last hit wins) and strategies (inner, first hit,
`break`). -/
def Inst.chosen (I : Inst) (σ : Var → Int) (t : Nat) : Option (Nat × Nat) :=
  (List.range I.nW).foldl (I.scanStep σ t) none

def Inst.decodeTask (I : Inst) (σ : Var → Int) (t : Nat) : Decision :=
  ⟨t, (I.chosen σ t).map (fun ws => (ws.1, ws.2, σ (.start t)))⟩

/-- Decisions returned when the solver reports an optimal (or interrupted-with-
incumbent) status: one per task that is not RUNNING, in `tasks_to_variables` order. -/
def decode (I : Inst) (σ : Var → Int) : List Decision := I.nonRunning.map (I.decodeTask σ)

/-- Decisions returned when no solution was found: every offered task unplaced. -/
def decodeFail (I : Inst) : List Decision := (List.range I.nOffered).map (fun t => ⟨t, none⟩)

end ErdosVerif.Ilp
