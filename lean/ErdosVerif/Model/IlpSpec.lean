/-
C14 (ILP): an *independent* specification of what a feasible plan is for one
ILPScheduler invocation, stated directly over the instance (no optimisation
model), in the planner's own time model:

* integer starts `≥ max(now + 1, release)`;
* a task placed at `s` with strategy runtime `r` occupies the closed interval
  `[s, s + r]`; a child starts `≥ parent start + parent runtime + 1`;
* a RUNNING task occupies `[now, now + full runtime of its strategy]` on its worker;
* capacity: at every instant `τ`, on every worker and for every resource type, the
  summed demand of the tasks occupying `τ` is at most the worker's total quantity.

`goodput` counts the task graphs all of whose reward tasks are placed (exactly the
quantity the `max_goodput` objective rewards).  `optGoodput` is an executable
exhaustive search for the maximum goodput over valid plans; `optGoodputPW` is the
same search under the *pairwise* capacity rule and the phantom-start rows the
code actually emits (the faithful semantic reading of `gen inst`).

Core Lean only (the driver links this module).
-/
import ErdosVerif.Model.Ilp
namespace ErdosVerif.IlpSpec
open ErdosVerif.Mip ErdosVerif.Ilp

structure Place where
  w : Nat
  s : Nat
  start : Int
  deriving Repr, DecidableEq, Inhabited

/-- One optional placement per task, aligned with `inst.tasks`. -/
abbrev Plan := List (Option Place)

def Plan.get (p : Plan) (t : Nat) : Option Place := p.getD t none

/-- The fixed entry of a RUNNING task. -/
def runningPlace (I : Inst) (t : Nat) : Place := ⟨(I.task t).prevW, (I.task t).prevS, I.now⟩

/-- Last instant occupied by task `t` under placement `pl` (closed interval). -/
def finish (I : Inst) (t : Nat) (pl : Place) : Int := pl.start + I.runtime t pl.s

def occupies (I : Inst) (t : Nat) (pl : Place) (τ : Int) : Prop := pl.start ≤ τ ∧ τ ≤ finish I t pl

instance (I : Inst) (t : Nat) (pl : Place) (τ : Int) : Decidable (occupies I t pl τ) := by
  unfold occupies; infer_instance

/-- Demand of task `t` for resource `r` on worker `w` at instant `τ`. -/
def demandAt (I : Inst) (plan : Plan) (w : Nat) (r : String) (τ : Int) (t : Nat) : Nat :=
  match plan.get t with
  | some pl => if pl.w = w ∧ occupies I t pl τ then qty ((I.task t).strat pl.s).req r else 0
  | none => 0

def load (I : Inst) (plan : Plan) (w : Nat) (r : String) (τ : Int) : Nat :=
  nsum ((List.range I.nT).map (demandAt I plan w r τ))

/-- The independent specification. -/
structure ValidPlan (I : Inst) (plan : Plan) : Prop where
  len : plan.length = I.nT
  running : ∀ t, t < I.nT → I.running t = true → plan.get t = some (runningPlace I t)
  wf : ∀ t pl, t < I.nT → I.running t = false → plan.get t = some pl →
    pl.w < I.nW ∧ pl.s < (I.task t).nS ∧ compatible (I.worker pl.w) ((I.task t).strat pl.s) = true ∧
    I.startLb t ≤ pl.start
  deadline : ∀ t pl, t < I.nT → I.running t = false → I.enforce t = true → plan.get t = some pl →
    finish I t pl ≤ (I.task t).deadline
  required : ∀ t, t < I.nT → (I.task t).state = .scheduled → I.retract = false → (plan.get t).isSome
  prec : ∀ c plc, c < I.nT → I.running c = false → plan.get c = some plc → ∀ p ∈ I.parentVars c,
    ∃ plp, plan.get p = some plp ∧ finish I p plp + 1 ≤ plc.start
  capacity : ∀ w, w < I.nW → ∀ r τ, load I plan w r τ ≤ qty (I.worker w).res r

/-- Number of graphs whose reward tasks are all placed. -/
def goodput (I : Inst) (plan : Plan) : Nat :=
  ((List.range I.graphs.length).filter (fun gi =>
    (I.rewardTasks (I.graphs.getD gi "")).all (fun t => (plan.get t).isSome))).length

/-- The plan read off an assignment: RUNNING tasks fixed, the others as decoded. -/
def planOf (I : Inst) (σ : Var → Int) : Plan :=
  (List.range I.nT).map (fun t =>
    if I.running t then some (runningPlace I t)
    else (I.chosen σ t).map (fun ws => ⟨ws.1, ws.2, σ (.start t)⟩))

/-! ### Executable checks -/

def placedStarts (I : Inst) (plan : Plan) : List Int :=
  (List.range I.nT).filterMap (fun t => (plan.get t).map (fun pl => pl.start))

/-- Capacity at every instant, checked at the start instants (where the load of a
union of closed intervals attains its maxima). -/
def capacityB (I : Inst) (plan : Plan) : Bool :=
  (List.range I.nW).all (fun w => (I.worker w).types.all (fun r =>
    (placedStarts I plan).all (fun τ => decide (load I plan w r τ ≤ qty (I.worker w).res r))))

def localB (I : Inst) (plan : Plan) (t : Nat) : Bool :=
  if I.running t then plan.get t == some (runningPlace I t) else
  match plan.get t with
  | none => !((I.task t).state == .scheduled && !I.retract)
  | some pl =>
    decide (pl.w < I.nW) && decide (pl.s < (I.task t).nS) &&
    compatible (I.worker pl.w) ((I.task t).strat pl.s) && decide (I.startLb t ≤ pl.start) &&
    (!I.enforce t || decide (finish I t pl ≤ (I.task t).deadline))

def precB (I : Inst) (plan : Plan) (c : Nat) : Bool :=
  if I.running c then true else
  match plan.get c with
  | none => true
  | some plc => (I.parentVars c).all (fun p =>
      match plan.get p with
      | none => false
      | some plp => decide (finish I p plp + 1 ≤ plc.start))

def validPlanB (I : Inst) (plan : Plan) : Bool :=
  plan.length == I.nT && (List.range I.nT).all (fun t => localB I plan t && precB I plan t) &&
  capacityB I plan

/-! ### Pairwise ("as coded") reading -/

def overlapB (I : Inst) (plan : Plan) (a b : Nat) : Bool :=
  match plan.get a, plan.get b with
  | some pa, some pb =>
    !I.dependent a b && decide (pb.start ≤ finish I a pa) && decide (pa.start ≤ finish I b pb)
  | _, _ => false

/-- Pairwise capacity row of task `t1` on worker `w`, resource `r`, for placed tasks only
(an unplaced `t1` still has a start variable and rows, handled in `phantomB`-free form:
its `x` are 0 and the overlap variables are free, so the row can always be met). -/
def pairRowB (I : Inst) (plan : Plan) (t1 w : Nat) (r : String) : Bool :=
  match plan.get t1 with
  | none => true
  | some p1 =>
    if I.skipOn t1 w then true else
    let own := if p1.w = w then qty ((I.task t1).strat p1.s).req r else 0
    let others := nsum (((List.range I.nT).filter (fun t2 => t2 != t1)).map (fun t2 =>
      match plan.get t2 with
      | some p2 => if p2.w = w ∧ overlapB I plan t1 t2 then qty ((I.task t2).strat p2.s).req r else 0
      | none => 0))
    decide (own + others ≤ qty (I.worker w).res r)

def capacityPWB (I : Inst) (plan : Plan) : Bool :=
  (List.range I.nT).all (fun t1 => (List.range I.nW).all (fun w => (I.worker w).types.all (fun r =>
    pairRowB I plan t1 w r)))

/-- Least phantom starts of all tasks (placed tasks keep theirs): `nT` rounds of relaxation
of `s_c ≥ s_p + (p placed ? r_p + 1 : 0)` from `s_c ≥ startLb c`. -/
def phantomStarts (I : Inst) (plan : Plan) : List Int :=
  let init := (List.range I.nT).map (fun t =>
    match plan.get t with
    | some pl => pl.start
    | none => if I.running t then I.now else I.startLb t)
  let step (cur : List Int) : List Int := (List.range I.nT).map (fun c =>
    match plan.get c with
    | some pl => pl.start
    | none =>
      if I.running c then I.now else
      (I.parentVars c).foldl (fun acc p =>
        let sp := cur.getD p 0
        let bound := match plan.get p with
          | some plp => sp + I.runtime p plp.s + 1
          | none => sp
        max acc bound) (cur.getD c 0))
  (List.range I.nT).foldl (fun cur _ => step cur) init

/-- The rows that involve the start variable of an unplaced task can be met. -/
def phantomB (I : Inst) (plan : Plan) : Bool :=
  let st := phantomStarts I plan
  (List.range I.nT).all (fun c =>
    I.running c ||
    ((!I.enforce c || (plan.get c).isSome || decide (st.getD c 0 ≤ (I.task c).deadline)) &&
     (I.parentVars c).all (fun p =>
       let bound := match plan.get p with
         | some plp => st.getD p 0 + I.runtime p plp.s + 1
         | none => st.getD p 0
       decide (bound ≤ st.getD c 0))))

/-- "As coded": child placed ⇒ *all* graph parents have variables and are placed. -/
def allParentsB (I : Inst) (plan : Plan) : Bool :=
  (List.range I.nT).all (fun c =>
    I.running c || (I.parentVars c).isEmpty || (plan.get c).isNone ||
      decide ((I.parentVars c).length = I.nParents c))

def validPlanPWB (I : Inst) (plan : Plan) : Bool :=
  plan.length == I.nT && (List.range I.nT).all (fun t => localB I plan t && precB I plan t) &&
  capacityPWB I plan && phantomB I plan && allParentsB I plan

/-! ### Exhaustive search -/

/-- Latest start worth trying for task `t`: its deadline when enforced, otherwise a bound
below which every valid plan can be compressed. -/
def horizon (I : Inst) : Int :=
  let maxDl := (I.tasks.map (fun t => t.deadline)).foldl max (I.now + 1)
  let maxRel := (I.tasks.map (fun t => t.release)).foldl max (I.now + 1)
  let total := nsum (I.tasks.map (fun t => (t.strats.map (fun s => s.runtime + 1)).foldl max 0))
  max maxDl maxRel + total

def candidates (I : Inst) (t : Nat) : List (Option Place) :=
  if I.running t then [some (runningPlace I t)] else
  none :: (List.range I.nW).flatMap (fun w => (List.range (I.task t).nS).flatMap (fun s =>
    if compatible (I.worker w) ((I.task t).strat s) then
      let lo := I.startLb t
      let hi := if I.enforce t then (I.task t).deadline - I.runtime t s else horizon I
      (List.range (hi - lo + 1).toNat).map (fun (k : Nat) => some ⟨w, s, lo + (k : Int)⟩)
    else []))

def omax : Option Nat → Option Nat → Option Nat
  | none, b => b
  | a, none => a
  | some a, some b => some (max a b)

/-- All plans (cartesian product of the candidates), depth first, keeping the best goodput
among those accepted by `ok`; `none` when no plan is accepted.  `cap` is a monotone
necessary condition (capacity of the tasks assigned so far) used to prune. -/
def search (I : Inst) (cap ok : Plan → Bool) : Nat → Plan → Option Nat
  | 0, acc => let plan := acc.reverse; if ok plan then some (goodput I plan) else none
  | k + 1, acc =>
    let t := I.nT - (k + 1)
    (candidates I t).foldl (fun best c =>
      let acc' := c :: acc
      if c.isSome && !cap (acc'.reverse ++ List.replicate k none) then best
      else omax best (search I cap ok k acc')) none

def optGoodput (I : Inst) : Option Nat := search I (capacityB I) (validPlanB I) I.nT []
def optGoodputPW (I : Inst) : Option Nat := search I (capacityPWB I) (validPlanPWB I) I.nT []

end ErdosVerif.IlpSpec
