import ErdosVerif.Model.TaskGraph
import ErdosVerif.Model.Event
/-
M8 — executable model of `simulator.py: Simulator` (the `simulate` loop and every
event handler), `workload.py: Workload` and the closed-loop part of `JobGraph`.
Core Lean only.

Everything the code obtains from its environment is an explicit input:
* the scheduler is a black box: its decisions (`Placements`) per invocation are a
  tape (`SimS.decisions`), so every theorem about this model holds for *any* policy;
* random draws (`random.choices/choice/random`, `EventTime.fuzz`) are the draw tape;
* wall-clock `true_runtime` is not modelled (masked in the trace).

CSV rows are structured records (lists of strings) with labels instead of uuids:
tasks `g<graph>.t<node>`, pools `p<i>`; resource ids are the ids of the description.

Out of scope (explicit `NotImplementedError` outcome): preemption / migration of
running tasks (`--preemption`), second-level schedulers, `verify_schedule`.
-/
namespace ErdosVerif.Model

/-- Flags and scheduler attributes the simulator reads. -/
structure SimFlags where
  loopTimeout : Int
  schedFrequency : Int := -1
  schedDelay : Int := 0
  dropSkipped : Bool := false
  runAtWorkerFree : Bool := false
  updateInterval : Int := -1
  lookahead : Int := 0
  preemptive : Bool := false
  retract : Bool := false
  policy : BranchPolicy := .random
  releaseTaskGraphs : Bool := false
  deriving Repr

/-- Payload of a queued event. -/
structure SEvent where
  ev : Event
  tid : Option TaskId := none
  placement : Option PlacementS := none
  graph : Option Nat := none
  deriving Repr

def SEvent.lt (a b : SEvent) : Bool := Event.lt a.ev b.ev

/-- Per job graph: what the closed-loop release policy needs. -/
structure JobS where
  name : String
  closedLoop : Bool
  remaining : Int               -- `_remaining_task_graphs`
  index : Nat                   -- `_task_graph_index`
  template : GraphS             -- a pristine instance (states VIRTUAL, no times)
  critical : Int                -- critical-path runtime of an instance (C17's longest path)
  deriving Repr

/-- Per task graph of the workload. -/
structure GraphMeta where
  job : Nat
  timestamp : Nat
  critical : Int
  deriving Repr

/-- One scheduler invocation's answer. -/
structure Decision where
  placements : List PlacementS
  runtime : Int
  /-- the policy raised instead of returning (the exception class is the recorded decision) -/
  raised : Option SErr := none
  deriving Repr

abbrev Row := List String

/- Event type values (checked against the generated table in `Props`). -/
namespace ET
def simulatorStart : Nat := 0
def taskCancel : Nat := 1
def evictProfile : Nat := 2
def taskFinished : Nat := 3
def taskGraphRelease : Nat := 4
def taskRelease : Nat := 5
def updateWorkload : Nat := 6
def taskPreempt : Nat := 7
def taskMigration : Nat := 8
def loadProfile : Nat := 9
def taskPlacement : Nat := 10
def schedulerStart : Nat := 11
def schedulerFinished : Nat := 12
def simulatorEnd : Nat := 13
def logUtilization : Nat := 14
end ET

/-- History entries the proofs are stated over (monotone log). -/
inductive LogE
  | release (t : TaskId) (time : Int)
  | schedule (t : TaskId) (time : Int) (ptime : Int)
  | unschedule (t : TaskId) (time : Int)
  | start (t : TaskId) (time : Int) (remaining : Int) (pool : Nat)
  | finish (t : TaskId) (time : Int)
  | cancel (t : TaskId) (time : Int)
  | place (t : TaskId) (pool : Nat) (time : Int)
  | remove (t : TaskId) (pool : Nat) (time : Int)
  | clock (now : Int)
  | pop (time : Int) (etype : Nat)
  deriving Repr

structure SimS where
  flags : SimFlags
  now : Int := 0
  queue : Array SEvent := #[]
  nextEid : Nat := 0
  jobs : Array JobS
  allGraphs : Array GraphS                -- what the loader will hand over at the first UPDATE_WORKLOAD
  allMeta : Array GraphMeta
  graphs : Array GraphS := #[]            -- `self._workload.task_graphs` (insertion order)
  metas : Array GraphMeta := #[]
  loaderReleased : Bool := false
  pools : Array Pool
  poolNames : Array String
  future : AList TaskId Nat := []         -- `_future_placement_events`: task ↦ event id
  nextSched : Option Nat := none          -- `_next_scheduler_event` (event id)
  lastSchedStart : Int := 0
  lastPlacements : Option Decision := none
  followedUp : List Nat := []      -- `Workload._task_graphs_followed_up` (graph indices)
  finishedTasks : Nat := 0
  cancelledTasks : Nat := 0
  missedTaskDeadlines : Nat := 0
  finishedGraphs : Nat := 0
  missedGraphDeadlines : Nat := 0
  rows : Array Row := #[]
  log : Array LogE := #[]
  tape : List Draw
  decisions : List Decision
  ended : Bool := false
  deriving Repr

abbrev SimM := ExceptT SErr (StateM SimS)

namespace Sim

def maxsize : Int := 9223372036854775807

def gid (t : TaskId) : Nat := t.g * 65536 + t.t
def ungid (n : Nat) : TaskId := ⟨n / 65536, n % 65536⟩

def row (r : Row) : SimM Unit := modify fun s => { s with rows := s.rows.push r }
def logE (e : LogE) : SimM Unit := modify fun s => { s with log := s.log.push e }
def istr (i : Int) : String := toString i
def nstr (n : Nat) : String := toString n
def tlabel (t : TaskId) : String := s!"g{t.g}.t{t.t}"
def plabel (p : Nat) : String := s!"p{p}"
def ridStr : Option Nat → String
  | none => "any"
  | some i => s!"id{i}"

def liftE {α} (e : Except SErr α) : SimM α :=
  match e with
  | .ok a => pure a
  | .error err => throw err

/-- Run a tape computation against the simulator's tape. -/
def liftTape {α} (x : TapeM α) : SimM α := do
  let s ← get
  let (r, tape') := x.runTape s.tape
  set { s with tape := tape' }
  liftE r

def getGraph (gi : Nat) : SimM GraphS := do
  let some g := (← get).graphs[gi]? | throw .keyError
  pure g
def setGraph (gi : Nat) (g : GraphS) : SimM Unit :=
  modify fun s => { s with graphs := s.graphs.setIfInBounds gi g }
def getTask (t : TaskId) : SimM TaskS := do
  let g ← getGraph t.g
  let some x := g.task? t.t | throw .keyError
  pure x
def setTask (t : TaskId) (x : TaskS) : SimM Unit := do
  let g ← getGraph t.g
  setGraph t.g (g.setTask t.t x)
def uniqueName (t : TaskId) : SimM String := do
  let g ← getGraph t.g
  let x ← getTask t
  pure (x.name ++ "@" ++ g.name)

/-- Re-raise the exception of a `Task` API call. -/
def raiseTask : Option SErr → SimM Unit
  | none => pure ()
  | some err => throw err

/-- Apply a `Task` API call other than `start`; an exception aborts the run (state at
the raise point kept). -/
def taskCall (t : TaskId) (c : TaskCall) : SimM Unit := do
  let g ← getGraph t.g
  let some x := g.task? t.t | throw .keyError
  setGraph t.g (g.setTask t.t (x.call c).1)
  raiseTask (x.call c).2

/-- Create an event object (fresh identity). -/
def mkEvent (etype : Nat) (time : Int) (tid : Option TaskId := none) (placement : Option PlacementS := none)
    (graph : Option Nat := none) : SimM SEvent := do
  let s ← get
  let name ← match tid with
    | some t => some <$> uniqueName t
    | none => pure none
  set { s with nextEid := s.nextEid + 1 }
  pure { ev := ⟨s.nextEid, time, etype, name⟩, tid := tid, placement := placement, graph := graph }

def addEvent (e : SEvent) : SimM Unit :=
  modify fun s => { s with queue := Heap.heappush SEvent.lt s.queue e }

def reheapify : SimM Unit := modify fun s => { s with queue := Heap.heapify SEvent.lt s.queue }

/-- `remove_event` (ValueError when absent). -/
def removeEvent (eid : Nat) : SimM Unit := do
  let s ← get
  match s.queue.findIdx? (fun e => e.ev.eid == eid) with
  | none => throw .valueError
  | some i => set { s with queue := Heap.heapify SEvent.lt (s.queue.eraseIdxIfInBounds i) }

/-- In-place edit of a queued event (time and, for placements, the placement). -/
def editEvent (eid : Nat) (f : SEvent → SEvent) : SimM Unit :=
  modify fun s => { s with queue := s.queue.map (fun e => if e.ev.eid == eid then f e else e) }

/-- The id of the cached TASK_PLACEMENT event object that `placementEvents time p` re-times
in state `s` (task SCHEDULED, `p` placed, a cached future placement event), if any. -/
def cachedOf (s : SimS) (p : PlacementS) : Option Nat :=
  match (s.graphs[p.task.g]?).bind (·.task? p.task.t) with
  | some x => if x.state == .scheduled && p.isPlaced then s.future.get? p.task else none
  | none => none

/-- The same in-place edit on events that are still pending in the local list of
`__handle_scheduler_finish` (created by an earlier placement of the same answer, not yet
queued): the code mutates the event OBJECT, wherever it is. -/
def editPending (c : Option Nat) (p : PlacementS) (evs : List SEvent) : List SEvent :=
  match c, p.time with
  | some eid, some pt =>
    evs.map (fun e => if e.ev.eid == eid then { e with ev := { e.ev with time := pt }, placement := some p } else e)
  | _, _ => evs

def findEvent (eid : Nat) : SimM (Option SEvent) := do
  pure ((← get).queue.find? (fun e => e.ev.eid == eid))

/-- `get_next_event_of_type`. -/
def nextOfType (etype : Nat) : SimM (Option SEvent) := do
  pure (Heap.minFirst SEvent.lt ((← get).queue.toList.filter (fun e => e.ev.etype == etype)))

/-! ### worker pools -/

def getPool (p : Nat) : SimM Pool := do
  let some x := (← get).pools[p]? | throw .attributeError   -- `get_worker_pool` returned None
  pure x
def setPool (p : Nat) (x : Pool) : SimM Unit := modify fun s => { s with pools := s.pools.setIfInBounds p x }

/-- `WorkerPools.get_placed_tasks()`. -/
def placedTasks : SimM (List TaskId) := do
  pure ((← get).pools.toList.flatMap (fun p => p.placed.map (fun q => ungid q.1)))

/-- `WorkerPool.resources` total vector / available vector (merged over workers). -/
def poolTotals (p : Pool) : Vec := p.resources.total
def poolAvail (p : Pool) : Vec := p.resources.avail

def vecStr (v : Vec) : String :=
  ",".intercalate (v.map (fun e => s!"{e.1.name},{ridStr e.1.id},{e.2}"))

/-- `__log_utilization`: one row per pool and resource name. The source iterates a
`set` of names; the order is canonicalised (sorted) on both sides. -/
def logUtilization (time : Int) : SimM Unit := do
  let s ← get
  for (p, i) in s.pools.toList.zipIdx do
    let res := p.resources
    let names := (res.total.map (·.1.name)).eraseDups.mergeSort (· ≤ ·)
    for nm in names do
      let k : Res := ⟨nm, none⟩
      row [istr time, "WORKER_POOL_UTILIZATION", plabel i, nm, istr (res.allocatedQ k), nstr (res.availQ k)]

/-! ### workload level -/

/-- `Workload.get_schedulable_tasks`: every graph in turn; under preemption each
graph appends all placed tasks of the cluster (as the code does). -/
def schedulable (time : Int) : SimM (List TaskId) := do
  let s ← get
  let mut out : List TaskId := []
  for gi in List.range s.graphs.size do
    let g ← getGraph gi
    let l ← liftTape (g.getSchedulable time s.flags.lookahead s.flags.retract s.flags.policy s.flags.releaseTaskGraphs)
    out := out ++ l.map (fun n => ⟨gi, n⟩)
    if s.flags.preemptive then
      out := out ++ (← placedTasks)
  pure out

/-- `Workload.get_releasable_tasks`. -/
def releasable : SimM (List TaskId) := do
  let s ← get
  pure ((List.range s.graphs.size).flatMap (fun gi =>
    match s.graphs[gi]? with
    | some g => g.getReleasable.map (fun n => ⟨gi, n⟩)
    | none => []))

/-- `Workload.notify_task_graph_completion`: closed-loop follow-up graph. Returns the
releasable tasks of the new graph. -/
def notifyGraphCompletion (gi : Nat) (finish : Int) : SimM (List TaskId) := do
  let s ← get
  let some m := s.metas[gi]? | throw .keyError
  let some j := s.jobs[m.job]? | throw .keyError
  if !j.closedLoop then return []
  -- a task graph unlocks at most one follow-up, however often its end is reported
  if s.followedUp.contains gi then return []
  modify fun s => { s with followedUp := gi :: s.followedUp }
  if j.remaining > 0 then
    let idx := j.index + 1
    -- `_generate_task_graph` draws twice from `EventTime.fuzz`; the second value is the deadline offset
    let _ ← liftTape drawFuzz
    let d ← liftTape drawFuzz
    let start := finish + 1
    let g0 := j.template
    let tasks := g0.tasks.mapIdx (fun i t =>
      { t with release := if (g0.pars i).isEmpty then start else -1,
               intendedRelease := if (g0.pars i).isEmpty then start else -1,
               deadline := start + d })
    let g : GraphS := { g0 with name := s!"{j.name}@{idx}", tasks := tasks }
    let s ← get
    let newIndex := s.graphs.size
    set { s with jobs := s.jobs.setIfInBounds m.job { j with remaining := j.remaining - 1, index := idx },
                 graphs := s.graphs.push g,
                 metas := s.metas.push ⟨m.job, idx, j.critical⟩ }
    return g.getReleasable.map (fun n => ⟨newIndex, n⟩)
  else return []

/-! ### event creation from scheduler decisions -/

def strResources (s : Strategy) : String := vecStr s.req

/-- `__create_events_from_task_placement_skip`. -/
def placementSkip (time : Int) (p : PlacementS) (drop : Bool) : SimM (List SEvent) := do
  if p.isPlaced then throw .assertionError
  let t := p.task
  if drop then
    let g ← getGraph t.g
    let r := g.cancel t.t time
    setGraph t.g r.g
    if let some e := r.err then throw e
    let mut evs : List SEvent := []
    for c in r.cancelled do
      logE (.cancel ⟨t.g, c⟩ time)
      evs := evs ++ [← mkEvent ET.taskCancel time (tid := some ⟨t.g, c⟩)]
    if r.g.isCancelled then
      let rel ← notifyGraphCompletion t.g time
      -- the release of the unlocked task graph is logged like the loader's task graphs
      if let some t0 := rel.head? then
        let ng ← getGraph t0.g
        evs := evs ++ [← mkEvent ET.taskGraphRelease ng.releaseTime (graph := some t0.g)]
      for rt in rel do
        let x ← getTask rt
        evs := evs ++ [← mkEvent ET.taskRelease x.release (tid := some rt)]
    return evs
  else
    let x ← getTask t
    let m := (← get).metas[t.g]?
    let g ← getGraph t.g
    row [istr time, "TASK_SKIP", x.name, g.name, nstr ((m.map (·.timestamp)).getD 0), tlabel t]
    let s ← get
    match s.future.get? t with
    | some eid =>
      removeEvent eid
      modify fun s => { s with future := s.future.erase t }
      taskCall t .unschedule
      logE (.unschedule t time)
    | none => pure ()
    return []

/-- `__create_events_from_task_placement`. For a SCHEDULED task with a cached future placement event the
source mutates the cached event OBJECT; here the queue is edited (`editEvent`), and the caller
(`handleSchedulerFinish`) applies the same edit to the events that are still pending in its local list
(`cachedOf` / `editPending`): the object is in one of the two places. -/
def placementEvents (time : Int) (p : PlacementS) : SimM (List SEvent) := do
  let t := p.task
  let x ← getTask t
  let doSchedule : SimM Unit := do
    taskCall t (.schedule time p)
    logE (.schedule t time (p.time.getD (-1)))
  if x.state.val < TState.scheduled.val then
    if p.isPlaced then
      doSchedule
      let some pt := p.time | throw .typeError
      let e ← mkEvent ET.taskPlacement pt (tid := some t) (placement := some p)
      modify fun s => { s with future := s.future.set t e.ev.eid }
      return [e]
    else placementSkip time p (← get).flags.dropSkipped
  else if x.state == .scheduled then
    if p.isPlaced then
      match (← get).future.get? t with
      | none =>
        doSchedule
        let some pt := p.time | throw .typeError
        let e ← mkEvent ET.taskPlacement pt (tid := some t) (placement := some p)
        modify fun s => { s with future := s.future.set t e.ev.eid }
        return [e]
      | some eid =>
        doSchedule
        let some pt := p.time | throw .typeError
        editEvent eid (fun e => { e with ev := { e.ev with time := pt }, placement := some p })
        reheapify
        return []
    else placementSkip time p (← get).flags.dropSkipped
  else if x.state == .running then throw .notImplementedError   -- preemption / migration: out of scope
  else if x.state == .preempted then throw .notImplementedError
  else return []

/-! ### the scheduler-restart computation -/

/-- What `__get_next_scheduler_event` reads from the simulator besides the flags, the
time of the last scheduler start and the time of the triggering event. -/
structure RestartIn where
  queueEmpty : Bool        -- the event queue is empty
  schedEmpty : Bool        -- no schedulable task
  runningEmpty : Bool      -- no placed / future-placed task
  minCompletion : Int      -- earliest estimated completion (+ scheduler delay), `sys.maxsize`-based when none
  allBusy : Bool           -- every schedulable task is RUNNING or SCHEDULED
  full : Bool              -- every worker pool is full
  noFit : Bool             -- no (task, worker) pair is compatible
  relT : Int               -- next TASK_RELEASE time + delay (or maxsize)
  updT : Int               -- next UPDATE_WORKLOAD time (or maxsize)

/-- The decision of `__get_next_scheduler_event`, as a pure function of what it reads:
the type of the event to queue (SIMULATOR_END or SCHEDULER_START) and its time. -/
def restart (f : SimFlags) (lastSchedStart evTime : Int) (i : RestartIn) : Nat × Int :=
  let start0 : Int :=
    if f.schedFrequency ≤ 0 then evTime + 1
    else if lastSchedStart + f.schedFrequency < evTime then evTime + 1 else lastSchedStart + f.schedFrequency
  if start0 ≥ f.loopTimeout then (ET.simulatorEnd, f.loopTimeout)
  else if i.queueEmpty && i.schedEmpty && i.runningEmpty then (ET.simulatorEnd, evTime + 1)
  else if !i.runningEmpty && f.runAtWorkerFree then
    let start := max start0 (i.minCompletion + 1)
    if start ≥ f.loopTimeout then (ET.simulatorEnd, f.loopTimeout) else (ET.schedulerStart, start)
  else if i.schedEmpty || i.allBusy || i.full || i.noFit then
    let adjusted := max start0 (min (min i.minCompletion i.relT) i.updT)
    if start0 != adjusted then
      if adjusted ≥ f.loopTimeout then (ET.simulatorEnd, f.loopTimeout) else (ET.schedulerStart, adjusted)
    else (ET.schedulerStart, start0)
  else (ET.schedulerStart, start0)

/-- `__get_next_scheduler_event`: gather the inputs (in the order in which the source
evaluates them, so that an exception is raised at the same point), decide with
`restart`, create the event. -/
def nextSchedulerEvent (evTime : Int) : SimM SEvent := do
  let s ← get
  let f := s.flags
  let start0 : Int :=
    if f.schedFrequency ≤ 0 then evTime + 1
    else if s.lastSchedStart + f.schedFrequency < evTime then evTime + 1 else s.lastSchedStart + f.schedFrequency
  if start0 ≥ f.loopTimeout then
    return ← mkEvent ET.simulatorEnd f.loopTimeout
  let placed ← placedTasks
  let running := placed ++ s.future.map (·.1)
  let mut completions : List Int := []
  let mut live : List TaskId := []
  for t in running do
    let x ← getTask t
    if x.state == .scheduled then
      let some p := x.placement | throw .attributeError
      let some pt := p.time | throw .typeError
      completions := completions ++ [pt + (← liftE x.remainingTime)]
      live := live ++ [t]
    else if x.state == .running then
      completions := completions ++ [s.now + (← liftE x.remainingTime)]
      live := live ++ [t]
  let minCompletion : Int := (match completions with
    | [] => maxsize
    | c :: cs => cs.foldl min c) + f.schedDelay
  let sched ← schedulable evTime
  let nextRelease ← nextOfType ET.taskRelease
  let nextUpdate ← nextOfType ET.updateWorkload
  let s1 ← get
  let taskOf (t : TaskId) : Option TaskS := (s1.graphs[t.g]?).bind (·.task? t.t)
  let inp : RestartIn := {
    queueEmpty := s1.queue[0]?.isNone
    schedEmpty := sched.isEmpty
    -- only SCHEDULED / RUNNING tasks count as ongoing work (a task the policy has just
    -- cancelled keeps its pending placement until its TASK_CANCEL event is handled)
    runningEmpty := live.isEmpty
    minCompletion := minCompletion
    allBusy := sched.all (fun t =>
      match taskOf t with
      | some x => x.state == .running || x.state == .scheduled
      | none => false)
    full := s1.pools.all (·.isFull)
    -- every (task, worker-with-the-task's-profile-loaded) pair has no compatible strategy
    noFit := sched.all (fun t =>
      match taskOf t with
      | some x => s1.pools.all (fun p => p.workers.all (fun w =>
          !w.availProf.has x.profile || (x.strategies.filter w.canAccommodate).isEmpty))
      | none => false)
    relT := match nextRelease with
      | some e => e.ev.time + f.schedDelay
      | none => maxsize
    updT := match nextUpdate with
      | some e => e.ev.time
      | none => maxsize }
  let d := restart f s.lastSchedStart evTime inp
  let e ← mkEvent d.1 d.2
  if d.1 == ET.schedulerStart then
    modify fun s => { s with nextSched := some e.ev.eid }
  return e

/-! ### handlers -/

def handleSchedulerStart (ev : SEvent) : SimM Unit := do
  let placed ← placedTasks
  let sched ← schedulable ev.ev.time
  row [istr ev.ev.time, "SCHEDULER_START", nstr sched.length, nstr placed.length]
  logUtilization ev.ev.time
  modify fun s => { s with lastSchedStart := ev.ev.time, nextSched := none }
  -- `__run_scheduler`: the policy is a black box; its answer is the next tape entry
  let s ← get
  match s.decisions with
  | [] => throw .fuel
  | d :: rest =>
    set { s with decisions := rest, lastPlacements := some d }
    if let some e := d.raised then throw e      -- `scheduler.schedule(...)` raised: the run aborts here
    addEvent (← mkEvent ET.schedulerFinished (ev.ev.time + d.runtime))

/-- Number of PLACE_TASK decisions with / without a worker pool (the `num_placed` /
`num_unplaced` columns of the SCHEDULER_FINISHED row). -/
def placedCount (ps : List PlacementS) : Nat := (ps.filter (fun p => p.kind == .place && p.isPlaced)).length
def unplacedCount (ps : List PlacementS) : Nat := (ps.filter (fun p => p.kind == .place && !p.isPlaced)).length

def handleSchedulerFinish (ev : SEvent) : SimM Unit := do
  let s ← get
  let some d := s.lastPlacements | throw .typeError
  let time := ev.ev.time
  let numPlaced := placedCount d.placements
  let numUnplaced := unplacedCount d.placements
  row [istr time, "SCHEDULER_FINISHED", istr (time - s.lastSchedStart), nstr numPlaced, nstr numUnplaced, "<true_runtime>"]
  let mut evs : List SEvent := []
  for p in d.placements do
    match p.kind with
    | .cancel => evs := evs ++ (← placementSkip time p true)
    | .place =>
      if p.isPlaced then
        let some pt := p.time | throw .typeError
        if pt < time then throw .valueError
        let x ← getTask p.task
        let g ← getGraph p.task.g
        let m := (← get).metas[p.task.g]?
        let some st := p.strat | throw .attributeError
        row [istr time, "TASK_SCHEDULED", x.name, g.name, nstr ((m.map (·.timestamp)).getD 0), tlabel p.task,
             istr x.deadline, istr pt, plabel (p.pool.getD 0), istr st.runtime]
      -- a second placement of a task answered earlier in the same invocation mutates the
      -- cached event object, which is still in the local list (not yet queued)
      let c := cachedOf (← get) p
      evs := editPending c p evs ++ (← placementEvents time p)
    | .evict =>
      let some pt := p.time | throw .typeError
      if pt < time then throw .valueError
      evs := evs ++ [← mkEvent ET.evictProfile pt (placement := some p)]
    | .load =>
      let some pt := p.time | throw .typeError
      if pt < time then throw .valueError
      evs := evs ++ [← mkEvent ET.loadProfile pt (placement := some p)]
  for e in Heap.pySorted SEvent.lt evs do
    addEvent e
  modify fun s => { s with lastPlacements := none }
  let nxt ← nextSchedulerEvent time
  addEvent nxt
  addEvent (← mkEvent ET.logUtilization time)

def handleTaskCancel (ev : SEvent) : SimM Unit := do
  let some t := ev.tid | throw .attributeError
  modify fun s => { s with cancelledTasks := s.cancelledTasks + 1 }
  let x ← getTask t
  let m := (← get).metas[t.g]?
  let g ← getGraph t.g
  let some sl := TaskS.slowest? x.strategies | throw .attributeError
  row [istr ev.ev.time, "TASK_CANCEL", x.name, nstr ((m.map (·.timestamp)).getD 0), tlabel t, g.name, istr sl.runtime]
  match (← get).future.get? t with
  | some eid =>
    removeEvent eid
    modify fun s => { s with future := s.future.erase t }
  | none => pure ()

def handleTaskRelease (ev : SEvent) : SimM Unit := do
  let some t := ev.tid | throw .attributeError
  let time := ev.ev.time
  taskCall t (.release (some time))
  logE (.release t time)
  let x ← getTask t
  let m := (← get).metas[t.g]?
  let g ← getGraph t.g
  let some sl := TaskS.slowest? x.strategies | throw .attributeError
  row [istr time, "TASK_RELEASE", x.name, nstr ((m.map (·.timestamp)).getD 0), istr x.intendedRelease, istr x.release,
       istr x.deadline, tlabel t, g.name, istr sl.runtime, strResources sl]
  let s ← get
  if x.state.val < TState.scheduled.val && !s.flags.runAtWorkerFree then
    match s.nextSched with
    | none => pure ()
    | some eid =>
      match ← findEvent eid with
      | none => pure ()     -- the object is no longer queued: editing it has no visible effect
      | some se =>
        let newT := min se.ev.time (time + s.flags.schedDelay)
        if se.ev.time != newT then
          editEvent eid (fun e => { e with ev := { e.ev with time := newT } })
          reheapify

/-- Re-raise the outcome of a ledger operation. -/
def raiseOutcome : Outcome → SimM Unit
  | .ok => pure ()
  | .raised .valueError => throw .valueError
  | .raised .runtimeError => throw .runtimeError
  | .raised .keyError => throw .keyError
  | .raised .attributeError => throw .attributeError

/-- First part of `__handle_task_finished`: free the resources, finish the task. -/
def finishRemove (t : TaskId) (time : Int) : SimM Unit := do
  let x ← getTask t
  let some pid := x.pool | throw .attributeError
  let pool ← getPool pid
  setPool pid (pool.removeTask (gid t)).1
  raiseOutcome (pool.removeTask (gid t)).2
  logE (.remove t pid time)
  taskCall t (.finish none)
  logE (.finish t time)
  modify fun s => { s with finishedTasks := s.finishedTasks + 1 }

/-- What `__handle_task_finished` writes for one finished task: the CSV rows, in order,
and the increments of the end-of-run counters. A pure function of the task, its graph
(after the task finished), the graph's release timestamp and the event time. -/
structure FinishOut where
  rows : List Row
  dFinishedGraphs : Nat
  dMissedGraphDeadlines : Nat
  dMissedTaskDeadlines : Nat

def finishOut (x : TaskS) (g : GraphS) (ts : String) (tl : String) (time : Int) : FinishOut :=
  let r1 : List Row := [[istr time, "TASK_FINISHED", x.name, ts, g.name, istr x.completion, istr x.deadline, tl]]
  let tard : Int := if g.deadline > time then 0 else time - g.deadline
  let r2 : List Row := if g.isComplete then [[istr time, "TASK_GRAPH_FINISHED", g.name, istr g.deadline, istr tard]] else []
  let r3 : List Row := if time > x.deadline then [[istr time, "MISSED_DEADLINE", x.name, ts, istr x.deadline, tl]] else []
  let r4 : List Row := if time > g.deadline then [[istr time, "MISSED_TASK_GRAPH_DEADLINE", g.name, istr g.deadline]] else []
  { rows := r1 ++ r2 ++ r3 ++ r4
    dFinishedGraphs := if g.isComplete then 1 else 0
    dMissedGraphDeadlines := if g.isComplete && g.deadline < time then 1 else 0
    dMissedTaskDeadlines := if time > x.deadline then 1 else 0 }

/-- Second part: the TASK_FINISHED / TASK_GRAPH_FINISHED / MISSED_* rows and counters
(row emission and counter updates never raise, so their interleaving is immaterial). -/
def finishRows (t : TaskId) (time : Int) : SimM Unit := do
  let x ← getTask t
  let g ← getGraph t.g
  let m := (← get).metas[t.g]?
  let ts := nstr ((m.map (·.timestamp)).getD 0)
  let o := finishOut x g ts (tlabel t) time
  for r in o.rows do row r
  modify fun s => { s with finishedGraphs := s.finishedGraphs + o.dFinishedGraphs,
                           missedGraphDeadlines := s.missedGraphDeadlines + o.dMissedGraphDeadlines,
                           missedTaskDeadlines := s.missedTaskDeadlines + o.dMissedTaskDeadlines }

/-- Third part: `notify_task_completion`, closed-loop follow-up, new events. -/
def finishNotify (t : TaskId) (time : Int) : SimM Unit := do
  let g ← getGraph t.g
  let s ← get
  let r := g.notifyCompletion t.t time s.tape
  set { s with tape := r.tape }
  setGraph t.g r.g
  if let some e := r.err then throw e
  let mut released : List TaskId := r.released.map (fun n => ⟨t.g, n⟩)
  if r.g.isComplete then
    let rel ← notifyGraphCompletion t.g time
    released := released ++ rel
    -- the release of the unlocked task graph is logged like the loader's task graphs
    if let some t0 := rel.head? then
      let ng ← getGraph t0.g
      addEvent (← mkEvent ET.taskGraphRelease ng.releaseTime (graph := some t0.g))
  -- `event` is rebound by the loops of the source: the time of a release event is
  -- `max(task.release_time, <time of the event created just before>)`
  let mut lastTime := time
  for c in r.cancelled do
    let xc ← getTask ⟨t.g, c⟩
    let ct := xc.cancelTime.getD time
    logE (.cancel ⟨t.g, c⟩ ct)
    addEvent (← mkEvent ET.taskCancel ct (tid := some ⟨t.g, c⟩))
    lastTime := ct
  for rt in released do
    let xr ← getTask rt
    let rtime := max xr.release lastTime
    addEvent (← mkEvent ET.taskRelease rtime (tid := some rt))
    lastTime := rtime

def handleTaskFinished (ev : SEvent) : SimM Unit := do
  let some t := ev.tid | throw .attributeError
  finishRemove t ev.ev.time
  finishRows t ev.ev.time
  finishNotify t ev.ev.time

/-- `__handle_task_placement`, the task is not ready to run: drop the placement of a
cancelled task / graph, or retry after the parents' remaining time. -/
def placementNotReady (ev : SEvent) (t : TaskId) (p : PlacementS) : SimM Unit := do
  let time := ev.ev.time
  let g ← getGraph t.g
  let x ← getTask t
  let m := (← get).metas[t.g]?
  let ts := nstr ((m.map (·.timestamp)).getD 0)
  if x.state == .cancelled || g.isCancelled then
    modify fun s => { s with future := s.future.erase t }
    if x.state != .cancelled then
      let r := g.cancel t.t time
      setGraph t.g r.g
      if let some e := r.err then throw e
      for c in r.cancelled do
        logE (.cancel ⟨t.g, c⟩ time)
        addEvent (← mkEvent ET.taskCancel time (tid := some ⟨t.g, c⟩))
  else
    -- `max(parent.remaining_time for parent in parents)`: ValueError for a source
    let mut rems : List Int := []
    for pr in g.pars t.t do
      let xp ← getTask ⟨t.g, pr⟩
      rems := rems ++ [← liftE xp.remainingTime]
    let some r0 := rems.head? | throw .valueError
    let parentCompletion := rems.tail.foldl max r0
    let nextT := time + max parentCompletion 1
    let e ← mkEvent ET.taskPlacement nextT (tid := some t) (placement := some p)
    modify fun s => { s with future := s.future.set t e.ev.eid }
    addEvent e
    row [istr time, "TASK_NOT_READY", x.name, ts, tlabel t, plabel (p.pool.getD 0)]

/-- Re-raise the exception of `WorkerPool.place_task`. -/
def raisePlace : Except PyErr Bool → SimM Bool
  | .ok b => pure b
  | .error .valueError => throw .valueError
  | .error .runtimeError => throw .runtimeError
  | .error .keyError => throw .keyError
  | .error .attributeError => throw .attributeError

/-- The row of a started task: `worker_pool.get_allocated_resources(task)` (a read that
may insert an empty ledger entry). -/
def placementRow (t : TaskId) (pid : Nat) (time : Int) (st : Strategy) : SimM Unit := do
  let x ← getTask t
  let g ← getGraph t.g
  let m := (← get).metas[t.g]?
  let ts := nstr ((m.map (·.timestamp)).getD 0)
  let pool ← getPool pid
  let some wi := pool.placed.get? (gid t) | throw .keyError
  let (pool', alloc) := pool.onWorker' wi (gid t)
  setPool pid pool'
  let pairs ← match alloc with
    | some (.ok l) => pure l
    | _ => throw .runtimeError
  row [istr time, "TASK_PLACEMENT", x.name, g.name, ts, tlabel t, plabel pid, istr st.runtime, vecStr pairs]

/-- `task.start(time, variance)` on the graph `g` whose readiness was just checked
(`h`): the only place where a task becomes RUNNING. -/
def startTask (t : TaskId) (g : GraphS) (_h : g.isReadyToRun t.t = true) (time fuzzed : Int) : SimM Unit := do
  let some x := g.task? t.t | throw .keyError
  setGraph t.g (g.setTask t.t (x.doStart time fuzzed).1)
  raiseTask (x.doStart time fuzzed).2

/-- `__handle_task_placement`, the task is ready (`h`, checked on `g`, the task's graph as
it is now): place it and start it, or retry in 1 µs. -/
def placementPlace (ev : SEvent) (t : TaskId) (p : PlacementS) (g : GraphS) (h : g.isReadyToRun t.t = true) :
    SimM Unit := do
  let time := ev.ev.time
  let x ← getTask t
  let m := (← get).metas[t.g]?
  let ts := nstr ((m.map (·.timestamp)).getD 0)
  let some pid := p.pool | throw .assertionError
  if (← get).pools[pid]?.isNone then throw .assertionError   -- `assert worker_pool is not None`
  let pool ← getPool pid
  setPool pid (pool.placeTask (gid t) x.strategies p.strat p.worker).1
  let placed ← raisePlace (pool.placeTask (gid t) x.strategies p.strat p.worker).2
  if placed then
    logE (.place t pid time)
    let some st := p.strat | throw .attributeError
    -- `task.start(time, variance)`: the fuzzed remaining time is a tape input
    let fuzzed ← liftTape drawFuzz
    startTask t g h time fuzzed
    logE (.start t time fuzzed pid)
    -- a task with no work left is never reported by `step`: its completion is notified here
    if (← liftE (← getTask t).remainingTime) == 0 then
      addEvent (← mkEvent ET.taskFinished time (tid := some t))
    placementRow t pid time st
    modify fun s => { s with future := s.future.erase t }
  else
    let e ← mkEvent ET.taskPlacement (time + 1) (tid := some t) (placement := some p)
    addEvent e
    modify fun s => { s with future := s.future.set t e.ev.eid }
    row [istr time, "WORKER_NOT_READY", x.name, ts, tlabel t, plabel pid]

def handleTaskPlacement (ev : SEvent) : SimM Unit := do
  let some t := ev.tid | throw .attributeError
  let some p := ev.placement | throw .attributeError
  if !(← get).future.has t then throw .assertionError
  let g ← getGraph t.g
  if h : g.isReadyToRun t.t = true then placementPlace ev t p g h
  else placementNotReady ev t p

def handleUpdateWorkload (ev : SEvent) : SimM Unit := do
  let s ← get
  if s.loaderReleased then
    row [istr s.now, "UPDATE_WORKLOAD", "0", "0"]
  else
    set { s with loaderReleased := true, graphs := s.allGraphs, metas := s.allMeta }
    let rel ← releasable
    let s ← get
    row [istr ev.ev.time, "UPDATE_WORKLOAD", nstr s.graphs.size, nstr rel.length]
    for gi in List.range s.graphs.size do
      let g ← getGraph gi
      addEvent (← mkEvent ET.taskGraphRelease g.releaseTime (graph := some gi))
    let mut maxRel := s.now
    for t in rel do
      let x ← getTask t
      addEvent (← mkEvent ET.taskRelease x.release (tid := some t))
      if x.release > maxRel then maxRel := x.release
    let nextT := if s.flags.updateInterval == -1 then maxRel + 1 else s.now + s.flags.updateInterval
    addEvent (← mkEvent ET.updateWorkload nextT)

def handleTaskGraphRelease (ev : SEvent) : SimM Unit := do
  let some gi := ev.graph | throw .valueError
  let g ← getGraph gi
  let some m := (← get).metas[gi]? | throw .keyError
  row [istr ev.ev.time, "TASK_GRAPH_RELEASE", istr g.releaseTime, istr g.deadline, g.name, nstr g.size, istr m.critical]

def handleProfile (ev : SEvent) (load : Bool) : SimM Unit := do
  let some p := ev.placement | throw .attributeError
  if (load && p.kind != .load) || (!load && p.kind != .evict) then throw .valueError
  let some pid := p.pool | throw .valueError
  let pool ← getPool pid
  if load then
    let some st := p.strat | throw .attributeError
    setPool pid (pool.loadProfile p.profile st p.worker).1
    raiseOutcome (pool.loadProfile p.profile st p.worker).2
  else
    setPool pid (pool.evictProfile p.profile p.worker).1
    raiseOutcome (pool.evictProfile p.profile p.worker).2

/-- `__handle_event`: returns `true` when the simulation ends. -/
def handleEvent (ev : SEvent) : SimM Bool := do
  logE (.pop ev.ev.time ev.ev.etype)
  let ty := ev.ev.etype
  if ty == ET.simulatorStart then row [istr ev.ev.time, "SIMULATOR_START"]
  else if ty == ET.taskCancel then handleTaskCancel ev
  else if ty == ET.evictProfile then handleProfile ev false
  else if ty == ET.taskFinished then handleTaskFinished ev
  else if ty == ET.taskGraphRelease then handleTaskGraphRelease ev
  else if ty == ET.taskRelease then handleTaskRelease ev
  else if ty == ET.updateWorkload then handleUpdateWorkload ev
  else if ty == ET.taskPreempt then throw .notImplementedError
  else if ty == ET.taskMigration then throw .notImplementedError
  else if ty == ET.loadProfile then handleProfile ev true
  else if ty == ET.taskPlacement then handleTaskPlacement ev
  else if ty == ET.schedulerStart then handleSchedulerStart ev
  else if ty == ET.schedulerFinished then handleSchedulerFinish ev
  else if ty == ET.simulatorEnd then
    let s ← get
    let cancelledGraphs := (s.graphs.toList.filter (·.isCancelled)).length
    row [istr ev.ev.time, "SIMULATOR_END", nstr s.finishedTasks, nstr s.cancelledTasks, nstr s.missedTaskDeadlines,
         nstr s.finishedGraphs, nstr cancelledGraphs, nstr s.missedGraphDeadlines]
    modify fun s => { s with ended := true }
    return true
  else if ty == ET.logUtilization then logUtilization ev.ev.time
  else throw .valueError
  return false

/-- `self._simulator_time += step_size` (and the clock entry of the history log). -/
def advanceClock (dt : Int) : SimM Unit :=
  modify fun s => { s with now := s.now + dt, log := s.log.push (.clock (s.now + dt)) }

/-- `__step(step_size)`: step every worker (profiles, then the RUNNING tasks in
placement order), advance the clock, queue the TASK_FINISHED events. -/
def step (dt : Int) : SimM Unit := do
  if dt < 0 then throw .valueError
  let s ← get
  let now := s.now
  let mut finished : List TaskId := []
  for pi in List.range s.pools.size do
    let pool ← getPool pi
    -- profiles first (they do not interact with the tasks), then the RUNNING tasks worker by worker
    setPool pi (pool.stepProfiles dt)
    for w in pool.workers do
      for (n, _) in w.placed do
        let t := ungid n
        let x ← getTask t
        if x.state != .running then continue
        taskCall t (.step now dt)
        if (x.doStep now dt).2 then finished := finished ++ [t]
  let mut evs : List SEvent := []
  for t in finished do
    evs := evs ++ [← mkEvent ET.taskFinished (now + dt) (tid := some t)]
  advanceClock dt
  for e in evs do addEvent e

def popEvent : SimM SEvent := do
  let s ← get
  match Heap.heappop SEvent.lt s.queue with
  | none => throw .indexError
  | some (e, q) => set { s with queue := q }; pure e

/-- One iteration of the `while True` loop of `simulate()`; returns `true` when it breaks. -/
def iter : SimM Bool := do
  let s ← get
  let some head := s.queue[0]? | throw .attributeError      -- `peek()` returned None
  let untilNext := head.ev.time - s.now
  let placed ← placedTasks
  if !placed.isEmpty then
    let mut rems : List Int := []
    for t in placed do
      rems := rems ++ [← liftE (← getTask t).remainingTime]
    let minRem := match rems with
      | [] => 0
      | r :: rs => rs.foldl min r
    if minRem < untilNext then
      step minRem
      return false
    else
      step untilNext
      handleEvent (← popEvent)
  else
    step untilNext
    handleEvent (← popEvent)

/-- The constructor: WORKER_POOL rows, first utilisation log, the three initial events. -/
def init : SimM Unit := do
  let s ← get
  for (p, i) in s.pools.toList.zipIdx do
    row ["0", "WORKER_POOL", s.poolNames[i]?.getD "", plabel i, vecStr (poolTotals p)]
  logUtilization 0
  addEvent (← mkEvent ET.simulatorStart 0)
  addEvent (← mkEvent ET.updateWorkload 0)
  addEvent (← mkEvent ET.schedulerStart 0)

/-- `simulate()` with a bound on the number of loop iterations. -/
def run : Nat → SimM Unit
  | 0 => throw .fuel
  | n + 1 => do
    if ← iter then return ()
    run n

/-- Build the initial state, run the constructor and `simulate()`. -/
def simulate (s0 : SimS) (fuel : Nat) : Option SErr × SimS :=
  let (r, s) := (ExceptT.run (do init; run fuel)).run s0
  match r with
  | .ok _ => (none, s)
  | .error e => (some e, s)

end Sim
end ErdosVerif.Model
