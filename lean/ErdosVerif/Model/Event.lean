/-
M2 (second half) — `Event`, `Event.__lt__` and `EventQueue` of /repo/simulator.py:27-224.

* An `Event` is identified by `eid` (Python object identity: `Event` defines no
  `__eq__`, so `list.remove(event)` finds the first entry that *is* the object).
  `time` is the event's `EventTime` in µs (the unit laws of M1 justify this),
  `etype` the `EventType` value, `task` the task's `unique_name` if there is one.
* `Event.__lt__`:
    if self.time == other.time:
        if self.event_type == other.event_type and self.task is not None and other.task is not None:
            return self.task.unique_name < other.task.unique_name
        return self.event_type < other.event_type
    return self.time < other.time
  `EventType.__lt__`/`__eq__` compare `.value` (checked against the generated table by
  `ErdosVerif.Gen.eventTypeLtIsValueOrder`); `str <` is code-point lexicographic, which
  is Lean's `String` order.
* `EventQueue` is a Python list maintained with `heapq` (model: `Heap`), `add_event` =
  `heappush`, `next` = `heappop` (`IndexError` when empty), `peek` = `a[0]` or `None`,
  `remove_event` = `list.remove` (`ValueError` when absent, and then no re-heapify) followed
  by `heapify`, `get_next_event_of_type` = `min(filter(type == t))` i.e. the first minimum in
  array order, `reheapify` = `heapify`. `sorted(events)` (simulator.py:1020) is CPython's list
  sort for fewer than 64 elements (initial run detection + binary insertion), exact also when
  `__lt__` is not a weak order; on well-formed events it is *the* stable sort. The simulator re-times queued events *in place*
  (`event._time = …`, simulator.py:816, 1135) and then calls `reheapify()`; `retime`
  models the in-place edit (every entry holding that object changes), `retimeReheapify`
  the pair.
-/
import ErdosVerif.Model.Heap
import ErdosVerif.Gen.Tables

namespace ErdosVerif.Model

structure Event where
  eid : Nat
  time : Int
  etype : Nat
  task : Option String
  deriving DecidableEq, Repr, Inhabited

namespace Event

/-- `Event.__lt__`. -/
def lt (a b : Event) : Bool :=
  if a.time == b.time then
    match a.etype == b.etype, a.task, b.task with
    | true, some x, some y => decide (x < y)
    | _, _, _ => decide (a.etype < b.etype)
  else decide (a.time < b.time)

end Event

/-- Value of an `EventType` member in the generated table. -/
def eventTypeValue? (name : String) : Option Nat :=
  (Gen.eventTypeTable.find? (fun p => p.1 == name)).map (·.2)

/-- The event types whose constructor insists on a task (simulator.py:81-90). -/
def taskEventTypeNames : List String :=
  ["TASK_CANCEL", "TASK_RELEASE", "TASK_PLACEMENT", "TASK_PREEMPT", "TASK_MIGRATION", "TASK_FINISHED"]

/-- `EventQueue._event_queue`. -/
abbrev EventQueue := Array Event

namespace EventQueue

def empty : EventQueue := #[]

/-- `add_event`. -/
def addEvent (q : EventQueue) (e : Event) : EventQueue := Heap.heappush Event.lt q e

/-- `reheapify`. -/
def reheapify (q : EventQueue) : EventQueue := Heap.heapify Event.lt q

/-- `remove_event`: `list.remove` by identity (first entry with that `eid`), then
`heapify`; `ValueError` (state unchanged) when absent. -/
def removeEvent (q : EventQueue) (eid : Nat) : Except String EventQueue :=
  match q.findIdx? (fun e => e.eid == eid) with
  | none => .error "ValueError"
  | some i => .ok (reheapify (q.eraseIdxIfInBounds i))

/-- `next`: `heappop`; `IndexError` when empty. -/
def next (q : EventQueue) : Except String (Event × EventQueue) :=
  match Heap.heappop Event.lt q with
  | none => .error "IndexError"
  | some r => .ok r

/-- `peek`. -/
def peek (q : EventQueue) : Option Event := q[0]?

/-- `get_next_event_of_type`. -/
def nextOfType (q : EventQueue) (t : Nat) : Option Event :=
  Heap.minFirst Event.lt (q.toList.filter (fun e => e.etype == t))

/-- In-place `event._time = t` on a queued object (no re-heapify). -/
def retime (q : EventQueue) (eid : Nat) (t : Int) : EventQueue :=
  q.map (fun e => if e.eid == eid then { e with time := t } else e)

/-- The simulator's idiom: edit the time in place, then `reheapify()`. -/
def retimeReheapify (q : EventQueue) (eid : Nat) (t : Int) : EventQueue :=
  reheapify (retime q eid t)

/-- `sorted(events)`: CPython's list sort under `__lt__` (see `Heap.pySorted`). -/
def sorted (l : List Event) : List Event := Heap.pySorted Event.lt l

end EventQueue

/-- One step of a queue history, as the simulator drives it: insert, remove by identity,
re-time in place followed by `reheapify()`, a bare `reheapify()`, pop. -/
inductive QOp where
  | add (e : Event)
  | remove (eid : Nat)
  | retime (eid : Nat) (t : Int)
  | reheapify
  | pop
  deriving Repr

/-- State after one operation; an operation that raises leaves the queue as it was
(`remove_event` of an absent event, `next` on an empty queue). -/
def QOp.apply (q : EventQueue) : QOp → EventQueue
  | .add e => q.addEvent e
  | .remove eid => match q.removeEvent eid with
    | .ok q' => q'
    | .error _ => q
  | .retime eid t => q.retimeReheapify eid t
  | .reheapify => q.reheapify
  | .pop => match q.next with
    | .ok r => r.2
    | .error _ => q

/-- The queue reached from the empty queue by a history. -/
def EventQueue.run (ops : List QOp) : EventQueue := ops.foldl QOp.apply EventQueue.empty

end ErdosVerif.Model
