/-
C10/C11/C12/C14 (TetriSched): an *independent* specification of what a feasible plan is
for one TetriSched invocation, stated directly over the instance (no optimisation model),
in the planner's own time model:

* starts lie on the grid `now + k·disc`, `k < nSlots`;
* a task started at slot `k` with strategy runtime `r` occupies the half-open interval
  `[slot k, slot k + r)`, i.e. the grid slots `k'` with `k ≤ k'` and `k'·disc < k·disc + r`;
* a RUNNING task occupies `[now, now + full runtime of its strategy)` on its worker;
* a placement needs a worker that can hold the strategy, a slot not before the known release
  and, with `enforce_deadlines`, `slot + runtime ≤ deadline`;
* Gurobi formulation only: a placed child needs every parent that takes part in the call
  placed (RUNNING counts), as many such parents as the graph has parents of the child, and
  `slot(child) ≥ slot(parent) + slowest runtime of the parent + 1`
  (`≥ now + remaining + 1` for a RUNNING parent);
* capacity: at every slot, on every worker and for every resource name, the summed demand of
  the tasks occupying the slot is at most the worker's total quantity.

`addable I plan` lists every cell that can still be added to a plan (the extended plan is
valid again): C14's "no further offered task can be added" is `addable = []` on rewarded tasks.

Core Lean only (the driver links this module).
-/
import ErdosVerif.Model.Tetri
namespace ErdosVerif.TetriSpec
open ErdosVerif.Mip ErdosVerif.Tetri

/-- worker, slot index, strategy -/
abbrev Cell := Nat × Nat × Nat

/-- One optional placement per task, aligned with `inst.tasks`. -/
abbrev Plan := List (Option Cell)

def Plan.get (p : Plan) (t : Nat) : Option Cell := p.getD t none

/-- The fixed entry of a RUNNING task. -/
def runningCell (I : Inst) (t : Nat) : Cell := ((I.task t).prevW, 0, (I.task t).prevS)

/-- Demand of task `t` for resource `r` on worker `w` at slot `k`. -/
def demandAt (I : Inst) (plan : Plan) (w k : Nat) (r : String) (t : Nat) : Nat :=
  match plan.get t with
  | some c => if c.1 = w ∧ I.covers t c.2.1 c.2.2 k = true then I.req t c.2.2 r else 0
  | none => 0

def load (I : Inst) (plan : Plan) (w k : Nat) (r : String) : Nat :=
  nsum (I.act.map (demandAt I plan w k r))

/-- Demand of task `t` for resource `r` on worker `w` at the *instant* `τ` (µs): the task
occupies the half-open interval `[slot, slot + runtime)`. -/
def demandInstant (I : Inst) (plan : Plan) (w : Nat) (τ : Int) (r : String) (t : Nat) : Nat :=
  match plan.get t with
  | some c => if c.1 = w ∧ I.slot c.2.1 ≤ τ ∧ τ < I.slot c.2.1 + (I.runtime t c.2.2 : Nat) then I.req t c.2.2 r else 0
  | none => 0

def loadInstant (I : Inst) (plan : Plan) (w : Nat) (τ : Int) (r : String) : Nat :=
  nsum (I.act.map (demandInstant I plan w τ r))

/-- Start instant of a placed cell. -/
def startOf (I : Inst) (c : Cell) : Int := I.slot c.2.1

/-- The independent specification. -/
structure ValidPlan (I : Inst) (plan : Plan) : Prop where
  len : plan.length = I.nT
  inactive : ∀ t, t < I.nT → I.active t = false → plan.get t = none
  running : ∀ t, t < I.nT → I.active t = true → I.running t = true → plan.get t = some (runningCell I t)
  wf : ∀ t c, t < I.nT → I.running t = false → plan.get t = some c →
    c.1 < I.nW ∧ c.2.1 < I.nSlots ∧ c.2.2 < (I.task t).nS ∧ I.cellOk t c.1 c.2.1 c.2.2 = true
  required : ∀ t, t < I.nT → I.active t = true → I.must t = true → (plan.get t).isSome
  prec : I.cplex = false → ∀ c cc, c < I.nT → I.running c = false → plan.get c = some cc →
    ((I.parentVars c) ≠ [] → (I.parentVars c).length = I.nParents c) ∧
    ∀ p ∈ I.parentVars c, ∃ cp, plan.get p = some cp ∧
      startOf I cp + (I.parentDur p : Nat) + 1 ≤ startOf I cc
  capacity : ∀ w, w < I.nW → ∀ k, k < I.nSlots → ∀ r, load I plan w k r ≤ qty (I.worker w).res r

/-- The plan read off an assignment: RUNNING tasks fixed, the others as decoded. -/
def planOf (I : Inst) (σ : Var → Int) : Plan :=
  (List.range I.nT).map (fun t =>
    if !I.active t then none
    else if I.running t then some (runningCell I t)
    else I.chosen σ t)

/-! ### Executable checks -/

def localB (I : Inst) (plan : Plan) (t : Nat) : Bool :=
  if !I.active t then plan.get t == none
  else if I.running t then plan.get t == some (runningCell I t) else
  match plan.get t with
  | none => !I.must t
  | some c => decide (c.1 < I.nW) && decide (c.2.1 < I.nSlots) && decide (c.2.2 < (I.task t).nS) &&
      I.cellOk t c.1 c.2.1 c.2.2

def precB (I : Inst) (plan : Plan) (c : Nat) : Bool :=
  if I.cplex || I.running c then true else
  match plan.get c with
  | none => true
  | some cc =>
    ((I.parentVars c).isEmpty || (I.parentVars c).length == I.nParents c) &&
    (I.parentVars c).all (fun p =>
      match plan.get p with
      | none => false
      | some cp => decide (startOf I cp + (I.parentDur p : Nat) + 1 ≤ startOf I cc))

def capacityB (I : Inst) (plan : Plan) : Bool :=
  (List.range I.nW).all (fun w => (List.range I.nSlots).all (fun k => (I.worker w).types.all (fun r =>
    decide (load I plan w k r ≤ qty (I.worker w).res r))))

def validB (I : Inst) (plan : Plan) : Bool :=
  plan.length == I.nT && (List.range I.nT).all (fun t => localB I plan t && precB I plan t) &&
  capacityB I plan

/-- All cells `(t, w, k, s)` of unplaced tasks that can be added: the extended plan is valid. -/
def addable (I : Inst) (plan : Plan) : List (Nat × Nat × Nat × Nat) :=
  (I.nonRunning.filter (fun t => plan.get t == none)).flatMap (fun t =>
    ((I.keys t).filter (fun q => validB I (plan.set t (some q)))).map (fun q => (t, q.1, q.2.1, q.2.2)))

/-- Reward (scaled by `den`) task `t` earns under a plan. -/
def rewOf (I : Inst) (plan : Plan) (t : Nat) : Int :=
  if I.cplex && I.running t then 2 * (I.den : Int) else
  match plan.get t with
  | some c => I.rew c.2.1
  | none => 0

/-- Reward (scaled by `den`) of a plan: what the objective of `gen I` evaluates to. -/
def planReward (I : Inst) (plan : Plan) : Int :=
  isum ((I.act.filter I.rewarded).map (rewOf I plan))

/-- Largest reward (scaled) any single cell of the task can earn. -/
def maxRew (I : Inst) (t : Nat) : Int :=
  if ((I.keys t).any (fun q => I.hasVar t q.1 q.2.1 q.2.2)) then
    ((I.keys t).filter (fun q => I.hasVar t q.1 q.2.1 q.2.2)).foldl (fun acc q => max acc (I.rew q.2.1)) 0
  else 0

/-- A cheap upper bound of the (scaled) objective: every rewarded task at its best cell. -/
def objBound (I : Inst) : Int :=
  isum ((I.act.filter I.rewarded).map (fun t =>
    if I.running t then (if I.cplex then 2 * (I.den : Int) else I.rew 0) else maxRew I t))

/-! ### Acyclicity of the dependencies among the tasks of the call -/

/-- Longest weighted chain of parents-with-variables ending in `c`, explored to depth `fuel`. -/
def lp (I : Inst) : Nat → Nat → Nat
  | 0, _ => 0
  | f + 1, c => maxL ((I.parentVars c).map (fun p => lp I f p + I.parentDur p + 1))

/-- The depth-`nT` exploration is a fixed point: true exactly when the parent relation among the
tasks of the call has no cycle (a chain has at most `nT` tasks). -/
def wfAcyclic (I : Inst) : Bool :=
  I.act.all (fun c => (I.parentVars c).all (fun p => decide (lp I I.nT p + I.parentDur p + 1 ≤ lp I I.nT c)))

/-- The feasible point that realises a plan (completeness direction). -/
def sigmaOf (I : Inst) (plan : Plan) : Var → Int
  | .cell t w k s => if plan.get t = some (w, k, s) then 1 else 0
  | .placedAt t k => (match plan.get t with | some c => if c.2.1 = k then 1 else 0 | none => 0)
  | .notPlacedAt t k => (match plan.get t with | some c => if c.2.1 = k then 0 else 1 | none => 1)
  | .phase t k => (match plan.get t with | some c => if c.2.1 = k ∧ k ≠ 0 then 1 else 0 | none => 0)
  | .start t => (match plan.get t with | some c => I.slot c.2.1 | none => I.slot I.nSlots + (lp I I.nT t : Nat))
  | .isPlaced t => if (plan.get t).isSome then 1 else 0
  | .allParents t =>
      if (I.parentVars t).all (fun p => (plan.get p).isSome) && (I.parentVars t).length == I.nParents t then 1 else 0
  | .reward t => (match plan.get t with | some c => I.rew c.2.1 | none => 0)

end ErdosVerif.TetriSpec
