import ErdosVerif.Model.Ledger
/-
M6 — executable model of `workload/tasks.py: Task` (state machine and guards).
Core Lean only. Times are integer microseconds; `-1` is `EventTime.invalid()`.

Python behaviours reproduced on purpose:
* `release(time)` refuses only non-releasable states (VIRTUAL / SCHEDULED /
  PREEMPTED are releasable); it always overwrites the release time and moves
  VIRTUAL → RELEASED only (`state < RELEASED`), leaving a SCHEDULED task SCHEDULED
  with `pre_scheduling_state` unchanged;
* `schedule` accepts VIRTUAL / RELEASED / PREEMPTED / SCHEDULED, never records the
  previous state (that is done by `release` only);
* `unschedule` restores `_pre_scheduling_state`;
* `start` asserts `start ≥ release` (AssertionError) after the fuzz draw;
* `step` returns False for a non-RUNNING task, for a start in the future and
  when the remaining time is already 0;
* `finish` gives COMPLETED iff the remaining time is 0, else EVICTED;
* `cancel` only from VIRTUAL / RELEASED / SCHEDULED; sets probability 0 and
  remaining time 0 (which raises for … nothing: cancellable states are not complete);
* `remaining_time` is state dependent (slowest strategy for VIRTUAL / RELEASED).
-/
namespace ErdosVerif.Model

inductive TState
  | virtual | released | scheduled | running | preempted | evicted | completed | cancelled
  deriving DecidableEq, Repr

/-- `TaskState.value` (checked against the generated table in `Props`). -/
def TState.val : TState → Nat
  | .virtual => 1 | .released => 2 | .scheduled => 3 | .running => 4
  | .preempted => 5 | .evicted => 6 | .completed => 7 | .cancelled => 8

def TState.name : TState → String
  | .virtual => "VIRTUAL" | .released => "RELEASED" | .scheduled => "SCHEDULED"
  | .running => "RUNNING" | .preempted => "PREEMPTED" | .evicted => "EVICTED"
  | .completed => "COMPLETED" | .cancelled => "CANCELLED"

def TState.ofName? : String → Option TState
  | "VIRTUAL" => some .virtual | "RELEASED" => some .released | "SCHEDULED" => some .scheduled
  | "RUNNING" => some .running | "PREEMPTED" => some .preempted | "EVICTED" => some .evicted
  | "COMPLETED" => some .completed | "CANCELLED" => some .cancelled
  | _ => none

inductive PKind
  | evict | load | cancel | place
  deriving DecidableEq, Repr

/-- Task identity: (task-graph index in workload order, node index in `_graph` order). -/
structure TaskId where
  g : Nat
  t : Nat
  deriving DecidableEq, Repr

/-- A scheduler decision (`Placement`). -/
structure PlacementS where
  kind : PKind
  task : TaskId                -- for place / cancel
  profile : Nat := 0           -- for load / evict
  time : Option Int := none
  pool : Option Nat := none
  worker : Option Nat := none
  strat : Option Strategy := none
  deriving Repr

def PlacementS.isPlaced (p : PlacementS) : Bool := p.pool.isSome

structure TaskS where
  name : String
  conditional : Bool
  terminal : Bool
  prob : Int                       -- probability in 1/1000
  strategies : List Strategy       -- `available_execution_strategies`
  profile : Nat                    -- identity of the WorkProfile
  state : TState := .virtual
  pre : TState := .virtual         -- `_pre_scheduling_state`
  release : Int := -1
  intendedRelease : Int := -1
  deadline : Int
  start : Int := -1
  completion : Int := -1
  remaining : Option Int := none   -- `_remaining_time`
  lastStep : Int := -1
  schedTime : Option Int := none
  placement : Option PlacementS := none
  pool : Option Nat := none        -- `_worker_pool_id`
  cancelTime : Option Int := none
  ts : Int := 0                    -- `timestamp` (tasks of one graph may differ: X@t -> X@t+1 pipelines)
  deriving Repr

/-- Exceptions of the task / task-graph / simulator layer. -/
inductive SErr
  | valueError | runtimeError | assertionError | attributeError | typeError | keyError
  | notImplementedError | indexError | fuel
  deriving DecidableEq, Repr

def SErr.name : SErr → String
  | .valueError => "ValueError" | .runtimeError => "RuntimeError"
  | .assertionError => "AssertionError" | .attributeError => "AttributeError"
  | .typeError => "TypeError" | .keyError => "KeyError"
  | .notImplementedError => "NotImplementedError" | .indexError => "IndexError"
  | .fuel => "ModelFuelExhausted"

namespace TaskS

def isComplete (t : TaskS) : Bool := t.state == .evicted || t.state == .completed

/-- First minimum / maximum by runtime, as Python's `min` / `max` with a key. -/
def fastest? (l : List Strategy) : Option Strategy :=
  match l with
  | [] => none
  | s :: r => some (r.foldl (fun b x => if x.runtime < b.runtime then x else b) s)

def slowest? (l : List Strategy) : Option Strategy :=
  match l with
  | [] => none
  | s :: r => some (r.foldl (fun b x => if x.runtime > b.runtime then x else b) s)

/-- `remaining_time` property (AttributeError when the task has no strategy). -/
def remainingTime (t : TaskS) : Except SErr Int :=
  match t.state with
  | .completed | .cancelled => .ok 0
  | .running | .preempted | .evicted | .scheduled =>
    match t.remaining with
    | some r => .ok r
    | none => .error .attributeError   -- the property returns None; every caller then does arithmetic on it
  | _ =>
    match slowest? t.strategies with
    | some s => .ok s.runtime
    | none => .error .attributeError

/-- Result of a mutating call: the state reached (at the raise point, if any) and
the exception raised. An exception is an outcome, not a rollback. -/
abbrev TRes := TaskS × Option SErr

def TRes.toExcept (r : TRes) : Except SErr TaskS :=
  match r.2 with
  | none => .ok r.1
  | some e => .error e

/-- `update_remaining_time`. -/
def updateRemaining (t : TaskS) (r : Int) : TRes :=
  if t.isComplete then (t, some .valueError)
  else if r < 0 then (t, some .valueError)
  else ({ t with remaining := some r }, none)

/-- `release(time)`; `time = none` uses the release time given at construction. -/
def doRelease (t : TaskS) (time : Option Int) : TRes :=
  if time.isNone && t.release == -1 then (t, some .valueError)
  else if !(t.state == .virtual || t.state == .scheduled || t.state == .preempted) then (t, some .valueError)
  else
    let t := match time with
      | some x => { t with release := x }
      | none => t
    if t.state.val < TState.released.val then ({ t with state := .released, pre := .released }, none)
    else (t, none)

/-- `schedule(time, placement)`: the fields are assigned before the remaining
time is updated from the placement's strategy. -/
def doSchedule (t : TaskS) (time : Int) (p : PlacementS) : TRes :=
  if !(t.state == .virtual || t.state == .released || t.state == .preempted || t.state == .scheduled) then
    (t, some .valueError)
  else
    let t' := { t with state := .scheduled, schedTime := some time, placement := some p, pool := p.pool }
    match p.strat with
    | none => (t', some .attributeError)        -- `placement.execution_strategy.runtime` on None
    | some s => t'.updateRemaining s.runtime

/-- `unschedule(time)`. -/
def doUnschedule (t : TaskS) : TRes :=
  if t.state != .scheduled then (t, some .valueError)
  else ({ t with state := t.pre, schedTime := none, placement := none, pool := none }, none)

/-- `start(time, variance)`; `fuzzed` is the value of `self._remaining_time.fuzz((0, variance))`
(an input of the model: the draw tape). The start time is assigned before the
`start ≥ release` assertion. -/
def doStart (t : TaskS) (time : Int) (fuzzed : Int) : TRes :=
  if t.state != .scheduled then (t, some .valueError)
  else if t.remaining.isNone then (t, some .attributeError)   -- `None.fuzz`
  else
    let t := { t with start := time }
    if time < t.release then (t, some .assertionError)
    else ({ t with lastStep := time, state := .running }).updateRemaining fuzzed

/-- `step(current_time, step_size)`: returns the new task and whether it finished. -/
def doStep (t : TaskS) (now dt : Int) : TaskS × Bool :=
  if t.state != .running || t.start > now + dt then (t, false)
  else
    match t.remaining with
    | none => (t, false)
    | some r =>
      if r == 0 then (t, false)
      else
        let exec := now + dt - t.lastStep
        if r - exec ≤ 0 then ({ t with lastStep := now + r, remaining := some 0 }, true)
        else ({ t with lastStep := now + dt, remaining := some (r - exec) }, false)

/-- `finish(time)` (`time = none` ⇒ completion time is the last step time). -/
def doFinish (t : TaskS) (time : Option Int) : TRes :=
  if !(t.state == .running || t.state == .preempted) then (t, some .valueError)
  else
    let c := time.getD t.lastStep
    ({ t with completion := c, pool := none,
              state := if t.remaining == some 0 then .completed else .evicted }, none)

/-- `cancel(time)`. -/
def doCancel (t : TaskS) (time : Int) : TRes :=
  if !(t.state == .virtual || t.state == .released || t.state == .scheduled) then (t, some .valueError)
  else ({ t with cancelTime := some time, prob := 0, remaining := some 0, state := .cancelled }, none)

/-- `preempt(time)`. -/
def doPreempt (t : TaskS) : TRes :=
  if t.state != .running then (t, some .valueError)
  else ({ t with state := .preempted, pool := none }, none)

end TaskS

/-- The mutating calls of the `Task` API, as data (so that callers can be restricted
to classes of calls). -/
inductive TaskCall
  | release (time : Option Int)
  | schedule (time : Int) (p : PlacementS)
  | unschedule
  | start (time fuzzed : Int)
  | step (now dt : Int)
  | finish (time : Option Int)
  | cancel (time : Int)
  | preempt
  | updateRemaining (r : Int)

/-- Calls that never make a task start running (everything except `start`) and do not
preempt it. -/
def TaskCall.isBenign : TaskCall → Bool
  | .start _ _ => false
  | .preempt => false
  | _ => true

namespace TaskS
def call (t : TaskS) : TaskCall → TRes
  | .release time => t.doRelease time
  | .schedule time p => t.doSchedule time p
  | .unschedule => t.doUnschedule
  | .start time fuzzed => t.doStart time fuzzed
  | .step now dt => ((t.doStep now dt).1, none)
  | .finish time => t.doFinish time
  | .cancel time => t.doCancel time
  | .preempt => t.doPreempt
  | .updateRemaining r => t.updateRemaining r
end TaskS
end ErdosVerif.Model
