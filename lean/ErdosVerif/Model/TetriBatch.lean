/-
M11 (part 3b): the optimisation model that `TetriSchedCPLEXScheduler` builds in **batching**
mode (`batching=True`), and the decoding of a solver assignment into decisions, including the
merge of the `BatchTask` placements back to the member tasks.

`genB inst` mirrors `schedulers/tetrisched_cplex_scheduler.py`:
* admission control of `schedule()` (per task, as without batching);
* `_add_variables`: `plan_ahead` = greatest deadline of the **tasks**; tasks grouped by
  `WorkProfile` into Python sets (the iteration order of those sets is an input: `setOrder`);
* `_create_batch_task_variables`: one `BatchTask` per `current_placement.execution_strategy`
  for the RUNNING (and, without retraction, SCHEDULED) tasks of the profile; then, the other
  tasks sorted by deadline (stable), for every head task and every strategy of the profile
  (sorted by `batch_size`, descending, stable) that meets the head's deadline from `now` and
  whose `batch_size` does not exceed the number of tasks left, the batch of the head and the
  next `batch_size − 1` tasks; `ValueError` (`min()` of an empty list) when a profile yields no
  batch; `…_unique_batch_placement` rows;
* `BatchTask`: release = max, **deadline = min** of the members; state RUNNING / SCHEDULED when
  all members are, RELEASED otherwise;
* `TaskOptimizerVariables.__init__` for a `BatchTask` (one strategy: the batch's
  `BatchStrategy`); task reward `n·(1 + 0.01·n)`;
* `_add_resource_constraints`: `plan_ahead` = greatest deadline of the **BatchTasks** (the
  minimum of their members'), i.e. the capacity rows may end before the variables do;
* `_add_objective`: one integer `…_not_placed ∈ [−1, 0]` per task that is in some batch, tied
  to the `is_placed` of its batches, penalty 99999;
* `get_placements` + the merge loop of `schedule()`: every member of a batch gets the batch's
  cell; the first *placed* answer for a task wins.

The model is integral: rows and objective that involve rewards are scaled by
`scale = 100 · den` (`den` = last slot − first slot, or 1); a `reward` variable stands for
`scale ·` the continuous solver variable.  The objective constant contributed by RUNNING
batches (`2·n²·priority`, `priority` interpolated over the batches of a profile) is kept as an
exact fraction `objConst` beside the model.

Core Lean only (the driver links this module).
-/
import ErdosVerif.Model.Tetri
namespace ErdosVerif.TetriBatch
open ErdosVerif.Mip ErdosVerif.Tetri

/-- One `ExecutionStrategy` of a profile. -/
structure BStrat where
  runtime : Nat
  batch : Nat                 -- `batch_size`
  req : List (String × Nat)
  deriving Repr, Inhabited

structure Profile where
  name : String
  strats : List BStrat        -- `profile.execution_strategies`, in order
  deriving Repr, Inhabited

structure BTask where
  uniq : String
  state : TState
  release : Int
  deadline : Int
  profile : Nat               -- index into `profiles`
  prevW : Nat                 -- RUNNING / SCHEDULED: worker index of `current_placement`
  prevG : Nat                 -- RUNNING / SCHEDULED: identity of `current_placement.execution_strategy`
                              -- (index into `prevStrats`; tasks of one earlier batch share it)
  remaining : Nat             -- RUNNING / SCHEDULED: `task.remaining_time`
  deriving Repr, Inhabited

structure BInst where
  now : Int
  disc : Nat
  planAheadOpt : Int
  workers : List WorkerI
  profiles : List Profile
  prevStrats : List BStrat    -- the strategies of the current placements
  tasks : List BTask          -- offered tasks (before admission control), then the previously placed ones
  nOffered : Nat
  setOrder : List Nat         -- task indices: relative iteration order of the per-profile Python sets
  enforceDeadlines : Bool
  retract : Bool
  deriving Repr, Inhabited

/-- A `BatchTask`. -/
structure Batch where
  name : String               -- `{profile.name}_{counter}`
  members : List Nat          -- task indices, `BatchTask.tasks`
  strat : BStrat              -- the strategy wrapped into the batch's `BatchStrategy`
  prio : Int                  -- raw priority (before the per-profile interpolation)
  profile : Nat
  deriving Repr, Inhabited

inductive BVar where
  | cell (b w k : Nat)        -- batch, worker, slot index (one strategy per batch)
  | isPlaced (b : Nat)
  | reward (b : Nat)          -- scaled by `scale`
  | notPlaced (t : Nat)       -- per task
  deriving DecidableEq, Repr, Inhabited

/-! ### Accessors -/

def BInst.nT (I : BInst) : Nat := I.tasks.length
def BInst.nW (I : BInst) : Nat := I.workers.length
def BInst.task (I : BInst) (t : Nat) : BTask := I.tasks.getD t default
def BInst.worker (I : BInst) (w : Nat) : WorkerI := I.workers.getD w default
def BInst.prof (I : BInst) (p : Nat) : Profile := I.profiles.getD p default
def BInst.prevStrat (I : BInst) (g : Nat) : BStrat := I.prevStrats.getD g default
def BInst.strats (I : BInst) (t : Nat) : List BStrat := (I.prof (I.task t).profile).strats

def BStrat.toStrat (s : BStrat) : Strat := ⟨s.runtime, s.req⟩

/-- Runtime of `get_fastest_strategy()` of the task's profile. -/
def BInst.fastest (I : BInst) (t : Nat) : Nat := minL ((I.strats t).map (fun s => s.runtime))

/-! ### Admission control -/

def BInst.hopeless (I : BInst) (t : Nat) : Bool :=
  I.enforceDeadlines && decide ((I.task t).deadline < I.now + (I.fastest t : Nat))

def BInst.active (I : BInst) (t : Nat) : Bool := !(decide (t < I.nOffered) && I.hopeless t)

/-- `tasks_to_be_scheduled + previously_placed_tasks` as handed to `_add_variables`. -/
def BInst.act (I : BInst) : List Nat := (List.range I.nT).filter I.active
def BInst.cancelled (I : BInst) : List Nat := (List.range I.nOffered).filter (fun t => !I.active t)
def BInst.offeredAct (I : BInst) : List Nat := (List.range I.nOffered).filter I.active

/-- No model is built when no offered task survives the admission control. -/
def BInst.noModel (I : BInst) : Bool := I.offeredAct.isEmpty

/-! ### Batch construction (`_create_batch_task_variables`) -/

/-- Profiles in the insertion order of `profile_to_tasks`. -/
def BInst.profOrder (I : BInst) : List Nat := (I.act.map (fun t => (I.task t).profile)).eraseDups

/-- The tasks of profile `p` in the iteration order of the Python set. -/
def BInst.profTasks (I : BInst) (p : Nat) : List Nat :=
  I.setOrder.filter (fun t => decide (t < I.nT) && I.active t && (I.task t).profile == p)

/-- RUNNING, or SCHEDULED without retraction: grouped by the strategy of the current placement. -/
def BInst.isPrior (I : BInst) (t : Nat) : Bool :=
  (I.task t).state == .running || (!I.retract && (I.task t).state == .scheduled)

def isumL : List Int → Int := isum

/-- Insertion of an element that came *earlier* in the input into the sorted rest: before the
elements with an equal key (stable). -/
def insertBy (key : Nat → Int) (x : Nat) : List Nat → List Nat
  | [] => [x]
  | y :: ys => if key y < key x then y :: insertBy key x ys else x :: y :: ys

/-- Stable sort by `key` (what `sorted(…, key=…)` computes). -/
def sortBy (key : Nat → Int) : List Nat → List Nat
  | [] => []
  | x :: xs => insertBy key x (sortBy key xs)

/-- Stable sort of strategies by `batch_size`, descending (`sorted(…, reverse=True)` keeps the
order of equal keys). -/
def insertStrat (x : BStrat) : List BStrat → List BStrat
  | [] => [x]
  | y :: ys => if x.batch < y.batch then y :: insertStrat x ys else x :: y :: ys
def sortStrats : List BStrat → List BStrat
  | [] => []
  | x :: xs => insertStrat x (sortStrats xs)

/-- The `BatchTask`s of the RUNNING / permanently SCHEDULED tasks: one per strategy identity. -/
def BInst.priorBatches (I : BInst) (p : Nat) (L : List Nat) : List Batch :=
  let prior := L.filter I.isPrior
  ((prior.map (fun t => (I.task t).prevG)).eraseDups).map (fun g =>
    let ms := prior.filter (fun t => (I.task t).prevG == g)
    { name := "", members := ms, strat := I.prevStrat g,
      prio := isumL (ms.map (fun t => (I.task t).deadline - I.now - ((I.task t).remaining : Nat))),
      profile := p })

/-- The batches headed by the first task of `U` (the deque at one iteration of the loop). -/
def BInst.headBatches (I : BInst) (p : Nat) (U : List Nat) : List Batch :=
  match U with
  | [] => []
  | h :: _ =>
    ((sortStrats (I.prof p).strats).filter (fun s => decide (I.now + (s.runtime : Nat) ≤ (I.task h).deadline)
        && decide (s.batch ≤ U.length))).map (fun s =>
      let ms := U.take s.batch
      { name := "", members := ms, strat := s,
        prio := isumL (ms.map (fun t => (I.task t).deadline - I.now - (s.runtime : Nat))),
        profile := p })

/-- All suffixes of the deadline-sorted list, one per iteration of the `while` loop. -/
def BInst.windowBatches (I : BInst) (p : Nat) : List Nat → List Batch
  | [] => []
  | h :: rest => I.headBatches p (h :: rest) ++ I.windowBatches p rest

def BInst.unscheduled (I : BInst) (L : List Nat) : List Nat :=
  sortBy (fun t => (I.task t).deadline) (L.filter (fun t => !I.isPrior t))

/-- Number the batches of one profile: `{profile.name}_{counter}`, counter from 1. -/
def nameBatches (pname : String) : Nat → List Batch → List Batch
  | _, [] => []
  | i, b :: bs => { b with name := s!"{pname}_{i}" } :: nameBatches pname (i + 1) bs

/-- The `BatchTask`s of profile `p` in creation order. -/
def BInst.profBatches (I : BInst) (p : Nat) : List Batch :=
  let L := I.profTasks p
  nameBatches (I.prof p).name 1 (I.priorBatches p L ++ I.windowBatches p (I.unscheduled L))

/-- `tasks_to_variables.values()`. -/
def BInst.batches (I : BInst) : List Batch := I.profOrder.flatMap I.profBatches

/-- `min(batch_priorities)` of an empty list: `ValueError`. -/
def BInst.raises (I : BInst) : Bool := I.profOrder.any (fun p => (I.profBatches p).isEmpty)

def BInst.nB (I : BInst) : Nat := I.batches.length
def BInst.batch (I : BInst) (b : Nat) : Batch := I.batches.getD b default

/-- Maximum of a non-empty list of integers (`0` for the empty list). -/
def maxI : List Int → Int
  | [] => 0
  | [a] => a
  | a :: as => max a (maxI as)

/-- Minimum of a non-empty list of integers (`0` for the empty list). -/
def minI : List Int → Int
  | [] => 0
  | [a] => a
  | a :: as => min a (minI as)

/-- `BatchTask.release_time`: the latest member release. -/
def BInst.bRelease (I : BInst) (b : Batch) : Int := maxI (b.members.map (fun t => (I.task t).release))
/-- `BatchTask.deadline`: the **earliest** member deadline. -/
def BInst.bDeadline (I : BInst) (b : Batch) : Int := minI (b.members.map (fun t => (I.task t).deadline))

/-- `BatchTask.state == RUNNING`. -/
def BInst.bRunning (I : BInst) (b : Batch) : Bool := b.members.all (fun t => (I.task t).state == .running)
/-- SCHEDULED batch that must be placed again (no retraction). -/
def BInst.bMust (I : BInst) (b : Batch) : Bool :=
  !I.bRunning b && b.members.all (fun t => (I.task t).state == .scheduled) && !I.retract
/-- `tasks[0].current_placement` worker. -/
def BInst.bPrevW (I : BInst) (b : Batch) : Nat := (I.task (b.members.headD 0)).prevW

/-! ### Time grids -/

/-- `plan_ahead` of `_add_variables`: greatest deadline of the tasks. -/
def BInst.planAheadV (I : BInst) : Int :=
  if I.planAheadOpt = -1 then
    I.act.foldl (fun acc t => if (I.task t).deadline > acc then (I.task t).deadline else acc) (-1)
  else I.planAheadOpt

/-- `plan_ahead` of `_add_resource_constraints`: greatest deadline of the `BatchTask`s. -/
def BInst.planAheadR (I : BInst) : Int :=
  if I.planAheadOpt = -1 then
    I.batches.foldl (fun acc b => if I.bDeadline b > acc then I.bDeadline b else acc) (-1)
  else I.planAheadOpt

def slotsOf (pa : Int) (disc : Nat) : Nat := if pa < 0 then 0 else pa.toNat / disc + 1

/-- Slots that carry variables. -/
def BInst.nSlotsV (I : BInst) : Nat := slotsOf I.planAheadV I.disc
/-- Slots that carry capacity rows. -/
def BInst.nSlotsR (I : BInst) : Nat := slotsOf I.planAheadR I.disc

def BInst.slot (I : BInst) (k : Nat) : Int := I.now + (k * I.disc : Nat)
def BInst.span (I : BInst) : Nat := (I.nSlotsV - 1) * I.disc
def BInst.den (I : BInst) : Nat := if I.span = 0 then 1 else I.span
/-- Common denominator of every reward coefficient: `100 · den`. -/
def BInst.scale (I : BInst) : Nat := 100 * I.den
/-- `den · np.interp(slot k, (first, last), (2, 1))`. -/
def BInst.rew (I : BInst) (k : Nat) : Int :=
  if I.span = 0 then 1 else 2 * (I.span : Int) - (k * I.disc : Nat)
/-- `100 · task_reward` = `100·n·(1 + 0.01·n)`. -/
def Batch.reward100 (b : Batch) : Nat := 100 * b.members.length + b.members.length * b.members.length

/-! ### Cells -/

/-- Is the cell `(w, slot k)` of a batch that is not RUNNING left to the optimiser? -/
def BInst.cellOk (I : BInst) (b : Batch) (w k : Nat) : Bool :=
  compatible (I.worker w) b.strat.toStrat &&
  decide (I.bRelease b ≤ I.slot k) &&
  !(I.enforceDeadlines && decide (I.slot k + (b.strat.runtime : Nat) > I.bDeadline b))

def BInst.hasVar (I : BInst) (bi : Nat) (w k : Nat) : Bool :=
  !I.bRunning (I.batch bi) && I.cellOk (I.batch bi) w k

/-- The entry of the space-time matrix of a batch that is not RUNNING. -/
def BInst.cellE (I : BInst) (bi w k : Nat) : LinExpr BVar :=
  if I.cellOk (I.batch bi) w k then .ofVar (.cell bi w k) else .ofConst 0

/-- Keys `(worker, slot)` in dict order. -/
def BInst.keys (I : BInst) : List (Nat × Nat) :=
  (List.range I.nW).flatMap (fun w => (List.range I.nSlotsV).map (fun k => (w, k)))

def BInst.sumCells (I : BInst) (bi : Nat) : LinExpr BVar :=
  LinExpr.sumL (I.keys.map (fun q => I.cellE bi q.1 q.2))

def BInst.isPlacedE (I : BInst) (bi : Nat) : LinExpr BVar :=
  if I.bRunning (I.batch bi) || I.bMust (I.batch bi) then .ofConst 1 else .ofVar (.isPlaced bi)

/-- Indices of the batches that get variables (not RUNNING). -/
def BInst.free (I : BInst) : List Nat := (List.range I.nB).filter (fun bi => !I.bRunning (I.batch bi))
/-- Indices of the RUNNING batches. -/
def BInst.runningB (I : BInst) : List Nat := (List.range I.nB).filter (fun bi => I.bRunning (I.batch bi))

/-! ### Names -/

def BInst.bname (I : BInst) (bi : Nat) : String := (I.batch bi).name
def BInst.tname (I : BInst) (t : Nat) : String := (I.task t).uniq

def BInst.varName (I : BInst) : BVar → String
  | .cell b w k => s!"{I.bname b}_placed_at_Worker_{w + 1}_on_Time_{I.slot k}_with_strategy_0"
  | .isPlaced b => s!"{I.bname b}_is_placed"
  | .reward b => s!"{I.bname b}_reward"
  | .notPlaced t => s!"{I.tname t}_not_placed"

/-! ### Rows of `TaskOptimizerVariables.__init__` -/

def BInst.cPlace (I : BInst) (bi : Nat) : List (Constr BVar) :=
  if I.bMust (I.batch bi) then
    [.lin s!"{I.bname bi}_previously_scheduled_required_worker_placement" (I.sumCells bi) .eq 1]
  else
    [.lin s!"{I.bname bi}_consistent_worker_placement" (I.sumCells bi) .le 1,
     .lin s!"{I.bname bi}_is_placed_constraint"
       (LinExpr.sub (LinExpr.ofVar (.isPlaced bi)) (I.sumCells bi)) .eq 0]

/-- `scale · Σ task_reward · placement_reward[slot] · cell`. -/
def BInst.rewardSum (I : BInst) (bi : Nat) : LinExpr BVar :=
  LinExpr.sumL (I.keys.map (fun q =>
    LinExpr.smul (((I.batch bi).reward100 : Int) * I.rew q.2) (I.cellE bi q.1 q.2)))

def BInst.cReward (I : BInst) (bi : Nat) : Constr BVar :=
  .lin s!"{I.bname bi}_reward_constraint"
    (LinExpr.sub (LinExpr.ofVar (.reward bi)) (I.rewardSum bi)) .eq 0

/-! ### `…_unique_batch_placement` rows -/

/-- The batches (global indices) created by the window loop, i.e. whose members are recorded in
`tasks_to_batch_tasks`: a batch none of whose members is a prior task. -/
def BInst.isWindow (I : BInst) (b : Batch) : Bool := b.members.all (fun t => !I.isPrior t)

/-- Tasks that are members of some window batch, in first-appearance order. -/
def BInst.windowTasks (I : BInst) : List Nat :=
  ((I.batches.filter I.isWindow).flatMap (fun b => b.members)).eraseDups

/-- Indices of the window batches that contain task `t`. -/
def BInst.windowOf (I : BInst) (t : Nat) : List Nat :=
  (List.range I.nB).filter (fun bi => I.isWindow (I.batch bi) && (I.batch bi).members.contains t)

def BInst.cUnique (I : BInst) : List (Constr BVar) :=
  I.windowTasks.map (fun t =>
    .lin s!"{I.tname t}_unique_batch_placement" (LinExpr.sumL ((I.windowOf t).map I.isPlacedE)) .le 1)

/-! ### Capacity rows (`_add_resource_constraints`) -/

def BInst.req (I : BInst) (bi : Nat) (r : String) : Nat := qty (I.batch bi).strat.req r

/-- Does a start at slot `k'` occupy slot `k`? (`start ≤ t < start + runtime`) -/
def BInst.covers (I : BInst) (bi k' k : Nat) : Bool :=
  decide (k' ≤ k) && decide (k * I.disc < k' * I.disc + (I.batch bi).strat.runtime)

/-- Demand of a batch with variables on worker `w` at slot `k`. -/
def BInst.demandE (I : BInst) (bi w k : Nat) (r : String) : LinExpr BVar :=
  LinExpr.sumL ((I.keys.filter (fun q => q.1 == w && I.covers bi q.2 k)).map
    (fun q => LinExpr.smul (I.req bi r : Nat) (I.cellE bi q.1 q.2)))

/-- Constant demand of a RUNNING batch: charged once, on the worker of its first member, on
`[now, now + full runtime)`. -/
def BInst.runDemand (I : BInst) (bi w k : Nat) (r : String) : Nat :=
  if I.bPrevW (I.batch bi) = w ∧ I.covers bi 0 k then I.req bi r else 0

def BInst.resE (I : BInst) (w k : Nat) (r : String) : LinExpr BVar :=
  LinExpr.add (LinExpr.sumL (I.free.map (fun bi => I.demandE bi w k r)))
    (.ofConst ((nsum (I.runningB.map (fun bi => I.runDemand bi w k r)) : Nat) : Int))

/-- Is some term appended to `resource_constraint_terms`? -/
def BInst.resHasTerm (I : BInst) (w k : Nat) (r : String) : Bool :=
  I.free.any (fun bi => I.req bi r != 0 &&
    I.keys.any (fun q => q.1 == w && I.covers bi q.2 k && I.cellOk (I.batch bi) q.1 q.2)) ||
  I.runningB.any (fun bi => I.req bi r != 0 && decide (I.bPrevW (I.batch bi) = w) && I.covers bi 0 k)

def BInst.resRow (I : BInst) (w k : Nat) (r : String) : Bool :=
  qty (I.worker w).res r != 0 && I.resHasTerm w k r

def BInst.cRes (I : BInst) : List (Constr BVar) :=
  (List.range I.nSlotsR).flatMap (fun k => (List.range I.nW).flatMap (fun w =>
    ((I.worker w).types.filter (fun r => I.resRow w k r)).map (fun r =>
      .lin s!"{r}_utilization_Worker_{w + 1}_at_Time_{I.slot k}" (I.resE w k r) .le
        (qty (I.worker w).res r : Nat))))

/-! ### Objective rows (`_add_objective`) -/

/-- Tasks that are members of some batch, in first-appearance order. -/
def BInst.batchTasks (I : BInst) : List Nat := (I.batches.flatMap (fun b => b.members)).eraseDups

/-- Indices of the batches that contain task `t`. -/
def BInst.batchesOf (I : BInst) (t : Nat) : List Nat :=
  (List.range I.nB).filter (fun bi => (I.batch bi).members.contains t)

/-- `not_placed == Σ is_placed − 1` (the code gives the row no name). -/
def BInst.cNotPlaced (I : BInst) : List (Constr BVar) :=
  I.batchTasks.map (fun t =>
    .lin "" (LinExpr.sub (LinExpr.ofVar (.notPlaced t))
      (LinExpr.sumL ((I.batchesOf t).map I.isPlacedE))) .eq (-1))

def BInst.constrs (I : BInst) : List (Constr BVar) :=
  I.free.flatMap (fun bi => I.cPlace bi ++ [I.cReward bi]) ++ I.cUnique ++ I.cRes ++ I.cNotPlaced

def bbin (v : BVar) : VarDecl BVar := ⟨v, .bin, some 0, some 1⟩

def BInst.cellVars (I : BInst) (bi : Nat) : List (VarDecl BVar) :=
  (I.keys.filter (fun q => I.cellOk (I.batch bi) q.1 q.2)).map (fun q => bbin (.cell bi q.1 q.2))

def BInst.placedVar (I : BInst) (bi : Nat) : List (VarDecl BVar) :=
  if I.bMust (I.batch bi) then [] else [bbin (.isPlaced bi)]

def BInst.batchVars (I : BInst) (bi : Nat) : List (VarDecl BVar) :=
  I.cellVars bi ++ I.placedVar bi ++
    [⟨.reward bi, .int, some 0, some (4 * ((I.batch bi).reward100 : Int) * (I.den : Int))⟩]

def BInst.vars (I : BInst) : List (VarDecl BVar) :=
  I.free.flatMap I.batchVars ++ I.batchTasks.map (fun t => ⟨.notPlaced t, .int, some (-1), some 0⟩)

/-- `scale ·` (objective without the constants of the RUNNING batches). -/
def BInst.obj (I : BInst) : LinExpr BVar :=
  LinExpr.add (LinExpr.sumL (I.free.map (fun bi => LinExpr.ofVar (.reward bi))))
    (LinExpr.sumL (I.batchTasks.map (fun t => LinExpr.smul (99999 * (I.scale : Int)) (LinExpr.ofVar (.notPlaced t)))))

def genB (I : BInst) : Model BVar := ⟨I.vars, I.constrs, QuadExpr.ofLin I.obj⟩

def BInst.scaledVars (I : BInst) : List BVar := I.free.map BVar.reward
def BInst.scaledRow (I : BInst) (n : String) : Bool :=
  I.free.any (fun bi => n == s!"{I.bname bi}_reward_constraint")

/-! ### The constant of the RUNNING batches: `2 · n² · priority` -/

/-- `np.interp(p, (min, max), (2, 1))` as a fraction `(num, den)`; `1` when `min = max`. -/
def interpPrio (ps : List Int) (p : Int) : Int × Int :=
  let lo := minI ps
  let hi := maxI ps
  if hi = lo then (1, 1) else (2 * (hi - lo) - (p - lo), hi - lo)

/-- Sum of fractions, no normalisation. -/
def addFrac (a b : Int × Int) : Int × Int := (a.1 * b.2 + b.1 * a.2, a.2 * b.2)

/-- Σ over the RUNNING batches of `2·n²·priority` as a fraction. -/
def BInst.objConst (I : BInst) : Int × Int :=
  (I.profOrder.flatMap (fun p =>
    let bs := I.profBatches p
    let ps := bs.map (fun b => b.prio)
    (bs.filter I.bRunning).map (fun b =>
      let q := interpPrio ps b.prio
      ((2 * (b.members.length * b.members.length : Nat) : Int) * q.1, q.2)))).foldl addFrac (0, 1)

/-! ### Decoding (`get_placements` + the merge loop of `schedule`) -/

inductive BOutcome where
  | placed (w b : Nat) (time : Int)    -- worker, batch (whose `BatchStrategy` is reported), start
  | unplaced
  | cancel
  deriving Repr, DecidableEq, Inhabited

def BOutcome.isPlaced : BOutcome → Bool
  | .placed .. => true
  | _ => false

structure BDecision where
  task : Nat
  out : BOutcome
  deriving Repr, DecidableEq, Inhabited

/-- First key in dict order whose variable is 1. -/
def BInst.chosen (I : BInst) (σ : BVar → Int) (bi : Nat) : Option (Nat × Nat) :=
  I.keys.find? (fun q => I.hasVar bi q.1 q.2 && σ (.cell bi q.1 q.2) == 1)

/-- `get_placements` of one batch: the same answer for every member. -/
def BInst.decodeBatch (I : BInst) (σ : BVar → Int) (bi : Nat) : List BDecision :=
  match I.chosen σ bi with
  | some (w, k) => (I.batch bi).members.map (fun t => ⟨t, .placed w bi (I.slot k)⟩)
  | none => (I.batch bi).members.map (fun t => ⟨t, .unplaced⟩)

/-- `task_placement_map[task] = placement` unless the task already has a *placed* answer; an
existing key keeps its position. -/
def upsert : List BDecision → BDecision → List BDecision
  | [], d => [d]
  | e :: es, d => if e.task = d.task then (if e.out.isPlaced then e else d) :: es else e :: upsert es d

def mergeB (ds : List BDecision) : List BDecision := ds.foldl upsert []

def decodeB (I : BInst) (σ : BVar → Int) : List BDecision :=
  I.cancelled.map (fun t => ⟨t, .cancel⟩) ++ mergeB (I.free.flatMap (I.decodeBatch σ))

def decodeFailB (I : BInst) : List BDecision :=
  I.cancelled.map (fun t => ⟨t, .cancel⟩) ++ I.offeredAct.map (fun t => ⟨t, .unplaced⟩)

def decodeNoModelB (I : BInst) : List BDecision := I.cancelled.map (fun t => ⟨t, .cancel⟩)

/-! ### Well-formedness (evaluated by the driver on every extracted instance) -/

/-- `setOrder` enumerates every task exactly once. -/
def BInst.wfOrder (I : BInst) : Bool :=
  decide (I.setOrder.length = I.nT) && I.setOrder.all (fun t => decide (t < I.nT)) &&
  (List.range I.nT).all (fun t => I.setOrder.contains t)

/-- `disc ≥ 1`, `now ≥ 0`, offered ⊆ tasks, deadlines ≥ 0, every task names a profile with a
strategy, batch sizes ≥ 1, profile names distinct. -/
def BInst.wfGrid (I : BInst) : Bool :=
  decide (1 ≤ I.disc) && decide (0 ≤ I.now) && decide (I.nOffered ≤ I.nT) &&
  (List.range I.nT).all (fun t => decide ((I.task t).profile < I.profiles.length) &&
    decide (0 ≤ (I.task t).deadline) && decide (1 ≤ (I.strats t).length)) &&
  I.profiles.all (fun p => p.strats.all (fun s => decide (1 ≤ s.batch))) &&
  I.prevStrats.all (fun s => decide (1 ≤ s.batch)) &&
  decide ((I.profiles.map (fun p => p.name)).eraseDups.length = I.profiles.length)

/-- A prior task names a worker and a strategy of this invocation which that worker can hold. -/
def BInst.wfPrior (I : BInst) : Bool :=
  I.act.all (fun t => !I.isPrior t ||
    (decide ((I.task t).prevW < I.nW) && decide ((I.task t).prevG < I.prevStrats.length) &&
     compatible (I.worker (I.task t).prevW) (I.prevStrat (I.task t).prevG).toStrat))

/-- Load of the RUNNING batches alone. -/
def BInst.runningLoad (I : BInst) (w k : Nat) (r : String) : Nat :=
  nsum (I.runningB.map (fun bi => I.runDemand bi w k r))

def BInst.wfRunningFit (I : BInst) : Bool :=
  (List.range I.nSlotsR).all (fun k => (List.range I.nW).all (fun w => (I.worker w).types.all (fun r =>
    decide (I.runningLoad w k r ≤ qty (I.worker w).res r))))

def BInst.wf (I : BInst) : Bool := I.wfOrder && I.wfGrid && I.wfPrior && I.wfRunningFit

end ErdosVerif.TetriBatch
