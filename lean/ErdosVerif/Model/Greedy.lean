import ErdosVerif.Model.Task
/-
M9 — executable model of the three greedy policies
`schedulers/edf_scheduler.py`, `schedulers/fifo_scheduler.py`, `schedulers/lsf_scheduler.py`
(`schedule()` in non-preemptive mode: the virtual cluster is `copy(worker_pools)`).
Core Lean only.  The cluster is `Model.Pool` of `Model/Ledger.lean`; a task is `Model.TaskS`.

Python behaviours reproduced on purpose:
* the virtual cluster is built (`copy`) *before* the offer is sorted, so a raising copy wins
  over a raising sort key;
* `sorted(tasks, key=…)` is a stable sort that only uses `<` on the keys; the keys are
  - EDF  `(task.deadline, task.task_graph)`: tuple `<` = first component that is not `==`
    decides (EventTime `==`/`<` are integer comparisons of the µs values; `str` `<` is
    lexicographic by code point, which is Lean's `String` order),
  - FIFO `task.release_time`,
  - LSF  `task.deadline - sim_time - task.remaining_time` (state dependent remaining time;
    `None` ⇒ AttributeError while the keys are computed, before anything is placed);
* EDF and FIFO test `enforce_deadlines and deadline < sim_time + fastest.runtime` first
  (`get_fastest_strategy()` is `None` for an empty strategy list ⇒ AttributeError, only when
  the flag is on) and answer with a cancellation; LSF has no such test at all
  (its constructor does not even accept the flag);
* first fit: strategies in list order (outer loop), pools in dict order (inner loop),
  `WorkerPool.can_accomodate_strategy` = any worker can;
* all three then call `worker_pool.place_task(task, execution_strategy=strategy)`
  (first worker of the pool that can accommodate *that* strategy).  Until /repo commit 366b4de
  LSF called `worker_pool.place_task(task)` without the strategy it had just tested (the pool
  then charged the first fitting strategy of the first worker that fits any — finding D13,
  fixed); `Policy.passesStrategy` is the switch that modelled it.  The reported placement
  always names the tested strategy;
* the return value of `place_task` is ignored; an exception it raises aborts `schedule()`;
* a task that fits nowhere is answered with `create_task_placement(task)` (no pool, no
  strategy, no time); placements are returned in processing order;
* the reported placement never names a worker (`worker_id=None`) and its time is `sim_time`.

Out of scope: `preemptive=True` (EDF/LSF then plan on `deepcopy(worker_pools)`, i.e. on an
empty cluster, and are offered the running tasks as well — the simulator cannot run that mode,
DESIGN §4-D15).
-/
namespace ErdosVerif.Model.Greedy
open ErdosVerif.Model

inductive Policy
  | edf | fifo | lsf
  deriving DecidableEq, Repr

/-- Does the policy hand the strategy it has just tested to `WorkerPool.place_task`?
All three do since /repo commit 366b4de ("fix: LSFScheduler charges the execution strategy it
reports"); before it this was `false` for `.lsf` (finding D13).  Kept as the single switch:
should a policy stop passing the strategy, set it to `false` here and the unconditional
theorems of `Props/C13.lean` / `Props/C10_Greedy.lean` stop compiling for it. -/
def Policy.passesStrategy : Policy → Bool
  | _ => true

/-- Does the policy's loop contain the `enforce_deadlines` admission test? -/
def Policy.checksDeadline : Policy → Bool
  | .lsf => false
  | _ => true

def Policy.ofName? : String → Option Policy
  | "EDF" => some .edf | "FIFO" => some .fifo | "LSF" => some .lsf | _ => none

/-- One invocation's parameters. `enforce` is the constructor flag `enforce_deadlines`. -/
structure Cfg where
  policy : Policy
  enforce : Bool
  now : Int
  deriving Repr

/-- An offered task as the policy sees it (an element of `get_schedulable_tasks(...)`). -/
structure Offered where
  id : TaskId
  graph : String          -- `task.task_graph`
  task : TaskS
  deriving Repr

/-- Identity of the task in the ledger (`Comp.task lid`); the same encoding as `Sim.gid`. -/
def Offered.lid (o : Offered) : Nat := o.id.g * 65536 + o.id.t

def ofPy : PyErr → SErr
  | .valueError => .valueError
  | .runtimeError => .runtimeError
  | .keyError => .keyError
  | .attributeError => .attributeError

/-! ### Python's `sorted` -/

/-- Insert `x` before the first element that is not `<` it. -/
def insertBy {α} (lt : α → α → Bool) (x : α) : List α → List α
  | [] => [x]
  | y :: ys => if lt y x then y :: insertBy lt x ys else x :: y :: ys

/-- Stable sort that only uses `<` (insertion sort from the right). For a strict weak order
`lt` the stable sorted permutation is unique, so this is what `sorted` returns. -/
def sortBy {α} (lt : α → α → Bool) : List α → List α
  | [] => []
  | x :: xs => insertBy lt x (sortBy lt xs)

/-- `(a.deadline, a.task_graph) < (b.deadline, b.task_graph)` as Python compares tuples. -/
def edfLt (a b : Offered) : Bool :=
  if a.task.deadline == b.task.deadline then decide (a.graph < b.graph)
  else decide (a.task.deadline < b.task.deadline)

def fifoLt (a b : Offered) : Bool := decide (a.task.release < b.task.release)

/-- `task.remaining_time` where it is defined (0 otherwise; `schedule` raises before use). -/
def remaining (o : Offered) : Int :=
  match o.task.remainingTime with
  | .ok r => r
  | .error _ => 0

/-- `LSFScheduler.slack`. -/
def slack (now : Int) (o : Offered) : Int := o.task.deadline - now - remaining o

def lsfLt (now : Int) (a b : Offered) : Bool := decide (slack now a < slack now b)

/-- The policy's strict priority comparison: `prioLt cfg a b` = "`a` sorts strictly before `b`". -/
def prioLt (cfg : Cfg) : Offered → Offered → Bool :=
  match cfg.policy with
  | .edf => edfLt
  | .fifo => fifoLt
  | .lsf => lsfLt cfg.now

/-- `ordered_tasks`. -/
def order (cfg : Cfg) (offer : List Offered) : List Offered := sortBy (prioLt cfg) offer

/-- Does computing the sort keys raise? -/
def keyError? (cfg : Cfg) (offer : List Offered) : Option SErr :=
  match cfg.policy with
  | .lsf =>
    if offer.any (fun o => match o.task.remainingTime with | .ok _ => false | .error _ => true)
    then some .attributeError else none
  | _ => none

/-! ### one loop iteration -/

def cancelP (o : Offered) : PlacementS := { kind := .cancel, task := o.id }
def unplacedP (o : Offered) : PlacementS := { kind := .place, task := o.id }
def placedP (cfg : Cfg) (o : Offered) (pool : Nat) (s : Strategy) : PlacementS :=
  { kind := .place, task := o.id, time := some cfg.now, pool := some pool, strat := some s }

/-- The admission test of EDF / FIFO. -/
def hopeless (cfg : Cfg) (o : Offered) : Except SErr Bool :=
  if cfg.policy.checksDeadline && cfg.enforce then
    match TaskS.fastest? o.task.strategies with
    | none => .error .attributeError
    | some f => .ok (decide (o.task.deadline < cfg.now + f.runtime))
  else .ok false

/-- Index of the first pool that can accommodate `s`. -/
def firstPool (s : Strategy) : List Pool → Nat → Option Nat
  | [], _ => none
  | p :: r, i => if p.canAccommodate s then some i else firstPool s r (i + 1)

/-- The double loop: first strategy (list order) that some pool (dict order) accommodates. -/
def choose (V : List Pool) : List Strategy → Option (Strategy × Nat)
  | [] => none
  | s :: r =>
    match firstPool s V 0 with
    | some i => some (s, i)
    | none => choose V r

/-- What the policy passes as `execution_strategy=` to `WorkerPool.place_task`. -/
def passed (cfg : Cfg) (s : Strategy) : Option Strategy :=
  if cfg.policy.passesStrategy then some s else none

/-- One iteration of the scheduling loop on the virtual cluster `V`. -/
def step (cfg : Cfg) (V : List Pool) (o : Offered) : Except SErr (PlacementS × List Pool) :=
  match hopeless cfg o with
  | .error e => .error e
  | .ok true => .ok (cancelP o, V)
  | .ok false =>
    match choose V o.task.strategies with
    | none => .ok (unplacedP o, V)
    | some (s, i) =>
      match V[i]? with
      | none => .error .keyError      -- not reachable: `i` comes from `firstPool`
      | some p =>
        match p.placeTask o.lid o.task.strategies (passed cfg s) none with
        | (p', .ok _) => .ok (placedP cfg o i s, V.set i p')
        | (_, .error e) => .error (ofPy e)

/-- The scheduling loop over `ordered_tasks`. -/
def run (cfg : Cfg) : List Pool → List Offered → Except SErr (List PlacementS × List Pool)
  | V, [] => .ok ([], V)
  | V, o :: rest =>
    match step cfg V o with
    | .error e => .error e
    | .ok (d, V') =>
      match run cfg V' rest with
      | .error e => .error e
      | .ok (ds, V'') => .ok (d :: ds, V'')

/-- `copy(worker_pools)`: the first raising copy aborts. -/
def copyPools : List Pool → Except SErr (List Pool)
  | [] => .ok []
  | p :: r =>
    match p.copy with
    | (c, .ok) =>
      match copyPools r with
      | .ok cs => .ok (c :: cs)
      | .error e => .error e
    | (_, .raised e) => .error (ofPy e)

structure Result where
  order : List Offered            -- `ordered_tasks`
  placements : List PlacementS    -- the returned `Placements`, in order
  virt0 : List Pool               -- the virtual cluster right after `copy`
  virt : List Pool                -- the virtual cluster when `schedule` returns
  deriving Repr

/-- `schedule(sim_time, workload, worker_pools)`; `offer` is what
`workload.get_schedulable_tasks(time=sim_time, preemption=False, worker_pools=…)` returned
and `live` the live cluster (never modified: values are immutable). -/
def schedule (cfg : Cfg) (offer : List Offered) (live : List Pool) : Except SErr Result :=
  match copyPools live with
  | .error e => .error e
  | .ok V0 =>
    match keyError? cfg offer with
    | some e => .error e
    | none =>
      match run cfg V0 (order cfg offer) with
      | .error e => .error e
      | .ok (ds, V) => .ok ⟨order cfg offer, ds, V0, V⟩

/-! ### reading a decision back onto a cluster (used by the theorems and the driver) -/

/-- Charge one *reported* placement to a cluster: the pool it names places the task with the
strategy it names (first worker of that pool that can accommodate it). Cancellations and
"not placed" answers charge nothing. `strats` = the task's strategy list. -/
def account (V : List Pool) (lid : Nat) (strats : List Strategy) (d : PlacementS) : List Pool :=
  match d.kind, d.pool, d.strat with
  | .place, some i, some s =>
    match V[i]? with
    | some p => V.set i (p.placeTask lid strats (some s) none).1
    | none => V
  | _, _, _ => V

/-- Charge all reported placements, in order (`os` and `ds` are parallel lists). -/
def accountAll : List Pool → List Offered → List PlacementS → List Pool
  | V, o :: os, d :: ds => accountAll (account V o.lid o.task.strategies d) os ds
  | V, _, _ => V

end ErdosVerif.Model.Greedy
