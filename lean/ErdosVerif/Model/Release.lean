/-
M12 (part 1): release policies, closed-loop bookkeeping and deadline fuzzing.

Source modelled (quirks included):
* `workload/jobs.py` `JobGraph.ReleasePolicy.get_release_times` (259-400)
* `workload/jobs.py` `JobGraph.generate_task_graphs` / `get_next_task_graph`
  (closed-loop counters `_remaining_task_graphs`, `_task_graph_index`, 707-755)
* `workload/workload.py` `Workload.notify_task_graph_completion` (209-241)
* `utils.py` `EventTime.fuzz` (95-120)

Everything random is an explicit input:
* Poisson: the int64 array returned by `rng.poisson(1/rate, n-1)`;
* Gamma: the float64 array returned by `rng.gamma(..)`, given exactly as
  numerators over one common power-of-two denominator;
* fuzz: the value of `random.Random.random()` as numerator over `2^53`.

Floats.  Python accumulates the gamma draws and evaluates `fuzz` in IEEE
doubles and then calls `round` (half to even).  The model uses the exact
rational value and the same half-even rounding on integers.  The two can only
differ when the exact value lies within float rounding error of a half-integer
(documented < 1 µs slack; the correspondence suite identifies such inputs from
the exact value alone and compares integers everywhere else).

Time is `Int` microseconds (all `EventTime`s built by the loaders are in µs).
Core Lean only.
-/
namespace ErdosVerif.Release

/-! ## Rounding -/

/-- Python `round(a/d)` for `d > 0`: nearest integer, ties to even. -/
def roundHalfEven (a : Int) (d : Nat) : Int :=
  let q := a / (d : Int)
  let r := a % (d : Int)
  if 2 * r < d then q
  else if 2 * r > d then q + 1
  else if q % 2 = 0 then q else q + 1

/-! ## Open-loop policies -/

/-- `FIXED`: `np.linspace(s, s + p*n, num=n, endpoint=False)` truncated by `int`.
(Exact in doubles while `|s| + n*|p| < 2^53`; assumption of the model.) -/
def fixedReleases (n : Nat) (p s : Int) : List Int :=
  (List.range n).map (fun i => s + Int.ofNat i * p)

/-- Number of elements of `np.arange(s, h, p)` on integers, `p ≠ 0`:
`max 0 ⌈(h - s) / p⌉`. -/
def arangeLen (s h p : Int) : Nat :=
  (-(Int.fdiv (s - h) p)).toNat

/-- `PERIODIC`: `np.arange(s, h, p)` for `p ≠ 0`. -/
def periodicReleases (s h p : Int) : List Int :=
  fixedReleases (arangeLen s h p) p s

/-- Running sums: `[s, s+d₀, s+d₀+d₁, …]` (one more element than `ds`). -/
def prefixSums (s : Int) : List Int → List Int
  | [] => [s]
  | d :: ds => s :: prefixSums (s + d) ds

/-- `POISSON`: start, then add `int(draw)` for each of the `n-1` draws. -/
def poissonReleases (n : Nat) (s : Int) (draws : List Int) : List Int :=
  if n = 0 then [] else prefixSums s (draws.take (n - 1))

/-- `GAMMA`: `current = start; releases = [round(current)]; for d in draws:
current += d; releases.append(round(current))`, the draws being `nums[i]/den`. -/
def gammaReleases (n : Nat) (s : Int) (den : Nat) (nums : List Int) : List Int :=
  if n = 0 then [] else
    (prefixSums (s * (den : Int)) (nums.take (n - 1))).map (fun a => roundHalfEven a den)

/-- `CLOSED_LOOP`: the first batch, `concurrency` (or `n` if smaller) releases at start. -/
def closedLoopInitial (conc n : Int) : Nat :=
  (if n ≥ conc then conc else n).toNat

inductive Kind where
  | periodic | fixed | poisson | gamma | closedLoop
  deriving DecidableEq, Repr, Inhabited

/-- The fields of `JobGraph.ReleasePolicy` that reach a decision. The arrival
rate / coefficient only parametrise the numpy draws, which are inputs here. -/
structure Policy where
  kind : Kind
  /-- `_period` in µs (`-1` = `EventTime.invalid()` for the other kinds). -/
  period : Int := -1
  /-- `_fixed_invocation_nums` (`-1` for periodic). -/
  n : Int := -1
  /-- `_concurrency`. -/
  conc : Int := 0
  start : Int := 0
  deriving Repr, Inhabited

/-- `ReleasePolicy.closed_loop(concurrency, num_invocations, start)`: the only
constructor with a guard. -/
def mkClosedLoop (conc n start : Int) : Except String Policy :=
  if conc = 0 ∨ n = 0 then .error "RuntimeError"
  else .ok { kind := .closedLoop, n := n, conc := conc, start := start }

/-- The random draws one call of `get_release_times` consumes. -/
inductive Draws where
  | none
  | ints (l : List Int)
  | dyadic (den : Nat) (nums : List Int)
  deriving Repr, Inhabited

def Draws.intList : Draws → List Int
  | .ints l => l
  | _ => []

def Draws.den : Draws → Nat
  | .dyadic d _ => d
  | _ => 1

def Draws.nums : Draws → List Int
  | .dyadic _ l => l
  | _ => []

/-- `ReleasePolicy.get_release_times(completion_time)`.
`horizon = none` models a `completion_time` that is not an `EventTime` (for
instance a bare `int`): only the periodic branch touches it, and fails with
`AttributeError`.  `WorkloadLoader` passes `EventTime(flags.loop_timeout)`. -/
def getReleaseTimes (p : Policy) (horizon : Option Int) (d : Draws) : Except String (List Int) :=
  if p.n = 0 then .ok [] else
  match p.kind with
  | .periodic =>
    match horizon with
    | none => .error "AttributeError"
    | some h =>
      if p.period = 0 then .error "ZeroDivisionError"
      else .ok (periodicReleases p.start h p.period)
  | .fixed =>
    if p.n < 0 then .error "ValueError" else .ok (fixedReleases p.n.toNat p.period p.start)
  | .poisson =>
    if p.n < 0 then .error "ValueError" else .ok (poissonReleases p.n.toNat p.start d.intList)
  | .gamma =>
    if p.n < 0 then .error "ValueError" else .ok (gammaReleases p.n.toNat p.start d.den d.nums)
  | .closedLoop => .ok (List.replicate (closedLoopInitial p.conc p.n) p.start)

/-! ## Closed-loop bookkeeping (`JobGraph` counters)

`generate_task_graphs` names the initial graphs `name@0 … name@(k-1)`, sets
`_remaining_task_graphs = n - k` and `_task_graph_index = k - 1`.
`get_next_task_graph(t)` releases `name@(index+1)` at `t` while `remaining > 0`.
`Workload.notify_task_graph_completion(g, f)` calls it with `t = f + 1 µs`. -/

structure LoopState where
  /-- `_remaining_task_graphs` -/
  remaining : Int
  /-- `_task_graph_index` -/
  index : Int
  /-- graphs released and not yet reported complete (their indices), oldest first -/
  inflight : List Int
  /-- every release so far: (graph index, release time) in release order -/
  released : List (Int × Int)
  deriving Repr, Inhabited

def loopInit (conc n start : Int) : LoopState :=
  let k := closedLoopInitial conc n
  { remaining := n - k
    index := (k : Int) - 1
    inflight := (List.range k).map (fun i => Int.ofNat i)
    released := (List.range k).map (fun i => (Int.ofNat i, start)) }

/-- `get_next_task_graph(t)`: the index released, if any. -/
def loopNext (s : LoopState) (t : Int) : LoopState × Option Int :=
  if s.remaining > 0 then
    let i := s.index + 1
    ({ remaining := s.remaining - 1, index := i
       inflight := s.inflight ++ [i], released := s.released ++ [(i, t)] }, some i)
  else (s, none)

/-- Graph `g` (its index) is reported complete at time `f`. A graph that is
not in flight is ignored (the simulator reports each graph once). -/
def loopComplete (s : LoopState) (g f : Int) : LoopState × Option Int :=
  if g ∈ s.inflight then
    loopNext { s with inflight := s.inflight.erase g } (f + 1)
  else (s, none)

/-- A whole completion history `[(graph index, finish time)]`. -/
def loopRun (s : LoopState) : List (Int × Int) → LoopState
  | [] => s
  | (g, f) :: h => loopRun (loopComplete s g f).1 h

/-! ## `EventTime.fuzz` -/

/-- 2^53: `random.Random.random()` returns `k / 2^53`, `0 ≤ k < 2^53`. -/
def twoP53 : Nat := 9007199254740992

/-- Common denominator of the exact fuzz value. -/
def fuzzDen : Nat := 100 * twoP53

/-- Numerator over `fuzzDen` of `uniform(T*|a|/100, T*|b|/100) = lo + (hi-lo)*r`,
`r = rn / 2^53`. -/
def fuzzUniformNum (T a b rn : Int) : Int :=
  T * (a.natAbs : Int) * (twoP53 : Int) + (T * (b.natAbs : Int) - T * (a.natAbs : Int)) * rn

/-- Numerator of `max(min_bound, min(max_bound, u))`. -/
def fuzzClampNum (minB maxB u : Int) : Int :=
  max (minB * (fuzzDen : Int)) (min (maxB * (fuzzDen : Int)) u)

/-- `EventTime(T).fuzz((a,b),(minB,maxB)).time` with draw `rn / 2^53`. -/
def fuzz (T a b minB maxB rn : Int) : Int :=
  roundHalfEven (T * (fuzzDen : Int) + fuzzClampNum minB maxB (fuzzUniformNum T a b rn)) fuzzDen

/-- Deadline of an invocation released at `rel`. -/
def deadline (rel T a b minB maxB rn : Int) : Int := rel + fuzz T a b minB maxB rn

end ErdosVerif.Release
