/-
C20 — reference semantics of STRL trees, independent of the generated constraint system
(executable: used by the driver for the brute-force optimum `optUtility`).
-/
import ErdosVerif.Model.Strl
namespace ErdosVerif.Strl

/-- A schedule: the placed Choose leaves (by tree position) with their allocation
`(partition id, quantity)`. -/
abbrev Sched := List (Path × List (Nat × Nat))

def Sched.get (s : Sched) (path : Path) : Option (List (Nat × Nat)) :=
  (s.find? (fun x => x.1 == path)).map (·.2)

/-- Evaluation of a node under a schedule. `ok = false`: a structural clause is violated
(two children of a Max placed; something placed below an unsatisfied Min / LessThan). -/
structure Ev where
  sat : Bool
  utility : Int
  lo : Option Nat
  hi : Option Nat
  placed : Nat
  ok : Bool
  deriving Repr

def optMin : Option Nat → Option Nat → Option Nat
  | some a, some b => some (Nat.min a b)
  | some a, .none => some a
  | .none, b => b
def optMax : Option Nat → Option Nat → Option Nat
  | some a, some b => some (Nat.max a b)
  | some a, .none => some a
  | .none, b => b

mutual
def evalNode (sch : Sched) (path : Path) : Expr → Ev
  | .choose _ _ _ _ start dur u =>
    match sch.get path with
    | some _ => ⟨true, u, some start, some (start + dur), 1, true⟩
    | .none => ⟨false, 0, .none, .none, 0, true⟩
  | .alloc _ _ start dur => ⟨true, 0, some start, some (start + dur), 0, true⟩
  | .obj _ cs =>
    let evs := evalList sch path 0 cs
    ⟨true, (evs.map (fun e => if e.sat then e.utility else 0)).sum, .none, .none,
      (evs.map (·.placed)).sum, evs.all (·.ok)⟩
  | .min _ cs =>
    let evs := evalList sch path 0 cs
    let sat := evs.all (·.sat)
    let placed := (evs.map (·.placed)).sum
    ⟨sat, if sat then (evs.map (·.utility)).sum else 0,
      if sat then evs.foldl (fun m e => optMin m e.lo) .none else .none,
      if sat then evs.foldl (fun m e => optMax m e.hi) .none else .none,
      placed, evs.all (·.ok) && (sat || placed == 0)⟩
  | .max _ cs =>
    let evs := evalList sch path 0 cs
    let k := (evs.filter (·.sat)).length
    let first := (evs.filter (·.sat)).head?
    ⟨k == 1, if k == 1 then (first.map (·.utility)).getD 0 else 0,
      if k == 1 then first.bind (·.lo) else .none, if k == 1 then first.bind (·.hi) else .none,
      (evs.map (·.placed)).sum, evs.all (·.ok) && k ≤ 1⟩
  | .lt _ a b =>
    let ea := evalNode sch (0 :: path) a
    let eb := evalNode sch (1 :: path) b
    let ordered := match ea.hi, eb.lo with
      | some h, some l => h ≤ l
      | _, _ => true
    let sat := ea.sat && eb.sat && ordered
    let placed := ea.placed + eb.placed
    ⟨sat, if sat then ea.utility + eb.utility else 0, if sat then ea.lo else .none,
      if sat then eb.hi else .none, placed, ea.ok && eb.ok && (sat || placed == 0)⟩
  | .scale _ f d c =>
    let ec := evalNode sch (0 :: path) c
    ⟨ec.sat, if ec.sat then (if d then f else f * ec.utility) else 0, ec.lo, ec.hi, ec.placed, ec.ok⟩
def evalList (sch : Sched) (path : Path) (i : Nat) : List Expr → List Ev
  | [] => []
  | e :: es => evalNode sch (i :: path) e :: evalList sch path (i + 1) es
end

/-- The Choose leaves with their positions, and the Allocation leaves. -/
structure LeafC where
  path : Path
  parts : List Nat
  n : Nat
  start : Nat
  dur : Nat
  deriving Repr

mutual
def leavesC (path : Path) : Expr → List LeafC
  | .choose _ _ parts n start dur _ => [⟨path, parts, n, start, dur⟩]
  | .alloc .. => []
  | .obj _ cs => leavesCL path 0 cs
  | .min _ cs => leavesCL path 0 cs
  | .max _ cs => leavesCL path 0 cs
  | .lt _ a b => leavesC (0 :: path) a ++ leavesC (1 :: path) b
  | .scale _ _ _ c => leavesC (0 :: path) c
def leavesCL (path : Path) (i : Nat) : List Expr → List LeafC
  | [] => []
  | e :: es => leavesC (i :: path) e ++ leavesCL path (i + 1) es
end

mutual
def allocLeaves : Expr → List (List (Nat × Nat) × Nat × Nat)
  | .choose .. => []
  | .alloc _ allocs start dur => [(allocs, start, dur)]
  | .obj _ cs => allocLeavesL cs
  | .min _ cs => allocLeavesL cs
  | .max _ cs => allocLeavesL cs
  | .lt _ a b => allocLeaves a ++ allocLeaves b
  | .scale _ _ _ c => allocLeaves c
def allocLeavesL : List Expr → List (List (Nat × Nat) × Nat × Nat)
  | [] => []
  | e :: es => allocLeaves e ++ allocLeavesL es
end

/-- Partitions a Choose may draw from: its own, available, known (in its order, no repeats). -/
def schedIds (ctx : Ctx) (parts : List Nat) : List Nat :=
  (parts.filter (fun pid => ctx.avail.contains pid && (ctx.find pid).isSome)).eraseDups

def qtyOf (ctx : Ctx) (pid : Nat) : Nat := ((ctx.find pid).map (·.qty)).getD 0

/-- All ways of taking `n` from the listed partitions, each within its quantity. -/
def vectors (ctx : Ctx) : List Nat → Nat → List (List (Nat × Nat))
  | [], n => if n == 0 then [[]] else []
  | pid :: rest, n =>
    (List.range (Nat.min (qtyOf ctx pid) n + 1)).flatMap (fun q =>
      (vectors ctx rest (n - q)).map (fun v => if q == 0 then v else (pid, q) :: v))

def leafOptions (ctx : Ctx) (l : LeafC) : List (List (Nat × Nat)) :=
  if ctx.now > l.start then [] else
  let ids := schedIds ctx l.parts
  if ids.isEmpty then [] else vectors ctx ids l.n

/-- Usage of `pid` at time `t` by a schedule and the Allocation leaves. -/
def schedUsage (root : Expr) (sch : Sched) (pid t : Nat) : Nat :=
  ((leavesC [] root).map (fun l =>
    match sch.get l.path with
    | some a => if l.start ≤ t ∧ t < l.start + l.dur then ((a.filter (·.1 == pid)).map (·.2)).sum else 0
    | .none => 0)).sum
  + ((allocLeaves root).map (fun (al, start, dur) =>
    if start ≤ t ∧ t < start + dur then ((al.filter (·.1 == pid)).map (·.2)).sum else 0)).sum

def horizonOf (root : Expr) : Nat :=
  ((leavesC [] root).map (fun l => l.start + l.dur)).foldl Nat.max
    (((allocLeaves root).map (fun (_, s, d) => s + d)).foldl Nat.max 0)

def capacityOk (ctx : Ctx) (root : Expr) (sch : Sched) : Bool :=
  ctx.parts.all (fun p => (List.range (horizonOf root + 1)).all (fun t => schedUsage root sch p.id t ≤ qtyOf ctx p.id))

/-- All schedules (every leaf unplaced or one of its options). -/
def allScheds (ctx : Ctx) : List LeafC → List Sched
  | [] => [[]]
  | l :: ls =>
    let rest := allScheds ctx ls
    rest ++ (leafOptions ctx l).flatMap (fun a => rest.map (fun s => (l.path, a) :: s))

/-- Brute-force optimum: the largest utility of a structurally valid schedule within capacity
(`none` when even the empty schedule is invalid, i.e. the Allocations exceed a partition). -/
def optUtility (ctx : Ctx) (root : Expr) : Option Int :=
  let good := (allScheds ctx (leavesC [] root)).filterMap (fun s =>
    let ev := evalNode s [] root
    if ev.ok && capacityOk ctx root s then some ev.utility else .none)
  match good with
  | [] => .none
  | u :: us => some (us.foldl (fun m x => if x > m then x else m) u)

end ErdosVerif.Strl
