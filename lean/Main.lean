/-
Line-protocol driver: one JSON object per input line, one JSON reply per line.
The field "suite" selects the model; everything else is suite specific.
-/
import ErdosVerif.Driver.Util
import ErdosVerif.Driver.Ledger
import ErdosVerif.Driver.Time
import ErdosVerif.Driver.Queue
import ErdosVerif.Driver.Graph
import ErdosVerif.Driver.TaskGraph
import ErdosVerif.Driver.Greedy
import ErdosVerif.Driver.Release
import ErdosVerif.Driver.MipIlp
import ErdosVerif.Driver.MipIlpBatch
import ErdosVerif.Driver.MipTetri
import ErdosVerif.Driver.MipZ3
import ErdosVerif.Driver.Clockwork
import ErdosVerif.Driver.Strl
import ErdosVerif.Driver.Sim
open Lean ErdosVerif.Driver

def dispatch (line : String) : Json :=
  match Json.parse line with
  | .error e => Json.mkObj [("protocol_error", Json.str s!"bad-json: {e}")]
  | .ok j =>
    match j.getObjVal? "suite" >>= Json.getStr? with
    | .error _ => Json.mkObj [("protocol_error", Json.str "no-suite")]
    | .ok "ledger" => Ledger.handle j
    | .ok "time" => Time.handle j
    | .ok "queue" => Queue.handle j
    | .ok "graph" => Graph.handle j
    | .ok "taskgraph" => TaskGraph.handle j
    | .ok "greedy" => Greedy.handle j
    | .ok "release" => Release.handle j
    | .ok "mip_ilp" => MipIlp.handle j
    | .ok "mip_ilp_batch" => MipIlpBatch.handle j
    | .ok "mip_tetri" => MipTetri.handle j
    | .ok "mip_z3" => MipZ3.handle j
    | .ok "clockwork" => Clockwork.handle j
    | .ok "strl" => Strl.handle j
    | .ok "sim" => Sim.handle j
    | .ok s => Json.mkObj [("protocol_error", Json.str s!"unknown-suite {s}")]

partial def loop (hin hout : IO.FS.Stream) : IO Unit := do
  let line ← hin.getLine
  if line.isEmpty then return ()
  let t := line.trimAscii.toString
  if t.isEmpty then loop hin hout else
  hout.putStrLn (dispatch t).compress
  loop hin hout

def main : IO Unit := do
  let hin ← IO.getStdin
  let hout ← IO.getStdout
  loop hin hout
  hout.flush
