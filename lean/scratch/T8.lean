import ErdosVerif.Lemmas.SimInv
open Std.Do Lean
set_option mvcgen.warning false
namespace ErdosVerif.Model.Sim

/-- `mvcgen` without the `@[spec]` lemmas of `Lemmas/SimInv.lean`. -/
macro "rmvcgen" " [" ts:term,* "]" : tactic => do
  let names : Array Name := #[`row_spec, `logE_spec]
  let ls : Array Syntax ← ts.getElems.mapM fun t => do
    let l ← `(Lean.Parser.Tactic.simpLemma| $t:term)
    pure l.raw
  let es : Array Syntax ← names.mapM fun n => do
    let e ← `(Lean.Parser.Tactic.simpErase| -$(mkIdent n))
    pure e.raw
  let all := ls ++ es
  let sep : Syntax.TSepArray [`Lean.Parser.Tactic.simpErase, `Lean.Parser.Tactic.simpLemma] "," :=
    ⟨(mkSepArray all (mkAtom ","))⟩
  `(tactic| mvcgen [$sep,*])

def foo : SimM Unit := do row []; row []
theorem t2 : ⦃fun s => ⌜s.now = 0⌝⦄ foo ⦃post⟨fun _ s => ⌜s.now = 0⌝, fun _ s => ⌜True⌝⟩⦄ := by
  have h_row : ∀ r, ⦃fun s => ⌜s.now = 0⌝⦄ row r ⦃post⟨fun _ s => ⌜s.now = 0⌝, fun _ s => ⌜True⌝⟩⦄ := by
    intro r; rmvcgen [row]
  rmvcgen [foo, h_row]
end ErdosVerif.Model.Sim
