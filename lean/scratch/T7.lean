import ErdosVerif.Lemmas.SimInv
open Std.Do
set_option mvcgen.warning false
namespace ErdosVerif.Model.Sim
def foo : SimM Unit := do row []; row []
theorem t : ⦃fun s => ⌜s.now = 0⌝⦄ foo ⦃post⟨fun _ s => ⌜s.now = 0⌝, fun _ s => ⌜True⌝⟩⦄ := by
  mvcgen [foo, row, -row_spec]
  all_goals trace_state
  all_goals sorry
theorem t2 : ⦃fun s => ⌜s.now = 0⌝⦄ foo ⦃post⟨fun _ s => ⌜s.now = 0⌝, fun _ s => ⌜True⌝⟩⦄ := by
  have h_row : ∀ r, ⦃fun s => ⌜s.now = 0⌝⦄ row r ⦃post⟨fun _ s => ⌜s.now = 0⌝, fun _ s => ⌜True⌝⟩⦄ := by
    intro r; mvcgen [row, -row_spec]
  mvcgen [foo, h_row]
  all_goals trace_state
  all_goals sorry
end ErdosVerif.Model.Sim
