"""C19: in-process driver of the real loaders / release policies.

Nothing in /repo is edited.  From outside we
* parse the real absl flags of /repo/main.py programmatically,
* replace `EventTime._rng` by a tape (values chosen by the harness, recorded),
* replace `numpy.random.default_rng` by a factory handing out a playback
  generator (pre-generated arrays, calls recorded),
* write the description into a scratch directory outside /repo and /verif.
"""
from __future__ import annotations

import json
import logging
import random
import re
import sys
import uuid
from fractions import Fraction
from pathlib import Path

from harness import common

TWO53 = 2**53
MAXSIZE = sys.maxsize

_mods = None


def mods():
    """Import the repository lazily (once)."""
    global _mods
    if _mods is None:
        common.use_repo()
        logging.disable(logging.CRITICAL)
        import main  # noqa: F401  (defines the real flags)
        import numpy as np
        import yaml
        from absl import flags

        import utils
        from data import WorkerLoader, WorkloadLoader
        from workload import JobGraph

        _mods = {
            "np": np,
            "yaml": yaml,
            "FLAGS": flags.FLAGS,
            "EventTime": utils.EventTime,
            "WorkloadLoader": WorkloadLoader,
            "WorkerLoader": WorkerLoader,
            "JobGraph": JobGraph,
        }
        parse_flags({})
    return _mods


# ---------------------------------------------------------------------------
# flags
# ---------------------------------------------------------------------------

FLAG_DEFAULTS = {
    "period": 0,
    "n": 0,
    "rate": 0.0,
    "coef": 0.0,
    "slo": -1,
    "unique": False,
    "repl": 1,
    "min_deadline": 0,
    "max_deadline": MAXSIZE,
    "loop_timeout": MAXSIZE,
    "seed": 0,
}


def flag_argv(fl: dict) -> list[str]:
    f = dict(FLAG_DEFAULTS)
    f.update(fl or {})
    return [
        "c19",
        f"--override_arrival_period={f['period']}",
        f"--override_num_invocation={f['n']}",
        f"--override_poisson_arrival_rate={f['rate']!r}",
        f"--override_gamma_coefficient={f['coef']!r}",
        f"--override_slo={f['slo']}",
        f"--unique_work_profiles={'true' if f['unique'] else 'false'}",
        f"--replication_factor={f['repl']}",
        f"--min_deadline={f['min_deadline']}",
        f"--max_deadline={f['max_deadline']}",
        f"--random_seed={f['seed']}",
        # everything else the two loaders read, pinned to main.py's defaults
        f"--loop_timeout={f['loop_timeout']}",
        "--log_level=debug",
        "--nouse_branch_predicated_deadlines",
        "--noresolve_conditionals_at_submission",
        "--nodecompose_deadlines",
    ]


def parse_flags(fl: dict):
    FLAGS = _mods["FLAGS"] if _mods else None
    if FLAGS is None:
        from absl import flags

        FLAGS = flags.FLAGS
    FLAGS.unparse_flags()
    FLAGS(flag_argv(fl))
    return FLAGS


# ---------------------------------------------------------------------------
# random sources
# ---------------------------------------------------------------------------


class TapeRandom(random.Random):
    """`random()` returns tape[k] / 2^53; `uniform` (pure Python in CPython)
    goes through it.  Running off the tape is a harness error."""

    def __init__(self, tape):
        super().__init__(0)
        self.tape = list(tape)
        self.pos = 0
        self.overrun = 0

    def random(self):
        if self.pos >= len(self.tape):
            self.overrun += 1
            return 0.0
        v = self.tape[self.pos]
        self.pos += 1
        return v / TWO53


class PlaybackGenerator:
    """Stands in for numpy's Generator: hands out pre-generated batches and
    records the calls (method, parameters, size, values returned)."""

    def __init__(self, shared):
        self.shared = shared

    def _next(self, size, dtype):
        np = _mods["np"]
        if size is None or size < 0:
            # let numpy raise what it raises
            return self.shared["real_default_rng"](0).poisson(1.0, size)
        b = self.shared["batches"]
        vals = list(b.pop(0)) if b else []
        vals = (vals + [0] * size)[:size]
        return np.array(vals, dtype=dtype)

    def poisson(self, lam, size=None):
        np = _mods["np"]
        arr = self._next(size, np.int64)
        self.shared["calls"].append({"m": "poisson", "lam": float(lam), "size": size, "vals": [int(x) for x in arr]})
        return arr

    def gamma(self, shape, scale=1.0, size=None):
        np = _mods["np"]
        arr = self._next(size, np.float64)
        self.shared["calls"].append(
            {"m": "gamma", "shape": float(shape), "scale": float(scale), "size": size, "vals": [float(x) for x in arr]}
        )
        return arr


class Patched:
    """Context: tape for fuzz, playback for numpy, restored afterwards."""

    def __init__(self, fuzz_tape, batches):
        self.tape = TapeRandom(fuzz_tape)
        self.shared = {"batches": [list(b) for b in batches], "calls": [], "seeds": []}

    def __enter__(self):
        m = mods()
        self.np = m["np"]
        self.ET = m["EventTime"]
        self.old_rng = self.ET._rng
        self.old_default = self.np.random.default_rng
        self.shared["real_default_rng"] = self.old_default
        self.ET._rng = self.tape
        shared = self.shared

        def factory(seed=None, *a, **k):
            shared["seeds"].append(seed)
            return PlaybackGenerator(shared)

        self.np.random.default_rng = factory
        return self

    def __exit__(self, *exc):
        self.np.random.default_rng = self.old_default
        self.ET._rng = self.old_rng
        return False


# ---------------------------------------------------------------------------
# neutral description -> file
# ---------------------------------------------------------------------------


def _strategy_file(s):
    out = {}
    if s.get("batch") is not None:
        out["batch_size"] = s["batch"]
    if s.get("runtime") is not None:
        out["runtime"] = s["runtime"]
    if s.get("res") is not None:
        out["resource_requirements"] = {k: q for k, q in s["res"]}
    return out


def workload_file(desc: dict) -> dict:
    """Neutral description -> the dict written as YAML / JSON."""
    out = {}
    if desc.get("profiles") is not None:
        ps = []
        for p in desc["profiles"]:
            d = {}
            if p.get("name") is not None:
                d["name"] = p["name"]
            if p.get("loading") is not None:
                d["loading_strategies"] = [_strategy_file(s) for s in p["loading"]]
            if p.get("exec") is not None:
                d["execution_strategies"] = [_strategy_file(s) for s in p["exec"]]
            ps.append(d)
        out["profiles"] = ps
    if desc.get("graphs") is not None:
        gs = []
        for g in desc["graphs"]:
            d = {}
            if g.get("name") is not None:
                d["name"] = g["name"]
            if g.get("nodes") is not None:
                ns = []
                for n in g["nodes"]:
                    e = {"name": n["name"]}
                    if n.get("profile") is not None:
                        e["work_profile"] = n["profile"]
                    if n.get("slo") is not None:
                        e["slo"] = n["slo"]
                    # flags are written explicitly (true AND false) for about half of the nodes: a description may spell
                    # `terminal: false`, and the loader must read the value, not the presence of the key
                    explicit = sum(map(ord, str(n["name"]))) % 2 == 0
                    if n.get("cond"):
                        e["conditional"] = True
                    elif explicit:
                        e["conditional"] = False
                    if n.get("term"):
                        e["terminal"] = True
                    elif explicit:
                        e["terminal"] = False
                    if n.get("prob") is not None:
                        e["probability"] = n["prob"] / 1000
                    if n.get("children") is not None:
                        e["children"] = list(n["children"])
                    ns.append(e)
                d["graph"] = ns
            if g.get("policy") is not None:
                d["release_policy"] = g["policy"]
            for k_n, k_f in (
                ("period", "period"),
                ("invocations", "invocations"),
                ("concurrency", "concurrency"),
                ("start", "start"),
                ("rate", "rate"),
                ("coefficient", "coefficient"),
            ):
                if g.get(k_n) is not None:
                    d[k_f] = g[k_n]
            if g.get("variance") is not None:
                d["deadline_variance"] = list(g["variance"])
            gs.append(d)
        out["graphs"] = gs
    return out


def workers_file(pools: list) -> list:
    out = []
    for p in pools:
        d = {}
        if p.get("name") is not None:
            d["name"] = p["name"]
        if p.get("workers") is not None:
            ws = []
            for w in p["workers"]:
                e = {}
                if w.get("name") is not None:
                    e["name"] = w["name"]
                if w.get("resources") is not None:
                    rs = []
                    for r in w["resources"]:
                        x = {}
                        if r.get("name") is not None:
                            x["name"] = r["name"]
                        if r.get("quantity") is not None:
                            x["quantity"] = r["quantity"]
                        rs.append(x)
                    e["resources"] = rs
                ws.append(e)
            d["workers"] = ws
        out.append(d)
    return out


def share_equal(data):
    """Equal mappings / lists become ONE Python object, so that yaml.safe_dump writes an anchor and aliases
    (`&id001` / `*id001`) - and yaml.safe_load hands the loader the same object several times."""
    pool = {}

    def walk(x):
        if isinstance(x, dict):
            y = {k: walk(v) for k, v in x.items()}
        elif isinstance(x, list):
            y = [walk(v) for v in x]
        else:
            return x
        if not y:
            return y
        key = json.dumps(y, sort_keys=True, default=str)
        return pool.setdefault(key, y)

    return walk(data)


def write_file(data, ext: str, scratch: Path, stem: str) -> Path:
    m = mods()
    path = scratch / f"{stem}.{ext}"
    with open(path, "w") as f:
        if ext.lower() == "json":
            json.dump(data, f, indent=1)
        else:
            # every second YAML description (by content) is written with anchors / aliases for repeated parts
            if len(json.dumps(data, sort_keys=True, default=str)) % 2 == 0:
                data = share_equal(data)
            m["yaml"].safe_dump(data, f, sort_keys=False, default_flow_style=None)
    return path


# ---------------------------------------------------------------------------
# observation of the loaded objects (canonical, no uuids)
# ---------------------------------------------------------------------------

KIND = {"PERIODIC": "periodic", "FIXED": "fixed", "POISSON": "poisson", "GAMMA": "gamma", "CLOSED_LOOP": "closed_loop"}
UUID_IN_NAME = re.compile(r"[0-9a-f]{8}-[0-9a-f]{4}-[0-9a-f]{4}-[0-9a-f]{4}-[0-9a-f]{12}")


def obs_resources(resources):
    if resources is None:
        return None
    return [[r.name, r.id, q] for r, q in resources.resources]


def obs_strategies(sts):
    return [{"res": obs_resources(s.resources), "batch": s.batch_size, "runtime": s.runtime.time} for s in sts]


def obs_profile(p):
    return {
        "name": UUID_IN_NAME.sub("#", p.name),
        "loading": obs_strategies(p.loading_strategies),
        "exec": obs_strategies(p.execution_strategies),
    }


def permille(p):
    k = round(p * 1000)
    return k if p == k / 1000 else f"bad:{p!r}"


class Labels:
    """Object identity -> first-appearance label."""

    def __init__(self):
        self.ids = {}
        self.objs = []

    def of(self, o):
        k = id(o)
        if k not in self.ids:
            self.ids[k] = len(self.objs)
            self.objs.append(o)
        return self.ids[k]

    def known(self, o):
        return self.ids.get(id(o), "unknown")


def obs_task_graph(tg, labels: Labels):
    tasks = []
    for t in tg.get_nodes():
        tasks.append(
            {
                "name": t.name,
                "tg": t.task_graph,
                "job": t.job.name,
                "ts": t.timestamp,
                "release": t.release_time.time,
                "deadline": t.deadline.time,
                "profile": labels.known(t.profile),
                "prob": permille(t.probability),
                "children": [c.name for c in tg.get_children(t)],
            }
        )
    return {"name": tg.name, "tasks": tasks}


def obs_job_graph(jg, labels: Labels):
    pol = jg.release_policy
    jobs = []
    for j in jg.get_nodes():
        jobs.append(
            {
                "name": j.name,
                "profile": labels.of(j.profile),
                "slo": j.slo.time,
                "cond": bool(j.conditional),
                "term": bool(j.terminal),
                "prob": permille(j.probability),
                "children": [c.name for c in jg.get_children(j)],
            }
        )
    try:
        t = jg.completion_time
        T = "None" if t is None else t.time
    except BaseException as e:  # noqa: BLE001
        T = type(e).__name__
    return {
        "name": jg.name,
        "policy": {
            "kind": KIND.get(pol._policy_type.name, pol._policy_type.name),
            "period": pol._period.time,
            "n": pol._fixed_invocation_nums,
            "conc": pol._concurrency,
            "start": pol._start.time,
        },
        "variance": None if jg._deadline_variance is None else list(jg._deadline_variance),  # None: the loader dropped it
        "jobs": jobs,
        "T": T,
        "remaining": getattr(jg, "_remaining_task_graphs", "<no such attribute>"),
        "index": getattr(jg, "_task_graph_index", "<no such attribute>"),
    }


def obs_workload(workload):
    labels = Labels()
    jgs = [obs_job_graph(jg, labels) for jg in workload.job_graphs.values()]
    tgs = [obs_task_graph(tg, labels) for tg in workload.task_graphs.values()]
    return {
        "insts": [obs_profile(p) for p in labels.objs],
        "job_graphs": jgs,
        "task_graphs": tgs,
    }, labels


# ---------------------------------------------------------------------------
# running the real code
# ---------------------------------------------------------------------------


def exc_name(e: BaseException) -> str:
    return type(e).__name__


def run_workload(case: dict, scratch: Path):
    """Load case['desc'] with the real WorkloadLoader under case['flags'];
    then drive the closed-loop completions in case['history_plan'].
    Returns (result dict, live objects for the oracle)."""
    m = mods()
    ET = m["EventTime"]
    FLAGS = parse_flags(case.get("flags") or {})
    path = write_file(workload_file(case["desc"]), case.get("ext", "json"), scratch, "workload")
    live = {}
    if len(json.dumps(case["desc"], sort_keys=True, default=str)) % 3 == 0:
        # the same (unmodified) file is first loaded under OTHER override flags and the result thrown away: loads are
        # independent, so what the second load returns may depend on the file and on its own flags only
        fl0 = dict(case.get("flags") or {})
        fl0.update({"period": 40, "n": 5, "rate": 0.5, "coef": 2.0, "slo": 77})
        import logging as _logging

        _logging.disable(_logging.CRITICAL)
        try:
            m["WorkloadLoader"](path=str(path), _flags=parse_flags(fl0))
        except Exception:  # noqa: BLE001
            pass
        finally:
            _logging.disable(_logging.NOTSET)
        FLAGS = parse_flags(case.get("flags") or {})
    with Patched(case["fuzz"], case.get("batches", [])) as px:
        try:
            loader = m["WorkloadLoader"](path=str(path), _flags=FLAGS)
        except Exception as e:  # noqa: BLE001
            return {"err": exc_name(e), "np_calls": px.shared["calls"], "seeds": [repr(s) for s in px.shared["seeds"]]}, live
        wl = loader.workload
        obs, labels = obs_workload(wl)
        live.update({"workload": wl, "labels": labels, "loader": loader})
        # object-level facts for the oracle
        live["task_ids"] = [t.id for tg in wl.task_graphs.values() for t in tg.get_nodes()]
        live["initial_names"] = list(wl.task_graphs.keys())
        # closed-loop completions
        history, released, inflight_trace = [], [], []
        plan = case.get("history_plan")
        if plan:
            jgs = list(wl.job_graphs.values())
            inflight = {gi: [n for n in wl.task_graphs if wl.task_graphs[n].job_graph is jg] for gi, jg in enumerate(jgs)}
            for gi_r, k_r, fin in plan:
                cand = [gi for gi in inflight if inflight[gi]]
                if not cand:
                    break
                gi = cand[gi_r % len(cand)]
                name = inflight[gi][k_r % len(inflight[gi])]
                tg = wl.task_graphs[name]
                before = set(wl.task_graphs.keys())
                try:
                    wl.notify_task_graph_completion(tg, ET(fin, ET.Unit.US))
                except Exception as e:  # noqa: BLE001
                    history.append([gi, int(name.rsplit("@", 1)[1]), fin])
                    released.append({"err": exc_name(e)})
                    break
                inflight[gi].remove(name)
                new = [n for n in wl.task_graphs.keys() if n not in before]
                history.append([gi, int(name.rsplit("@", 1)[1]), fin])
                if new:
                    ntg = wl.task_graphs[new[0]]
                    inflight[gi].append(new[0])
                    released.append(obs_task_graph(ntg, labels))
                    live["task_ids"] += [t.id for t in ntg.get_nodes()]
                else:
                    released.append(None)
                inflight_trace.append({gi2: len(v) for gi2, v in inflight.items()})
            live["inflight_trace"] = inflight_trace
        res = {
            "ok": obs,
            "history": history,
            "released": released,
            "loops": [{"remaining": getattr(jg, "_remaining_task_graphs", "<no such attribute>"), "index": getattr(jg, "_task_graph_index", "<no such attribute>")} for jg in wl.job_graphs.values()],
            "tape_left": len(px.tape.tape) - px.tape.pos,
            "tape_overrun": px.tape.overrun,
            "np_calls": px.shared["calls"],
            "seeds": [repr(s) for s in px.shared["seeds"]],
        }
        return res, live


def run_workers(case: dict, scratch: Path):
    m = mods()
    parse_flags({})
    path = write_file(workers_file(case["pools"]), case.get("ext", "json"), scratch, "workers")
    try:
        loader = m["WorkerLoader"](worker_profile_path=str(path), scheduler=None, _flags=m["FLAGS"])
    except Exception as e:  # noqa: BLE001
        return {"err": exc_name(e)}, None
    fresh = {}
    pools = []
    for p in loader.get_worker_pools().worker_pools:
        ws = []
        for w in p.workers:
            rs = []
            for r, q in w.resources.resources:
                rid = r.id
                try:
                    uuid.UUID(rid)
                    is_uuid = len(rid) == 36
                except ValueError:
                    is_uuid = False
                if is_uuid:
                    rid = fresh.setdefault(rid, f"#{len(fresh)}")
                rs.append([r.name, rid, q])
            ws.append({"name": w.name, "resources": rs})
        pools.append({"name": p.name, "workers": ws})
    return {"ok": pools}, loader


def make_policy(p: dict):
    """The real ReleasePolicy object for a neutral policy dict."""
    m = mods()
    ET, RP = m["EventTime"], m["JobGraph"].ReleasePolicy
    us = lambda v: ET(v, ET.Unit.US)  # noqa: E731
    k = p["kind"]
    if k == "periodic":
        return RP.periodic(period=us(p["period"]), start=us(p.get("start", 0)))
    if k == "fixed":
        return RP.fixed(period=us(p["period"]), num_invocations=p["n"], start=us(p.get("start", 0)))
    if k == "poisson":
        return RP.poisson(rate=p["rate"], num_invocations=p["n"], start=us(p.get("start", 0)))
    if k == "gamma":
        return RP.gamma(rate=p["rate"], coefficient=p["coefficient"], num_invocations=p["n"], start=us(p.get("start", 0)))
    if k == "closed_loop":
        return RP.closed_loop(concurrency=p["conc"], num_invocations=p["n"], start=us(p.get("start", 0)))
    raise ValueError(k)


def run_policy(case: dict):
    """ReleasePolicy.get_release_times driven directly (EventTime horizon)."""
    m = mods()
    ET = m["EventTime"]
    parse_flags({})
    with Patched([], case.get("batches", [])) as px:
        try:
            pol = make_policy(case["policy"])
            h = case.get("horizon")
            rel = pol.get_release_times(ET(h, ET.Unit.US) if h is not None else MAXSIZE)
            return {"ok": [r.to(ET.Unit.US).time for r in rel], "np_calls": px.shared["calls"]}
        except Exception as e:  # noqa: BLE001
            return {"err": exc_name(e), "np_calls": px.shared["calls"]}


def run_fuzz(case: dict):
    m = mods()
    ET = m["EventTime"]
    with Patched([case["rn"]], []) as px:
        v = ET(case["T"], ET.Unit.US).fuzz((case["a"], case["b"]), (case["minb"], case["maxb"]))
        if px.tape.pos != 1 or px.tape.overrun:
            # one uniform draw per fuzz is what the model does; anything else is a disagreement, not a harness failure
            return {"ok": v.time, "draws": px.tape.pos, "overrun": px.tape.overrun}
        return {"ok": v.time}


# ---------------------------------------------------------------------------
# exact values (for the float-slack test; Fractions, no model involved)
# ---------------------------------------------------------------------------


def fuzz_exact(T, a, b, minb, maxb, rn) -> Fraction:
    lo = Fraction(T * abs(a), 100)
    hi = Fraction(T * abs(b), 100)
    u = lo + (hi - lo) * Fraction(rn, TWO53)
    return T + max(Fraction(minb), min(Fraction(maxb), u))


def near_tie(x: Fraction) -> bool:
    """Is the exact value so close to a half-integer that float evaluation may
    round the other way?  (Decided from the exact value only.)"""
    frac = x - (x.numerator // x.denominator)
    return abs(frac - Fraction(1, 2)) <= max(Fraction(1, 10**6), abs(x) / 10**12)
