"""In-process driver of the real Clockwork policy for C15.

A *spec* (plain JSON, produced by harness/gen/clockwork_gen.py, stored verbatim
in replay files) describes work profiles with several batch-size strategies,
workers, tasks (requests) with release times and deadlines, and a list of
invocation points. `run_spec` builds the real objects from /repo's working tree,
calls `ClockworkScheduler.schedule(sim_time, workload, worker_pools)` at every
invocation point, applies the returned placements to the real workers / tasks
the way the simulator does (load / evict, cancel, schedule + place + start,
step + finish + remove on completion) and advances time.

Two things are recorded per invocation:
* the *observation* compared with the Lean model (decisions + the scheduler's
  per-model queues afterwards), plus the tape the model needs (offered tasks,
  per-worker loading state / available resources at the start of the inference
  loop), captured by class-level wrappers installed from outside;
* the verdict of the model-independent *oracle* on the real returned
  Placements (see `oracle_invocation`).
"""
from __future__ import annotations

import logging
import random as _random
import signal

from harness import common

_QUIET = logging.getLogger("c15-quiet")
_QUIET.propagate = False
_QUIET.setLevel(logging.CRITICAL + 1)
if not _QUIET.handlers:
    _QUIET.addHandler(logging.NullHandler())


class R:
    """Lazy imports from the repository under test."""

    ready = False

    @classmethod
    def load(cls):
        if cls.ready:
            return
        common.use_repo()
        logging.disable(logging.CRITICAL)
        import utils
        import workers
        import workload
        from schedulers import ClockworkScheduler
        from schedulers import clockwork_scheduler as cs

        cls.EventTime = utils.EventTime
        cls.US = utils.EventTime.Unit.US
        cls.Worker, cls.WorkerPool, cls.WorkerPools = workers.Worker, workers.WorkerPool, workers.WorkerPools
        cls.w = workload
        cls.ClockworkScheduler = ClockworkScheduler
        cls.cs = cs
        cls.PT = workload.Placement.PlacementType
        cls.ready = True


class ScheduleTimeout(BaseException):
    """schedule() did not return within CALL_TIMEOUT_S of CPU time of this process (normal calls take
    milliseconds; CPU time, not wall-clock, so that a loaded machine cannot cause it)."""


CALL_TIMEOUT_S = 2.0


def _on_alarm(signum, frame):
    raise ScheduleTimeout()


def ET(t: int):
    return R.EventTime(int(t), R.US)


def us(e) -> int:
    return e.to(R.US).time


# ---------------------------------------------------------------------------
# world construction
# ---------------------------------------------------------------------------


class World:
    def __init__(self, spec: dict):
        R.load()
        w = R.w
        # ids are random.getrandbits based: make runs reproducible
        _random.seed(spec.get("uuid_seed", 0))
        self.spec = spec
        self.resnames = spec["resnames"]

        def resources(vec):
            return w.Resources(
                resource_vector={w.Resource(name=self.resnames[n], _id="any"): q for n, q in vec}, _logger=_QUIET
            )

        def strategy(s):
            return w.ExecutionStrategy(resources=resources(s["req"]), batch_size=s["batch"], runtime=ET(s["runtime"]))

        self.profiles = []
        # identity of a model is its WorkProfile object (unique id), never its name: in about half of the histories
        # with several models all models carry the same name
        same_name = len(spec["models"]) >= 2 and sum(s["batch"] for m in spec["models"] for s in m["strategies"]) % 2 == 0
        for i, m in enumerate(spec["models"]):
            self.profiles.append(
                w.WorkProfile(
                    name="M" if same_name else f"M{i}",
                    execution_strategies=w.ExecutionStrategies([strategy(s) for s in m["strategies"]]),
                    loading_strategies=w.ExecutionStrategies([strategy(s) for s in m["load"]]),
                )
            )
        self.profile_idx = {p.id: i for i, p in enumerate(self.profiles)}

        # workers: list of (pool index, Worker) in pool order then worker order
        self.workers = []
        pools: dict[int, list] = {}
        for i, wk in enumerate(spec["workers"]):
            vec = {}
            for n, q, split in wk["res"]:
                if split and q >= 2:
                    vec[w.Resource(name=self.resnames[n])] = q // 2
                    vec[w.Resource(name=self.resnames[n])] = q - q // 2
                else:
                    vec[w.Resource(name=self.resnames[n])] = q
            worker = R.Worker(name=f"W{i}", resources=w.Resources(resource_vector=vec, _logger=_QUIET), _logger=_QUIET)
            pools.setdefault(wk["pool"], []).append(worker)
        self.pools = []
        for p in sorted(pools):
            self.pools.append(R.WorkerPool(name=f"P{p}", workers=pools[p], _logger=_QUIET))
        self.worker_pools = R.WorkerPools(self.pools)
        # global worker order = the order the scheduler iterates
        self.worker_list = [(pi, wk) for pi, pool in enumerate(self.pools) for wk in pool.workers]
        self.worker_idx = {wk.id: i for i, (_, wk) in enumerate(self.worker_list)}
        self.pool_of_worker = {wk.id: self.pools[pi] for pi, wk in self.worker_list}

        # tasks
        self.tasks = []
        for i, t in enumerate(spec["tasks"]):
            self.tasks.append(
                w.Task(
                    name=f"T{i}",
                    task_graph="G",
                    job=w.Job(name=f"J{i}"),
                    deadline=ET(t["deadline"]),
                    profile=self.profiles[t["model"]],
                    timestamp=i,
                    _logger=_QUIET,
                )
            )
        self.task_idx = {t.id: i for i, t in enumerate(self.tasks)}
        self.task_graph = w.TaskGraph(name="G", tasks={t: [] for t in self.tasks})
        self.workload = w.Workload.from_task_graphs({"G": self.task_graph})

        self.scheduler = R.ClockworkScheduler(runtime=R.EventTime.zero(), goal=spec["goal"])
        if spec.get("run_load"):
            self.scheduler._run_load = True
        self.released = set()
        self.last_time = 0
        # placements the worker could not hold yet: the simulator retries them (simulator.py
        # __handle_task_placement pushes the TASK_PLACEMENT event 1 us further until it fits)
        self.pending = []

    # -- helpers -----------------------------------------------------------
    def avail_vec(self, worker):
        return [
            [n, worker.resources.get_available_quantity(R.w.Resource(name=name, _id="any"))]
            for n, name in enumerate(self.resnames)
        ]

    def loaded(self, worker):
        return [i for i, p in enumerate(self.profiles) if worker.is_available(p) == R.EventTime.zero()]

    def view(self, worker_pools):
        """Loading state / free resources as the inference loop sees them."""
        out = []
        for pi, pool in enumerate(worker_pools.worker_pools):
            for wk in pool.workers:
                out.append({"pool": pi, "loaded": self.loaded(wk), "avail": self.avail_vec(wk)})
        return out

    def manual_load(self, widx, midx):
        """Tape: load a profile through Worker.load_profile (completes via step)."""
        _, wk = self.worker_list[widx]
        prof = self.profiles[midx]
        if wk.is_available(prof) != R.EventTime.invalid():
            return False
        for s in prof.loading_strategies:
            if wk.can_accomodate_strategy(s):
                wk.load_profile(prof, s)
                self.note_load(widx, midx)
                return True
        return False

    # the harness's own record of which model (by object identity, never by name or by the worker's bookkeeping)
    # was asked to be loaded on which worker and not evicted since
    def note_load(self, widx, midx):
        self.__dict__.setdefault("ind_loaded", {}).setdefault(widx, set()).add(midx)

    def note_evict(self, widx, midx):
        self.__dict__.setdefault("ind_loaded", {}).setdefault(widx, set()).discard(midx)

    def ever_loaded(self, widx, midx):
        return midx in self.__dict__.get("ind_loaded", {}).get(widx, set())

    def manual_evict(self, widx, midx):
        _, wk = self.worker_list[widx]
        prof = self.profiles[midx]
        if wk.is_available(prof) == R.EventTime.invalid():
            return False
        wk.evict_profile(prof)
        self.note_evict(widx, midx)
        return True

    def advance(self, to: int):
        """Step all workers from last_time to `to`; finish completed tasks."""
        if to <= self.last_time:
            return
        cur, step = ET(self.last_time), ET(to - self.last_time)
        for pool in self.pools:
            for task in pool.step(cur, step):
                pool.remove_task(current_time=ET(to), task=task)
                task.finish(ET(to))
        self.last_time = to
        still = []
        for task, p in self.pending:
            pool = self.worker_pools.get_worker_pool(p.worker_pool_id)
            try:
                ok = pool.place_task(task, execution_strategy=p.execution_strategy, worker_id=p.worker_id)
            except (ValueError, RuntimeError):
                ok = False
            if ok:
                task.start(ET(to))
            else:
                still.append((task, p))
        self.pending = still

    def scheduler_state(self):
        out = []
        for model in self.scheduler._models:
            out.append(
                {
                    "mid": self.profile_idx[model.profile.id],
                    "tasks": [[self.task_idx[t.id], r.num_strategies] for t, r in model._tasks.items()],
                    "queues": [[self.task_idx[r.task.id] for r in q] for q in model._request_queues.values()],
                }
            )
        return out


# ---------------------------------------------------------------------------
# capture wrappers (installed on the classes of the repo under test)
# ---------------------------------------------------------------------------


class Capture:
    """Records what the real scheduler did inside one schedule() call."""

    current = None
    installed = False

    def __init__(self, world: World):
        self.world = world
        self.offered = None
        self.view = None
        self.batches = []
        self.phase = "admission"

    @classmethod
    def install(cls):
        if cls.installed:
            return
        R.load()
        S, M = R.ClockworkScheduler, R.cs.Model
        orig_adm, orig_inf, orig_gp = S.run_admission, S.run_inference, M.get_placements
        orig_load = S.run_load
        orig_refresh = R.cs.Models.refresh_priorities

        def refresh_priorities(self, worker_pools):
            cap = cls.current
            if cap is not None:
                cap.phase = "load"
            return orig_refresh(self, worker_pools=worker_pools)

        R.cs.Models.refresh_priorities = refresh_priorities

        def run_admission(self, current_time, tasks_to_schedule):
            cap = cls.current
            if cap is not None:
                cap.offered = [cap.world.task_idx[t.id] for t in tasks_to_schedule]
            return orig_adm(self, current_time=current_time, tasks_to_schedule=tasks_to_schedule)

        def run_load(self, current_time, worker_pools):
            cap = cls.current
            if cap is not None:
                cap.phase = "load"
            return orig_load(self, current_time=current_time, worker_pools=worker_pools)

        def run_inference(self, current_time, worker_pools):
            cap = cls.current
            if cap is not None:
                cap.phase = "inference"
                cap.view = cap.world.view(worker_pools)
            return orig_inf(self, current_time=current_time, worker_pools=worker_pools)

        def get_placements(self, sim_time, strategy, worker_pool_id, worker_id=None):
            res = orig_gp(self, sim_time, strategy, worker_pool_id, worker_id)
            cap = cls.current
            if cap is not None:
                strategies = list(self.profile.execution_strategies)
                sidx = next((i for i, s in enumerate(strategies) if s is strategy), -1)
                cap.batches.append(
                    {
                        "model": cap.world.profile_idx[self.profile.id],
                        "strategy": sidx,
                        "worker": cap.world.worker_idx.get(worker_id, -1),
                        "tids": [cap.world.task_idx[p.task.id] for p in res],
                    }
                )
            return res

        S.run_admission, S.run_inference, S.run_load, M.get_placements = (
            run_admission,
            run_inference,
            run_load,
            get_placements,
        )
        cls.installed = True


# ---------------------------------------------------------------------------
# oracle (independent of the Lean model)
# ---------------------------------------------------------------------------


def _vec(resources):
    """Requirement vector of a strategy as {name: quantity} (zero entries dropped)."""
    out = {}
    for r, q in resources._resource_vector.items():
        if q:
            out[r.name] = out.get(r.name, 0) + q
    return out


def oracle_invocation(world: World, now: int, offered_tasks, placements, placed_before: set, check_once: bool):
    """Checks the C15 clauses on the real Placements returned by one schedule() call,
    *before* they are applied. Returns a list of (clause, detail) failures.
    The capacity clause is checked while applying (see `apply_placements`)."""
    PT = R.PT
    fails = []
    places = [p for p in placements if p.placement_type == PT.PLACE_TASK]
    cancels = [p for p in placements if p.placement_type == PT.CANCEL_TASK]
    evicts = [p for p in placements if p.placement_type == PT.EVICT_WORK_PROFILE]
    cancelled_ids = {p.task.id for p in cancels}
    placed_ids = [p.task.id for p in places]

    # batches = groups sharing one BatchStrategy object
    groups: dict[int, list] = {}
    for p in places:
        groups.setdefault(id(p.execution_strategy), []).append(p)
    for g in groups.values():
        strat = g[0].execution_strategy
        names = [world.task_idx.get(p.task.id) for p in g]
        if not isinstance(strat, R.w.BatchStrategy):
            fails.append(("not-a-batch-strategy", names))
            continue
        profs = {p.task.profile.id for p in g}
        if len(profs) != 1:
            fails.append(("mixed-models-in-batch", names))
            continue
        prof = g[0].task.profile
        if len(g) != strat.batch_size:
            fails.append(("batch-size-mismatch", f"{len(g)} tasks, batch_size {strat.batch_size}, tasks {names}"))
        if not any(
            s.batch_size == strat.batch_size and us(s.runtime) == us(strat.runtime) and _vec(s.resources) == _vec(strat.resources)
            for s in prof.execution_strategies
        ):
            fails.append(("strategy-not-of-model", names))
        wids = {(p.worker_pool_id, p.worker_id) for p in g}
        if len(wids) != 1:
            fails.append(("batch-split-across-workers", names))
            continue
        wid = g[0].worker_id
        if wid not in world.worker_idx:
            fails.append(("unknown-worker", names))
            continue
        worker = world.worker_list[world.worker_idx[wid]][1]
        if worker.is_available(prof) != R.EventTime.zero() or any(
            e.work_profile.id == prof.id and e.worker_id == wid for e in evicts
        ):
            fails.append(("model-not-loaded-on-worker", f"tasks {names} worker {world.worker_idx[wid]}"))
        elif prof.id in world.profile_idx and not world.ever_loaded(world.worker_idx[wid], world.profile_idx[prof.id]):
            fails.append(("model-never-loaded-on-worker", f"tasks {names} worker {world.worker_idx[wid]} (independent bookkeeping by object identity)"))
        dmin = min(us(p.task.deadline) for p in g)
        if now + us(strat.runtime) > dmin:
            fails.append(("late-batch", f"now {now} + runtime {us(strat.runtime)} > min deadline {dmin}, tasks {names}"))

    # placed at most once
    if len(set(placed_ids)) != len(placed_ids):
        fails.append(("placed-twice-in-one-invocation", sorted(world.task_idx[i] for i in placed_ids)))
    if check_once:
        again = [world.task_idx[i] for i in placed_ids if i in placed_before]
        if again:
            fails.append(("placed-twice-over-history", again))
    both = [world.task_idx[i] for i in placed_ids if i in cancelled_ids]
    if both:
        fails.append(("placed-and-cancelled", both))

    # hopeless requests are cancelled, never placed
    for t in offered_tasks:
        fastest = min(us(s.runtime) for s in t.profile.execution_strategies)
        if us(t.deadline) < now + fastest:
            if t.id not in cancelled_ids:
                fails.append(("hopeless-not-cancelled", world.task_idx[t.id]))
            if t.id in placed_ids:
                fails.append(("hopeless-placed", world.task_idx[t.id]))
    return fails


def apply_placements(world: World, now: int, placements):
    """Applies the decisions the way simulator.py does. Returns capacity failures
    (a PLACE_TASK the real worker cannot hold)."""
    PT = R.PT
    fails = []
    for p in placements:
        if p.placement_type == PT.EVICT_WORK_PROFILE:
            world.worker_pools.get_worker_pool(p.worker_pool_id).evict_profile(p.work_profile, p.worker_id)
            if p.worker_id in world.worker_idx and p.work_profile.id in world.profile_idx:
                world.note_evict(world.worker_idx[p.worker_id], world.profile_idx[p.work_profile.id])
        elif p.placement_type == PT.LOAD_WORK_PROFILE:
            world.worker_pools.get_worker_pool(p.worker_pool_id).load_profile(
                p.work_profile, p.loading_strategy, p.worker_id
            )
            if p.worker_id in world.worker_idx and p.work_profile.id in world.profile_idx:
                world.note_load(world.worker_idx[p.worker_id], world.profile_idx[p.work_profile.id])
        elif p.placement_type == PT.CANCEL_TASK:
            if p.task.state.name in ("VIRTUAL", "RELEASED", "SCHEDULED"):
                world.task_graph.cancel(p.task, ET(now))
        elif p.placement_type == PT.PLACE_TASK:
            task = p.task
            if task.state.name not in ("RELEASED",):
                # re-offer mode / duplicate decision: nothing to apply
                continue
            pool = world.worker_pools.get_worker_pool(p.worker_pool_id)
            task.schedule(ET(now), p)
            try:
                ok = pool.place_task(task, execution_strategy=p.execution_strategy, worker_id=p.worker_id)
            except (ValueError, RuntimeError):
                ok = False
            if not ok:
                same_call_load = any(
                    q.placement_type == PT.LOAD_WORK_PROFILE and q.worker_id == p.worker_id for q in placements
                )
                clause = "worker-cannot-hold-batch" + (
                    ":load-decided-in-same-invocation-on-that-worker" if same_call_load else ""
                )
                fails.append((clause, f"task {world.task_idx[task.id]} worker {world.worker_idx.get(p.worker_id)}"))
            if ok:
                task.start(ET(now))
            else:
                world.pending.append((task, p))
    return fails


# ---------------------------------------------------------------------------
# running a spec
# ---------------------------------------------------------------------------


def run_spec(spec: dict, capture: bool = True):
    """Runs one history on the real code.

    Returns (lean_case, observations, oracle_failures) where
    `lean_case` is the JSON case for the Lean driver (with the captured tape),
    `observations` the per-invocation observation of the real scheduler,
    `oracle_failures` a list of (invocation index, clause, detail)."""
    if capture:
        Capture.install()
    world = World(spec)
    apply = spec.get("apply", True)

    start = []
    if spec.get("start") is not None:
        profs = [world.profiles[m] for m in spec["start"]]
        pls = world.scheduler.start(ET(0), profs, world.worker_pools)
        start = list(spec["start"])
        if spec.get("apply_start", True):
            apply_placements(world, 0, pls)
    for widx, midx in spec.get("preload", []):
        world.manual_load(widx, midx)

    lean_invs, obs, failures = [], [], []
    placed_before: set = set()
    for k, inv in enumerate(spec["invocations"]):
        now = inv["now"]
        world.advance(now)
        for widx, midx in inv.get("evict", []):
            try:
                world.manual_evict(widx, midx)
            except Exception as e:  # noqa: BLE001 - the worker refused to evict a model it reports as loaded
                failures.append((len(obs), "evict-of-a-loaded-model-raised", {"worker": widx, "model": midx, "exc": repr(e)[:200]}))
        for widx, midx in inv.get("load", []):
            try:
                world.manual_load(widx, midx)
            except Exception as e:  # noqa: BLE001
                failures.append((len(obs), "load-on-a-worker-that-accepted-it-raised", {"worker": widx, "model": midx, "exc": repr(e)[:200]}))
        for tid in inv.get("release", []):
            t = world.tasks[tid]
            if tid not in world.released:
                t.release(ET(spec["tasks"][tid]["release"]))
                world.released.add(tid)

        # what the oracle needs, computed independently of the scheduler's internals
        offered_tasks = world.workload.get_schedulable_tasks(
            time=ET(now),
            lookahead=world.scheduler.lookahead,
            preemption=world.scheduler.preemptive,
            retract_schedules=world.scheduler.retract_schedules,
            worker_pools=world.worker_pools,
            policy=world.scheduler.policy,
            branch_prediction_accuracy=world.scheduler.branch_prediction_accuracy,
        )
        pre_view = world.view(world.worker_pools)
        cap = Capture(world)
        Capture.current = cap if capture else None
        err, placements = None, []
        old_handler = signal.signal(signal.SIGVTALRM, _on_alarm)
        # the budget is for schedule() itself: a full collection of the (large, thorough-tier) heap of the harness
        # inside the call would be charged to it
        import gc as _gc

        _gc_was = _gc.isenabled()
        _gc.disable()
        signal.setitimer(signal.ITIMER_VIRTUAL, CALL_TIMEOUT_S)
        try:
            res = world.scheduler.schedule(ET(now), world.workload, world.worker_pools)
            placements = list(res)
        except ScheduleTimeout:
            signal.setitimer(signal.ITIMER_VIRTUAL, 0)
            # The call never returned. If the wrapper saw the policy put the same request into
            # batches again and again this is the placed-once clause failing without bound;
            # otherwise it is a tool failure (exit 2), not a verdict.
            seen, dup = set(), None
            for b in cap.batches[:100000]:
                for t in b["tids"]:
                    if t in seen:
                        dup = t
                        break
                    seen.add(t)
                if dup is not None:
                    break
            if dup is None:
                raise RuntimeError(f"schedule() did not return within {CALL_TIMEOUT_S}s at invocation {k}")
            failures.append(
                (k, "placed-twice-in-one-invocation:schedule-did-not-return",
                 f"request {dup} batched repeatedly; {len(cap.batches)} batches created before the call was cut off")
            )
            err = "ScheduleTimeout"
        except Exception as e:  # noqa: BLE001 - the exception class is the outcome
            err = type(e).__name__
        finally:
            signal.setitimer(signal.ITIMER_VIRTUAL, 0)
            signal.signal(signal.SIGVTALRM, old_handler)
            Capture.current = None
            if _gc_was:
                _gc.enable()
        if err == "ScheduleTimeout":
            lean_invs.append({"now": now, "offered": cap.offered or [], "workers": cap.view or pre_view, "load_err": None})
            obs.append({"err": err, "cancels": [], "batches": [], "state": [], "n_load_evict": 0})
            break

        load_err = err if (err is not None and cap.phase == "load") else None
        offered = cap.offered if cap.offered is not None else [world.task_idx[t.id] for t in offered_tasks]
        lean_invs.append(
            {
                "now": now,
                "offered": offered,
                "workers": cap.view if cap.view is not None else pre_view,
                "load_err": load_err,
            }
        )
        PT = R.PT
        o = {
            "err": err,
            "cancels": [world.task_idx[p.task.id] for p in placements if p.placement_type == PT.CANCEL_TASK],
            "batches": _batches_from_placements(world, placements, cap.batches if err is None else []),
            "state": world.scheduler_state(),
            "n_load_evict": sum(
                1 for p in placements if p.placement_type in (PT.LOAD_WORK_PROFILE, PT.EVICT_WORK_PROFILE)
            ),
        }
        obs.append(o)

        if err is None:
            for clause, detail in oracle_invocation(world, now, offered_tasks, placements, placed_before, apply):
                failures.append((k, clause, detail))
            for p in placements:
                if p.placement_type == PT.PLACE_TASK:
                    placed_before.add(p.task.id)
            if apply:
                for clause, detail in apply_placements(world, now, placements):
                    failures.append((k, clause, detail))

    lean_case = {
        "suite": "clockwork",
        "goal": spec["goal"],
        "models": [
            {"strategies": m["strategies"], "has_load": len(m["load"]) > 0} for m in spec["models"]
        ],
        "tasks": [{"model": t["model"], "deadline": t["deadline"]} for t in spec["tasks"]],
        "start": start,
        "invocations": lean_invs,
    }
    return lean_case, obs, failures


def _batches_from_placements(world, placements, captured):
    """Batches as they appear in the returned Placements (grouped by BatchStrategy
    object, in order), annotated with the strategy index recorded by the
    get_placements wrapper when the two agree on the tasks."""
    PT = R.PT
    groups, order = {}, []
    for p in placements:
        if p.placement_type != PT.PLACE_TASK:
            continue
        k = id(p.execution_strategy)
        if k not in groups:
            groups[k] = []
            order.append(k)
        groups[k].append(p)
    out = []
    for i, k in enumerate(order):
        g = groups[k]
        tids = [world.task_idx[p.task.id] for p in g]
        b = {
            "model": world.profile_idx.get(g[0].task.profile.id, -1),
            "strategy": -1,
            "worker": world.worker_idx.get(g[0].worker_id, -1),
            "tids": tids,
        }
        if i < len(captured) and captured[i]["tids"] == tids:
            b["strategy"] = captured[i]["strategy"]
        out.append(b)
    return out
