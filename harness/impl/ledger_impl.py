"""Runs ledger-suite cases on the REAL Resources / Worker / WorkerPool classes
and produces the same canonical observations as lean/ErdosVerif/Driver/Ledger.lean."""
from __future__ import annotations

import logging
from copy import copy, deepcopy

from harness import common

common.use_repo()

from utils import EventTime  # noqa: E402
from workers import Worker, WorkerPool  # noqa: E402
from workload import (  # noqa: E402
    BatchStrategy,
    ExecutionStrategies,
    ExecutionStrategy,
    Job,
    Resource,
    Resources,
    Task,
    WorkProfile,
)

_LOG = logging.getLogger("verif-ledger")
_LOG.addHandler(logging.NullHandler())
_LOG.propagate = False
_LOG.setLevel(logging.CRITICAL)


def rid(i):
    return "any" if i is None else f"id{i}"


def rid_back(s):
    if s == "any":
        return None
    assert s.startswith("id"), s
    return int(s[2:])


def mk_res(k):
    return Resource(name=k[0], _id=rid(k[1]))


def mk_resources(vec):
    return Resources(resource_vector={mk_res(e): e[2] for e in vec}, _logger=_LOG)


class World:
    """Real objects for one case; labels <-> objects."""

    def __init__(self, case):
        self.case = case
        self.tasks: dict[int, Task] = {}
        self.profiles: dict[int, WorkProfile] = {}
        self.strats: dict[int, ExecutionStrategy] = {}
        self.sid_of: dict[int, int] = {}
        self.job = Job(name="J", profile=WorkProfile(name="JP", execution_strategies=ExecutionStrategies([])))
        workers = [
            Worker(name=f"w{i}", resources=mk_resources(vec), _logger=_LOG) for i, vec in enumerate(case["init"])
        ]
        self.wids = [w.id for w in workers]
        self.objs = [WorkerPool(name="pool", workers=workers, _logger=_LOG)]
        self.keys = [mk_res(k) for k in case["keys"]]
        self.probe_strats = [self.strat(s) for s in case["strats"]]

    # -- object tables ------------------------------------------------------
    def task(self, n):
        if n not in self.tasks:
            self.tasks[n] = Task(
                name=f"T{n}", task_graph="G", job=self.job, deadline=EventTime(100, EventTime.Unit.US), _logger=_LOG
            )
        return self.tasks[n]

    def task_profile(self, t, strategies):
        if t % 2 == 0:
            prof = self.profile(t % 3)
            prof._execution_strategies = ExecutionStrategies(strategies)
            return prof
        return WorkProfile(name=f"TP{t}", execution_strategies=ExecutionStrategies(strategies))

    def profile(self, n):
        if n not in self.profiles:
            self.profiles[n] = WorkProfile(name=f"P{n}")
        return self.profiles[n]

    def strat(self, s):
        if s is None:
            return None
        sid = s["sid"]
        if sid not in self.strats:
            base = ExecutionStrategy(
                resources=mk_resources(s["req"]), batch_size=s["bs"], runtime=EventTime(s["rt"], EventTime.Unit.US)
            )
            obj = BatchStrategy(base) if s["batch"] else base
            self.strats[sid] = obj
            self.sid_of[id(obj)] = sid
        return self.strats[sid]

    def comp(self, c):
        kind, n = c
        if kind == "task":
            return self.task(n)
        if kind == "profile":
            return self.profile(n)
        raise ValueError(c)

    # -- canonical snapshots ------------------------------------------------
    def comp_label(self, worker, comp):
        for n, t in self.tasks.items():
            if t is comp:
                return f"t{n}"
        for n, p in self.profiles.items():
            if p is comp:
                return f"p{n}"
        for strat, bt in worker._batch_tasks_for_strategy.items():
            if bt is comp:
                return f"B{self.sid_of.get(id(strat), -1)}"
        return "Borphan"

    @staticmethod
    def vec(d):
        return [[r.name, rid_back(r.id), q] for r, q in d.items()]

    def prof(self, d):
        out = []
        for p, s in d.items():
            lab = next(n for n, q in self.profiles.items() if q is p)
            out.append([lab, s.runtime.to(EventTime.Unit.US).time, self.vec(s.resources._resource_vector)])
        return out

    def tlabel(self, t):
        return next(n for n, q in self.tasks.items() if q is t)

    def snap_worker(self, w):
        r = w.resources
        return {
            "avail": self.vec(r._resource_vector),
            "total": self.vec(r._Resources__total_resources),
            "allocs": [
                [self.comp_label(w, c), [[x.name, rid_back(x.id), q] for x, q in lst]]
                for c, lst in r._current_allocations.items()
            ],
            "placed": [[self.tlabel(t), self.sid_of.get(id(s), -1)] for t, s in w._placed_tasks.items()],
            "batches": [
                [self.sid_of.get(id(s), -1), sorted(self.tlabel(t) for t in m)] for s, m in w._placed_batches.items()
            ],
            "batch_task": [
                [self.sid_of.get(id(s), -1), self.comp_label(w, bt)] for s, bt in w._batch_tasks_for_strategy.items()
            ],
            "avail_prof": self.prof(w._available_profiles),
            "pend_prof": self.prof(w._pending_profiles),
            "q_avail": [r.get_available_quantity(k) for k in self.keys],
            "q_total": [r.get_total_quantity(k) for k in self.keys],
            "q_alloc": [r.get_allocated_quantity(k) for k in self.keys],
            "can": [bool(w.can_accomodate_strategy(s)) for s in self.probe_strats],
            "full": bool(w.is_full()),
        }

    def snap_pool(self, p):
        return {
            "placed": [[self.tlabel(t), self.wids.index(wid)] for t, wid in p._placed_tasks.items()],
            "workers": [self.snap_worker(w) for w in p.workers],
            "can": [bool(p.can_accomodate_strategy(s)) for s in self.probe_strats],
            "full": bool(p.is_full()),
        }

    def snap(self):
        return [self.snap_pool(p) for p in self.objs]

    def pool_agg(self):
        """Pool-level aggregate getters (`WorkerPool.resources`, read after every operation like the simulator's
        utilisation log does): compared by the oracle with the sum over the pool's workers; not part of the model."""
        out = []
        for p in self.objs:
            r = p.resources
            out.append({
                "q_avail": [r.get_available_quantity(k) for k in self.keys],
                "q_total": [r.get_total_quantity(k) for k in self.keys],
                "q_alloc": [r.get_allocated_quantity(k) for k in self.keys],
                "util": sorted(p.get_utilization()) if hasattr(p, "get_utilization") else None,
            })
        return out

    # -- operations ---------------------------------------------------------
    def apply(self, op):
        """Returns (out, ret)."""
        name = op["op"]
        if op["obj"] >= len(self.objs):
            return "no-such-object", None   # addressed to a copy that was never made (the copy raised)
        p = self.objs[op["obj"]]
        ret = None
        try:
            if name == "copy":
                self.objs.append(copy(p))
            elif name == "deepcopy":
                self.objs.append(deepcopy(p))
            elif name == "step":
                p.step(EventTime(0, EventTime.Unit.US), EventTime(op["dt"], EventTime.Unit.US))
            elif name in ("p_place", "p_remove", "p_load", "p_evict"):
                wid = op.get("wid")
                wid = None if wid is None else (self.wids[wid] if wid < len(self.wids) else "no-such-worker")
                if name == "p_place":
                    t = self.task(op["t"])
                    # task.available_execution_strategies comes from the task's profile
                    # every second task runs one of the loadable profiles (as a model-serving request would)
                    t._profile = self.task_profile(op["t"], [self.strat(s) for s in op["strats"]])
                    ret = bool(p.place_task(t, execution_strategy=self.strat(op.get("s")), worker_id=wid))
                elif name == "p_remove":
                    p.remove_task(EventTime(0, EventTime.Unit.US), self.task(op["t"]))
                elif name == "p_load":
                    if wid == "no-such-worker":
                        raise KeyError(wid)
                    p.load_profile(self.profile(op["p"]), self.strat(op["s"]), worker_id=wid)
                else:
                    if wid == "no-such-worker":
                        raise KeyError(wid)
                    p.evict_profile(self.profile(op["p"]), worker_id=wid)
            else:
                ws = p.workers
                if op["w"] >= len(ws):
                    raise KeyError(op["w"])
                w = ws[op["w"]]
                r = w.resources
                if name == "add_resource":
                    r.add_resource(mk_res(op["k"]), op["q"])
                elif name == "allocate":
                    r.allocate(mk_res(op["k"]), self.comp(op["c"]), op["q"])
                elif name == "allocate_multiple":
                    r.allocate_multiple(mk_resources(op["req"]), self.comp(op["c"]))
                elif name == "deallocate":
                    r.deallocate(self.comp(op["c"]))
                elif name == "get_allocated_res":
                    ret = [[x.name, rid_back(x.id), q] for x, q in r.get_allocated_resources(self.comp(op["c"]))]
                elif name == "w_place":
                    t = self.task(op["t"])
                    if op["t"] % 2 == 0:
                        t._profile = self.task_profile(op["t"], [self.strat(op["s"])] if op.get("s") else [])
                    w.place_task(t, self.strat(op["s"]))
                elif name == "w_remove":
                    w.remove_task(EventTime(0, EventTime.Unit.US), self.task(op["t"]))
                elif name == "w_load":
                    w.load_profile(self.profile(op["p"]), self.strat(op["s"]))
                elif name == "w_evict":
                    w.evict_profile(self.profile(op["p"]))
                elif name == "w_get_allocated":
                    ret = [[x.name, rid_back(x.id), q] for x, q in w.get_allocated_resources(self.task(op["t"]))]
                else:
                    raise AssertionError(f"unknown op {name}")
            return "ok", ret
        except AssertionError:
            raise
        except Exception as e:  # the exception class is the observation
            return type(e).__name__, None


def run_case(case):
    """Returns the list of observations (same shape as the Lean driver's reply)."""
    w = World(case)
    obs = []
    for op in case["ops"]:
        out, ret = w.apply(op)
        obs.append({"out": out, "ret": ret, "snap": w.snap(), "pool_agg": w.pool_agg()})
    return obs
