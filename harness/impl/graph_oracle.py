"""C17 property oracle: independent of the Lean model.

Input: what the REAL implementation answered to one `query` op (the reply dict
of `graph_impl.query`) plus the op itself.  The graph is re-read from the
implementation's own public answers (`nodes`, `edges`), then every clause of C17
is decided by brute force: reachability closure by fixpoint, explicit
enumeration of all source-to-sink paths (memoised longest-path recursion above
`ENUM_LIMIT` nodes), recursive depth definitions.

Returns a list of `(signature, detail)`; the signature names the failing input
*class* and is stable across runs (matched against known_findings.json).
"""
from __future__ import annotations

import sys

ENUM_LIMIT = 9  # explicit path enumeration up to this many nodes

SIG_D1 = "dfs-duplicate-yield: depth_first yields a node once per parent expanded before its first pop"
SIG_D2 = "bfs-from-node-omits-descendant: a descendant with a parent that is a proper ancestor of the start node (or below such a node) is never yielded"
SIG_D3 = "remove-leaves-dangling-child: after remove(x) a parent of x still lists x as child"


def is_err(x):
    return isinstance(x, dict) and "err" in x


class View:
    """The graph as the implementation itself reports it."""

    def __init__(self, rep: dict):
        self.nodes = list(rep["nodes"])
        self.pos = {n: i for i, n in enumerate(self.nodes)}
        self.children = {n: [] for n in self.nodes}
        self.edges = [tuple(e) for e in rep["edges"]]
        self.dangling = False
        for a, b in self.edges:
            if a not in self.children:
                self.dangling = True
                continue
            self.children[a].append(b)
            if b not in self.pos:
                self.dangling = True
        self.parents = {n: [] for n in self.nodes}
        if not self.dangling:
            for a, b in self.edges:
                self.parents[b].append(a)
        self.multi = any(len(set(cs)) != len(cs) for cs in self.children.values())
        # reachability closure (reflexive) by fixpoint
        self.reach = {n: {n} for n in self.nodes}
        if not self.dangling:
            changed = True
            while changed:
                changed = False
                for n in self.nodes:
                    r = self.reach[n]
                    before = len(r)
                    for c in self.children[n]:
                        r |= self.reach[c]
                    if len(r) != before:
                        changed = True
            self.cyclic = any(n in self.reach[c] for n in self.nodes for c in self.children[n])
        else:
            self.cyclic = None

    def ancestors(self, n):
        return {m for m in self.nodes if n in self.reach[m]}


def _all_paths_max(v: View, w: dict) -> int:
    """max total weight over all source-to-sink paths, by explicit enumeration."""
    best = None
    sources = [n for n in v.nodes if not v.parents[n]]

    def walk(n, acc):
        nonlocal best
        acc += w[n]
        if not v.children[n]:
            if best is None or acc > best:
                best = acc
            return
        for c in v.children[n]:
            walk(c, acc)

    for s in sources:
        walk(s, 0)
    return best


def _memo_max(v: View, w: dict) -> int:
    sys.setrecursionlimit(max(sys.getrecursionlimit(), 10000))
    memo = {}

    def down(n):
        if n in memo:
            return memo[n]
        cs = v.children[n]
        r = w[n] + (max(down(c) for c in cs) if cs else 0)
        memo[n] = r
        return r

    return max(down(s) for s in v.nodes if not v.parents[s])


def _check_path(v: View, path, w: dict, what: str, out: list, claimed_total=None):
    if is_err(path) or not isinstance(path, list) or not path:
        out.append((f"{what}: no path returned on a non-empty DAG", {"got": path}))
        return
    if any(p not in v.pos for p in path):
        out.append((f"{what}: path leaves the graph", {"got": path}))
        return
    for a, b in zip(path, path[1:]):
        if b not in v.children[a]:
            out.append((f"{what}: consecutive path nodes are not an edge", {"got": path}))
            return
    if v.parents[path[0]]:
        out.append((f"{what}: path does not start at a source", {"got": path}))
    if v.children[path[-1]]:
        out.append((f"{what}: path does not end at a sink", {"got": path}))
    total = sum(w[p] for p in path)
    best = _all_paths_max(v, w) if len(v.nodes) <= ENUM_LIMIT else _memo_max(v, w)
    if total != best:
        out.append((f"{what}: path weight is not the maximum over source-to-sink paths", {"got": path, "weight": total, "max": best}))
    if claimed_total is not None and claimed_total != best:
        out.append((f"{what}: critical-path runtime differs from the maximum path weight", {"got": claimed_total, "max": best}))


def _depth_defs(v: View):
    order = sorted(v.nodes, key=lambda n: len(v.ancestors(n)))  # ancestors first (DAG)
    dmax, dmin = {}, {}
    for n in order:
        ps = v.parents[n]
        dmax[n] = 1 + max((dmax[p] for p in ps), default=0)
        dmin[n] = 1 + min((dmin[p] for p in ps), default=0)
    return dmax, dmin


def _check_gen_ok(r, what, out):
    if r.get("err") is not None:
        out.append((f"{what}: iteration raised {r['err']} on a well-formed graph", {"got": r}))
        return False
    return True


def check_query(op: dict, rep: dict) -> list:
    out: list = []
    v = View(rep)
    if v.dangling:
        out.append((SIG_D3, {"nodes": v.nodes, "edges": v.edges}))
        return out  # not a graph any more: no further clause applies
    if rep["len"] != len(v.nodes):
        out.append(("len differs from the number of nodes", {"len": rep["len"]}))

    # ---- sources / sinks ------------------------------------------------
    want_sources = [n for n in v.nodes if not v.parents[n]]
    if rep["sources"] != want_sources:
        out.append(("sources: not exactly the nodes without incoming edge in dict order", {"got": rep["sources"], "want": want_sources}))
    want_sinks = [n for n in v.nodes if not v.children[n]]
    if rep["sinks"] != want_sinks:
        out.append(("sinks: not exactly the nodes without outgoing edge in dict order", {"got": rep["sinks"], "want": want_sinks}))

    per = {p["n"]: p for p in rep["per"]}
    for n, p in per.items():
        if n not in v.pos:
            for k in ("children", "parents", "is_source", "dmax", "dmin"):
                if p[k] != {"err": "ValueError"}:
                    out.append((f"{k} on a node outside the graph does not raise ValueError", {"n": n, "got": p[k]}))
            continue
        if p["children"] != v.children[n]:
            out.append(("get_children differs from the edge list", {"n": n, "got": p["children"]}))
        if is_err(p["parents"]) or sorted(p["parents"]) != sorted(v.parents[n]):
            out.append(("get_parents is not the multiset of predecessors", {"n": n, "got": p["parents"]}))
        if p["is_source"] != (not v.parents[n]):
            out.append(("is_source wrong", {"n": n, "got": p["is_source"]}))

    # ---- cyclic graphs: the error clause ---------------------------------
    if v.cyclic:
        if rep["topo"] != {"err": "RuntimeError"}:
            out.append(("topological_sort does not report a cycle as RuntimeError", {"got": rep["topo"]}))
        return out

    # ---- DAG clauses -------------------------------------------------------
    topo = rep["topo"]
    if is_err(topo) or sorted(topo) != sorted(v.nodes) or len(topo) != len(v.nodes):
        out.append(("topological_sort on a DAG is not a permutation of the nodes", {"got": topo}))
    else:
        at = {n: i for i, n in enumerate(topo)}
        bad = [(a, b) for a, b in v.edges if at[a] >= at[b]]
        if bad:
            out.append(("topological_sort lists a node before one of its predecessors", {"got": topo, "edges": bad}))

    dmax, dmin = _depth_defs(v)
    for n, p in per.items():
        if n in v.pos:
            if p["dmax"] != dmax[n]:
                out.append(("get_node_depth(max) differs from 1 + max depth of parents", {"n": n, "got": p["dmax"], "want": dmax[n]}))
            if p["dmin"] != dmin[n]:
                out.append(("get_node_depth(min) differs from 1 + min depth of parents", {"n": n, "got": p["dmin"], "want": dmin[n]}))

    for (a, b), r in zip(op.get("pairs", []), rep["dep"]):
        if a in v.pos and b in v.pos:
            if a != b:
                want = (b in v.reach[a]) or (a in v.reach[b])
                if r != want:
                    out.append(("are_dependent differs from reachability", {"a": a, "b": b, "got": r, "want": want}))
        elif r != {"err": "ValueError"}:
            out.append(("are_dependent on a node outside the graph does not raise ValueError", {"a": a, "b": b, "got": r}))

    if v.nodes:
        wdef = {n: (1 if not v.parents[n] else 2) for n in v.nodes}
        _check_path(v, rep["longest"], wdef, "get_longest_path()", out)
        for t, r in zip(op.get("ws", []), rep["lw"]):
            w = {n: 0 for n in v.nodes}
            w.update({n: x for n, x in t if n in w})
            if all(x > 0 for x in w.values()):
                cpr = None if is_err(r["cpr"]) else r["cpr"]
                _check_path(v, r["path"], w, "get_longest_path(weights)", out, claimed_total=cpr)
                if is_err(r["cpr"]):
                    out.append(("critical-path runtime raised on a DAG", {"got": r["cpr"]}))

    # ---- traversals ----------------------------------------------------------
    if not v.multi:
        b = rep["bfs"]
        if _check_gen_ok(b, "breadth_first()", out):
            ys = b["y"]
            if sorted(ys) != sorted(v.nodes):
                out.append(("breadth_first() does not yield every node exactly once", {"got": ys}))
            else:
                at = {n: i for i, n in enumerate(ys)}
                if any(at[a] >= at[c] for a, c in v.edges):
                    out.append(("breadth_first() yields a node before one of its parents", {"got": ys}))

    def check_dfs(r, start_set, what, n=None):
        if not _check_gen_ok(r, what, out):
            return
        ys = r["y"]
        want = set()
        for s in start_set:
            want |= v.reach[s]
        if set(ys) != want:
            out.append((f"{what} does not yield exactly the reachable nodes", {"n": n, "got": ys, "want": sorted(want)}))
        elif len(ys) != len(set(ys)):
            out.append((SIG_D1, {"n": n, "got": ys}))

    check_dfs(rep["dfs"], want_sources, "depth_first()")
    for n, p in per.items():
        if n not in v.pos:
            continue
        check_dfs(p["dfs"], [n], "depth_first(node)", n)
        if v.multi:
            continue
        falsy = n in op.get("_falsy", [])
        if falsy:
            continue  # `if node:` quirk with a falsy label: outside the property (labels are objects)
        r = p["bfs"]
        if not _check_gen_ok(r, "breadth_first(node)", out):
            continue
        ys = r["y"]
        want = v.reach[n]
        ok_shape = len(ys) == len(set(ys)) and set(ys) <= want
        if ok_shape:
            at = {m: i for i, m in enumerate(ys)}
            for a, c in v.edges:
                if a in at and c in at and at[a] >= at[c]:
                    ok_shape = False
        if not ok_shape:
            out.append(("breadth_first(node) yields a wrong / repeated / out-of-order node", {"n": n, "got": ys}))
        elif set(ys) != want:
            missing = want - set(ys)
            anc = v.ancestors(n) - {n}
            blocked0 = {d for d in want if d != n and any(p_ in anc for p_ in v.parents[d])}
            below = set()
            for d in blocked0:
                below |= v.reach[d]
            if missing == below:
                out.append((SIG_D2, {"n": n, "got": ys, "missing": sorted(missing)}))
            else:
                out.append(("breadth_first(node) omits a reachable node", {"n": n, "got": ys, "missing": sorted(missing)}))
    return out


def check_case(case: dict, reply: dict) -> list:
    """Oracle over every `query` of one case (implementation's reply)."""
    if reply.get("timeout"):
        return [("implementation did not terminate within the case time limit", {})]
    from harness.impl.graph_impl import Labels

    lab = Labels(case.get("kind", "int1"))
    falsy_kind = lab.kind in ("int0", "str", "tuple")
    out = []
    view = None
    expect = None  # (nodes, edges) the next query must report after a successful remove
    expect_map = None  # (nodes, edges, parents) the next query must report after update_edges
    for op, rep in zip(case["ops"], reply["res"]):
        if op["op"] == "query":
            op2 = dict(op)
            op2["_falsy"] = [0] if falsy_kind else []
            out.extend(check_query(op2, rep))
            view = View(rep)
            if expect is not None and not view.dangling:
                if view.nodes != expect[0] or view.edges != expect[1]:
                    out.append(("remove: the graph afterwards is not the old graph minus the node and its incident edges", {"nodes": view.nodes, "edges": view.edges, "want_nodes": expect[0], "want_edges": expect[1]}))
            expect = None
            if expect_map is not None:
                nodes, edges, parents = expect_map
                got_par = {p["n"]: p["parents"] for p in rep["per"] if p["n"] in parents}
                if rep["nodes"] != nodes or [tuple(e) for e in rep["edges"]] != edges or any(got_par[k] != parents[k] for k in got_par):
                    out.append(("update_edges: the graph afterwards is not the graph of the new mapping (nodes / edges / parents)", {"nodes": rep["nodes"], "edges": rep["edges"], "parents": got_par, "want_nodes": nodes, "want_edges": edges, "want_parents": parents}))
            expect_map = None
        elif op["op"] == "update_edges":
            # the graph of the mapping: nodes in order of first mention, edges in mapping order,
            # parents in edge order (independent re-derivation, not the model)
            nodes, children, parents = [], {}, {}
            for u, cs in op["map"]:
                if u not in parents:
                    nodes.append(u)
                    parents[u], children[u] = [], []
                for c in cs:
                    if c not in parents:
                        nodes.append(c)
                        parents[c], children[c] = [], []
                    children[u].append(c)
                    parents[c].append(u)
            edges = [(u, c) for u in nodes for c in children[u]]  # get_edges: dict order, child order
            expect_map = (nodes, edges, parents)
            expect = None
            view = None
        elif op["op"] == "remove":
            x = op["n"]
            expect = None
            expect_map = None
            if view is not None and not view.dangling:
                if x in view.pos:
                    if rep is not None:
                        out.append(("remove of a node raised", {"n": x, "got": rep}))
                    else:
                        expect = ([k for k in view.nodes if k != x], [e for e in view.edges if x not in e])
                elif rep != {"err": "ValueError"}:
                    out.append(("remove of a node outside the graph does not raise ValueError", {"n": x, "got": rep}))
            view = None
        elif op["op"] in ("init", "add_node", "add_child"):
            view = None
            expect = None
            expect_map = None
        elif op["op"] == "jobcost" and view is not None and not view.dangling and not view.cyclic and view.nodes:
            # clause: critical-path runtime == maximum path weight (all jobs live, positive runtimes;
            # for completion_time additionally no SLO overrides, i.e. cost == runtime)
            rt = {n: 0 for n in view.nodes}
            rt.update({n: r for n, r in op["rt"] if n in rt})
            cost = {n: 0 for n in view.nodes}
            cost.update({n: c for n, c in op["cost"] if n in cost})
            if set(view.nodes) <= set(op["live"]) and all(r > 0 for r in rt.values()) and cost == rt:
                best = _all_paths_max(view, rt) if len(view.nodes) <= ENUM_LIMIT else _memo_max(view, rt)
                if rep != best:
                    out.append((f"JobGraph {op.get('which')}: differs from the maximum source-to-sink path weight", {"got": rep, "max": best}))
    return out
