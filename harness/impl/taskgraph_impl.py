"""Real TaskGraph / Task objects driven by direct-call histories (suite "taskgraph").

The generator describes a graph with labels; this module builds the real
objects, reads the real node / parent / topological orders back, runs the ops
on the real objects (recording every random draw), and emits the case for the
Lean driver in terms of real positions.
"""
from __future__ import annotations

import logging
import random as _random

from harness import common

common.use_repo()

import utils  # noqa: E402
from utils import EventTime  # noqa: E402
from workload import (  # noqa: E402
    BranchPredictionPolicy,
    ExecutionStrategies,
    ExecutionStrategy,
    Job,
    Placement,
    Resource,
    Resources,
    Task,
    TaskGraph,
    TaskState,
    WorkProfile,
)

_LOG = logging.getLogger("verif-tg")
_LOG.addHandler(logging.NullHandler())
_LOG.propagate = False
_LOG.setLevel(logging.CRITICAL)

US = EventTime.Unit.US


def et(x):
    return EventTime(int(x), US)


def us(t):
    if t is None:
        return None
    if isinstance(t, EventTime):
        return t.to(US).time
    return int(t)


def rid(i):
    return "any" if i is None else f"id{i}"


class Recorder:
    """Patches the module-level random functions used by workload/tasks.py and
    EventTime._rng; records draws in program order."""

    def __init__(self):
        self.tape = []
        self.replay = None  # list of draws to replay instead of drawing fresh

    def _next(self, kind):
        if self.replay is not None:
            d = self.replay.pop(0)
            assert d["k"] == kind, (d, kind)
            return d
        return None

    def install(self, rng: _random.Random):
        import workload.tasks as wt

        self._orig = (wt.random.choices, wt.random.choice, wt.random.random, EventTime._rng)
        rec = self

        def choices(population, weights=None, k=1):
            d = rec._next("choices")
            if d is not None:
                i = d["v"]
            else:
                cand = [j for j, w in enumerate(weights) if w > 0] if weights else list(range(len(population)))
                i = rng.choice(cand) if cand else 0
            rec.tape.append({"k": "choices", "v": i})
            return [population[i]]

        def choice(seq):
            if len(seq) == 0:
                raise IndexError("Cannot choose from an empty sequence")
            d = rec._next("choice")
            i = d["v"] if d is not None else rng.randrange(len(seq))
            rec.tape.append({"k": "choice", "v": i})
            return seq[i]

        class Coin(float):
            pass

        def rnd():
            # random.random() < accuracy : record the boolean outcome, return 0.0 / 1.0
            d = rec._next("coin")
            b = d["v"] if d is not None else (rng.random() < 0.5)
            rec.tape.append({"k": "coin", "v": b})
            return 0.0 if b else 1.0

        self.module = wt
        # tasks.py does `import random` and calls random.choices / random.choice / random.random
        self.fake = type("R", (), {})()
        for name in dir(_random):
            if not name.startswith("_"):
                try:
                    setattr(self.fake, name, getattr(_random, name))
                except Exception:
                    pass
        self.fake.choices, self.fake.choice, self.fake.random = choices, choice, rnd
        self.real_random_module = wt.random
        wt.random = self.fake

        class FuzzRng:
            def uniform(self_inner, a, b):
                d = rec._next("fuzzraw")
                v = d["v"] if d is not None else rng.uniform(a, b)
                rec.tape.append({"k": "fuzzraw", "v": v})
                return v

        EventTime._rng = FuzzRng()

    def uninstall(self):
        self.module.random = self.real_random_module
        EventTime._rng = _random.Random(42)


def mk_strategy(s):
    res = Resources(resource_vector={Resource(name=e[0], _id=rid(e[1])): e[2] for e in s["req"]}, _logger=_LOG)
    return ExecutionStrategy(resources=res, batch_size=s["bs"], runtime=et(s["rt"]))


POLICY = {
    "RANDOM": BranchPredictionPolicy.RANDOM,
    "WORST_CASE": BranchPredictionPolicy.WORST_CASE,
    "BEST_CASE": BranchPredictionPolicy.BEST_CASE,
    "MAXIMUM": BranchPredictionPolicy.MAXIMUM,
    "ALL": BranchPredictionPolicy.ALL,
}


class GraphWorld:
    def __init__(self, spec):
        """spec: {"name", "nodes": {label: {name, conditional, terminal, prob, strategies, release, deadline}},
        "mapping": [[label, [child labels]]...]}"""
        self.spec = spec
        self.strats = {}
        self.tasks = {}
        for lab, nd in spec["nodes"].items():
            strategies = [mk_strategy(s) for s in nd["strategies"]]
            for s, o in zip(nd["strategies"], strategies):
                self.strats[s["sid"]] = o
            prof = WorkProfile(name=f"prof_{nd['name']}", execution_strategies=ExecutionStrategies(strategies))
            job = Job(
                name=nd["name"],
                profile=prof,
                conditional=nd["conditional"],
                probability=nd["prob"] / 1000.0,
                terminal=nd["terminal"],
            )
            self.tasks[lab] = Task(
                name=nd["name"],
                task_graph=spec["name"],
                job=job,
                deadline=et(nd["deadline"]),
                timestamp=nd.get("ts", 0),
                release_time=et(nd["release"]),
                _logger=_LOG,
            )
        mapping = {self.tasks[a]: [self.tasks[c] for c in cs] for a, cs in spec["mapping"]}
        self.tg = TaskGraph(name=spec["name"], tasks=mapping)
        self.order = list(self.tg._graph.keys())  # real node order
        self.pos = {id(t): i for i, t in enumerate(self.order)}
        self.label_pos = {lab: self.pos[id(t)] for lab, t in self.tasks.items()}

    def node(self, i):
        return self.order[i]

    def workload(self):
        if not hasattr(self, "_wl"):
            from workload import Workload

            self._wl = Workload.from_task_graphs({self.tg.name: self.tg})
            for nm in ("Workload",):  # the default logger prints DEBUG lines to stdout
                lg = logging.getLogger(nm)
                lg.handlers = [logging.NullHandler()]
                lg.propagate = False
                lg.setLevel(logging.CRITICAL)
            self._wl._logger = _LOG
        return self._wl

    # -- the case for the Lean driver ---------------------------------------
    def lean_graph(self):
        inv = {v: k for k, v in self.label_pos.items()}
        tasks = []
        for i, t in enumerate(self.order):
            nd = self.spec["nodes"][inv[i]]
            tasks.append(
                {
                    "name": nd["name"],
                    "conditional": nd["conditional"],
                    "terminal": nd["terminal"],
                    "prob": nd["prob"],
                    "strategies": nd["strategies"],
                    "profile": i,
                    "release": nd["release"],
                    "deadline": nd["deadline"],
                    "ts": nd.get("ts", 0),
                }
            )
        try:
            topo = [self.pos[id(t)] for t in self.tg.topological_sort()]
        except RuntimeError:
            topo = []
        return {
            "name": self.spec["name"],
            "tasks": tasks,
            "children": [[self.pos[id(c)] for c in self.tg._graph[t]] for t in self.order],
            "parents": [[self.pos[id(p)] for p in self.tg._parent_graph.get(t, [])] for t in self.order],
            "topo": topo,
        }

    # -- snapshots ----------------------------------------------------------
    def snap_task(self, t):
        pl = t._scheduler_placement
        pool = t._worker_pool_id
        return [
            t._state.name,
            t._pre_scheduling_state.name,
            us(t._release_time),
            us(t._deadline),
            us(t._start_time),
            us(t._completion_time),
            us(t._remaining_time),
            us(t._last_step_time),
            int(round(t._probability * 1000)),
            us(t._scheduling_time),
            None if pool is None else int(pool[4:]),
            us(t._cancellation_time),
            None if pl is None else us(pl.placement_time),
        ]

    def snap(self):
        return [self.snap_task(t) for t in self.order]

    # -- ops ------------------------------------------------------------------
    def apply(self, op, rec: Recorder):
        """op uses real positions. Returns (out, ret, lean_op)."""
        name = op["op"]
        lop = dict(op)
        ret = None
        n0 = len(rec.tape)
        try:
            if name in ("release", "schedule", "unschedule", "start", "finish", "task_cancel", "preempt", "step", "remaining", "ready"):
                t = self.node(op["n"])
                if name == "release":
                    t.release(None if op.get("time") is None else et(op["time"]))
                elif name == "schedule":
                    strat = None if op.get("s") is None else self.strats[op["s"]["sid"]]
                    t.schedule(
                        et(op["time"]),
                        Placement.create_task_placement(
                            task=t, placement_time=et(op["ptime"]), worker_pool_id=f"pool{op['pool']}", execution_strategy=strat
                        ),
                    )
                elif name == "unschedule":
                    t.unschedule(et(0))
                elif name == "start":
                    try:
                        t.start(et(op["time"]), variance=op.get("variance", 0))
                    finally:
                        # the model takes the fuzzed remaining time as an input
                        rem = t._remaining_time
                        lop["fuzzed"] = us(rem) if rem is not None else 0
                elif name == "finish":
                    t.finish(None if op.get("time") is None else et(op["time"]))
                elif name == "task_cancel":
                    t.cancel(et(op["time"]))
                elif name == "preempt":
                    t.preempt(et(0))
                elif name == "step":
                    ret = bool(t.step(et(op["now"]), et(op["dt"])))
                elif name == "remaining":
                    ret = us(t.remaining_time)
                elif name == "ready":
                    ret = bool(t.is_ready_to_run(self.tg))
            elif name == "cancel":
                ret = [self.pos[id(x)] for x in self.tg.cancel(self.node(op["n"]), et(op["time"]))]
            elif name == "notify":
                rel, can = self.tg.notify_task_completion(self.node(op["n"]), et(op["time"]))
                ret = {"released": [self.pos[id(x)] for x in rel], "cancelled": [self.pos[id(x)] for x in can]}
            elif name == "releasable":
                ret = [self.pos[id(x)] for x in self.workload().get_releasable_tasks()]
            elif name == "schedulable":
                # through the Workload, as the schedulers and the simulator ask (it delegates to the TaskGraph)
                ret = [
                    self.pos[id(x)]
                    for x in self.workload().get_schedulable_tasks(
                        et(op["time"]),
                        et(op["lookahead"]),
                        False,
                        op["retract"],
                        None,
                        POLICY[op["policy"]],
                        0.5,
                        op["rtg"],
                    )
                ]
            elif name == "resolve":
                ret = [self.pos[id(x)] for x in self.tg.resolve_conditional(self.node(op["n"]), POLICY[op["policy"]], 0.5)]
            elif name == "graph_status":
                ret = {
                    "complete": bool(self.tg.is_complete()),
                    "cancelled": bool(self.tg.is_cancelled()),
                    "deadline": us(self.tg.deadline),
                    "release": us(self.tg.release_time),
                }
            elif name == "dfs":
                ret = [self.pos[id(x)] for x in self.tg.depth_first(self.node(op["n"]))]
            else:
                raise AssertionError(name)
            return "ok", ret, lop
        except AssertionError as e:
            if name == "start" or "start time must be greater" in str(e):
                return "AssertionError", None, lop
            raise
        except Exception as e:
            return type(e).__name__, None, lop


def run_case(spec, ops, seed=0):
    """Runs the ops (given with generator labels) on the real objects.
    Returns (lean_case, obs, world)."""
    w = GraphWorld(spec)
    rec = Recorder()
    rec.install(_random.Random(seed))
    obs, lops = [], []
    try:
        for op in ops:
            op = dict(op)
            if "n" in op:
                op["n"] = w.label_pos[op["n"]]
            out, ret, lop = w.apply(op, rec)
            obs.append({"out": out, "ret": ret, "tasks": w.snap()})
            lops.append(lop)
    finally:
        rec.uninstall()
    tape = [d for d in rec.tape if d["k"] != "fuzzraw"]
    case = {"suite": "taskgraph", "graph": w.lean_graph(), "ops": lops, "tape": tape}
    return case, obs, w
