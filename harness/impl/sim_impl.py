"""End-to-end runs of the REAL simulator (suite "sim"): a generated world
(cluster + workload description + flags + policy) is written to JSON files,
loaded with the real WorkerLoader / WorkloadLoader, run with the real Simulator
under a recording wrapper policy; the decisions, the random draws, the CSV rows
and the final task states are recorded and canonicalised so that the Lean
simulator model can replay exactly the same run."""
from __future__ import annotations

import json
import logging
import os
import random as _random
import shutil
import sys
import tempfile
import types

from harness import common

common.use_repo()

import utils  # noqa: E402
from utils import EventTime  # noqa: E402
from workload import BatchStrategy, BranchPredictionPolicy, Placement, Placements, TaskState  # noqa: E402
from schedulers import BaseScheduler, EDFScheduler, FIFOScheduler, LSFScheduler  # noqa: E402
from data import WorkerLoader, WorkloadLoader  # noqa: E402
import simulator as simmod  # noqa: E402
import workload.tasks as wtasks  # noqa: E402

US = EventTime.Unit.US


def et(x):
    return EventTime(int(x), US)


def us(t):
    if t is None:
        return None
    if isinstance(t, EventTime):
        return t.to(US).time
    return int(t)


def _et_any_unit(x):
    """`x` microseconds as an EventTime; whole milliseconds (below 10^12) are given in MS: the constructor of the
    Simulator accepts any unit and must read the same instant."""
    if isinstance(x, int) and 0 < x < 10**12 and x % 1000 == 0:
        return EventTime(x // 1000, EventTime.Unit.MS)
    return et(x)


class Watchdog(Exception):
    pass


class ListHandler(logging.Handler):
    def __init__(self):
        super().__init__(level=logging.DEBUG)
        self.rows = []

    def emit(self, record):
        self.rows.append(record.getMessage())


_CSV = ListHandler()


def _prepare_loggers():
    # another suite in this process may have switched logging off globally; the CSV trace IS a logger
    logging.disable(logging.NOTSET)
    # ... and may have created the repository's loggers (ILPScheduler, Workload, ...) at DEBUG level on stdout: quiet them
    for nm, other in list(logging.root.manager.loggerDict.items()):
        if isinstance(other, logging.Logger) and nm != "Simulator_CSV" and other.handlers and other.level < logging.CRITICAL:
            other.setLevel(logging.CRITICAL)
    lg = logging.getLogger("Simulator_CSV")
    lg.disabled = False
    lg.handlers = [_CSV]
    lg.propagate = False
    lg.setLevel(logging.DEBUG)
    _CSV.rows = []


def make_flags(f):
    """A flags object with every attribute the loaders / simulator / schedulers read."""
    d = dict(
        log_dir=None,
        log_file_name=None,
        log_level="critical",
        csv_file_name=None,
        override_poisson_arrival_rate=0.0,
        override_gamma_coefficient=0.0,
        override_arrival_period=0,
        override_num_invocation=0,
        unique_work_profiles=False,
        replication_factor=1,
        override_slo=0,
        loop_timeout=f["loop_timeout"],
        min_deadline_variance=0,
        max_deadline_variance=0,
        min_deadline=0,
        max_deadline=sys.maxsize,
        use_branch_predicated_deadlines=False,
        resolve_conditionals_at_submission=bool(f.get("resolve_conditionals_at_submission", False)),
        decompose_deadlines=False,
        scheduler_delay=f["scheduler_delay"],
        runtime_variance=f["runtime_variance"],
        drop_skipped_tasks=f["drop_skipped_tasks"],
        verify_schedule=False,
        scheduler_run_at_worker_free=f["scheduler_run_at_worker_free"],
        workload_update_interval=f["workload_update_interval"],
        log_graphs=False,
        release_taskgraphs=f["release_taskgraphs"],
        scheduler_log_to_file=False,
        scheduler_log_times=[],
    )
    return types.SimpleNamespace(**{**_flag_defaults(), **d})


_FLAG_DEFAULTS = None


def _flag_defaults():
    """Every flag main.py defines, at its default value: whatever flag the code under test reads exists (the values
    the end-to-end suite controls are set explicitly by `make_flags`)."""
    global _FLAG_DEFAULTS
    if _FLAG_DEFAULTS is None:
        try:
            from absl import flags as _absl_flags

            import main as _main  # noqa: F401  (defines the flags)

            FL = _absl_flags.FLAGS
            if not FL.is_parsed():
                FL(["erdos-verif"])
            _FLAG_DEFAULTS = {k: FL[k].value for k in FL if not k.startswith("?")}
        except Exception:
            _FLAG_DEFAULTS = {}
    return dict(_FLAG_DEFAULTS)


class RandomPolicy(BaseScheduler):
    """Arbitrary well-typed decisions (seeded): place now / in the future / on a pool
    that may not fit, leave unplaced, or cancel. Exercises every handler path."""

    def __init__(self, rng, lookahead=0, retract=False, release_taskgraphs=False, cancel_prob=0.05, batch_prob=0.0, delays=None, runtimes=None, profile_prob=0.0, dup_prob=0.0, dup_rng=None, _flags=None):
        super().__init__(
            preemptive=False,
            runtime=et(0),
            lookahead=et(lookahead),
            retract_schedules=retract,
            release_taskgraphs=release_taskgraphs,
            _flags=_flags,
        )
        self._rng = rng
        self._cancel_prob = cancel_prob
        # batching (as the ILP / Clockwork policies do): tasks sharing an execution strategy object are put
        # under one BatchStrategy, which is kept across invocations so that late members can join a batch
        self._batch_prob = batch_prob
        self._batches = {}
        self._delays = list(delays) if delays else [0, 0, 0, 1, 3]
        self._runtimes = list(runtimes) if runtimes else [0]   # simulated time one invocation takes
        # work-profile decisions (as a model-serving policy makes them): load the profile of an offered task on a
        # pool / worker, evict a profile this policy loaded earlier
        self._profile_prob = profile_prob
        self._loaded = []
        # duplicate placements: with this probability a task that has just been placed gets a SECOND decision in the
        # same answer (`Placements` is keyed by placement id, so this is legal input): on another pool / at another
        # time (the simulator then re-times the cached TASK_PLACEMENT event object, which is still in the local
        # list of `__handle_scheduler_finish`), or unplaced, or a cancellation. Own generator: the main stream of
        # the policy is not shifted.
        self._dup_prob = dup_prob
        self._dup_rng = dup_rng if dup_rng is not None else _random.Random(0)

    def schedule(self, sim_time, workload, worker_pools):
        tasks = workload.get_schedulable_tasks(
            sim_time,
            self.lookahead,
            self.preemptive,
            self.retract_schedules,
            worker_pools,
            self.policy,
            self.branch_prediction_accuracy,
            self.release_taskgraphs,
        )
        pools = list(worker_pools.worker_pools)
        out, seen = [], set()
        took = self._rng.choice(self._runtimes) if self._runtimes != [0] else 0
        for t in tasks:
            if t.id in seen:
                continue
            seen.add(t.id)
            r = self._rng.random()
            if r < self._cancel_prob and t.state in (TaskState.VIRTUAL, TaskState.RELEASED, TaskState.SCHEDULED):
                out.append(Placement.create_task_cancellation(task=t))
            elif r < 0.25:
                out.append(Placement.create_task_placement(task=t))
            else:
                strat = self._rng.choice(list(t.available_execution_strategies))
                pool = self._rng.choice(pools)
                if self._batch_prob and strat.batch_size > 1 and self._rng.random() < self._batch_prob:
                    key = id(strat)
                    if key not in self._batches or self._batches[key][3] >= strat.batch_size or self._rng.random() < 0.2:
                        self._batches[key] = [BatchStrategy(execution_strategy=strat), pool, self._rng.choice(pool.workers).id, 0]
                    self._batches[key][3] += 1  # never more members than the batch size: the worker refuses that
                    strat, pool, batch_worker, _n = self._batches[key]
                else:
                    batch_worker = None
                delay = self._rng.choice(self._delays)
                worker_id = None
                if batch_worker is not None and self._rng.random() < 0.8:
                    worker_id = batch_worker
                elif self._rng.random() < 0.3:
                    worker_id = self._rng.choice(pool.workers).id
                out.append(
                    Placement.create_task_placement(
                        task=t,
                        placement_time=sim_time + et(took + delay),
                        worker_pool_id=pool.id,
                        worker_id=worker_id,
                        execution_strategy=strat,
                    )
                )
                if self._dup_prob and self._dup_rng.random() < self._dup_prob:
                    d = self._dup_rng
                    r2 = d.random()
                    if r2 < 0.15 and t.state in (TaskState.VIRTUAL, TaskState.RELEASED, TaskState.SCHEDULED):
                        out.append(Placement.create_task_cancellation(task=t))
                    elif r2 < 0.25:
                        out.append(Placement.create_task_placement(task=t))
                    else:
                        others = [q for q in pools if q is not pool] or pools
                        pool2 = d.choice(others if d.random() < 0.8 else pools)
                        out.append(
                            Placement.create_task_placement(
                                task=t,
                                placement_time=sim_time + et(took + d.choice(self._delays)),
                                worker_pool_id=pool2.id,
                                worker_id=d.choice(pool2.workers).id if d.random() < 0.2 else None,
                                execution_strategy=d.choice(list(t.available_execution_strategies)),
                            )
                        )
        if self._profile_prob and self._rng.random() < self._profile_prob:
            delay = self._rng.choice(self._delays)
            when = sim_time + et(took)   # profile decisions take effect right away (no decision is in flight when the next one is taken)
            ripe = [k for k, x in enumerate(self._loaded) if x[3] < when]   # evict only what has been loaded before (evictions come first at one instant)
            if ripe and self._rng.random() < 0.4:
                prof, pool, wid, _t0 = self._loaded.pop(self._rng.choice(ripe))
                out.append(Placement.create_evict_profile_placement(work_profile=prof, placement_time=when, worker_pool_id=pool.id, worker_id=wid))
            else:
                cands = [t.profile for t in tasks if len(t.profile.loading_strategies) > 0]
                if cands:
                    prof = self._rng.choice(cands)
                    pool = self._rng.choice(pools)
                    wid = self._rng.choice(pool.workers).id if self._rng.random() < 0.7 else None
                    strat = self._rng.choice(list(prof.loading_strategies))
                    targets = [w_ for w_ in pool.workers if wid is None or w_.id == wid]
                    # (only where the loading strategy fits right now: a refused load raises and ends the run)
                    if all(w_.can_accomodate_strategy(strat) for w_ in targets) and not any(
                        q is prof and pl is pool and (w_ == wid or w_ is None or wid is None) for q, pl, w_, _t0 in self._loaded
                    ):
                        # loaded right away: the fit was checked against the cluster as it is now
                        out.append(Placement.create_load_profile_placement(work_profile=prof, placement_time=sim_time + et(took), worker_pool_id=pool.id, loading_strategy=strat, worker_id=wid))
                        self._loaded.append((prof, pool, wid, sim_time + et(took)))
        return Placements(runtime=et(took), true_runtime=et(0), placements=out)


class Recording(BaseScheduler):
    """Wraps a real policy: delegates schedule(), records the decisions, and marks
    the time spent inside the policy so that draws made there are not put on the
    simulator's tape."""

    def __init__(self, inner, run):
        self.__dict__["_inner"] = inner
        self.__dict__["_run"] = run

    def __getattr__(self, name):
        return getattr(self.__dict__["_inner"], name)

    def schedule(self, sim_time, workload, worker_pools):
        run = self.__dict__["_run"]
        run.in_policy = True
        try:
            placements = self.__dict__["_inner"].schedule(sim_time, workload, worker_pools)
        except Exception as e:  # the policy raised: that is the decision the model replays (the run aborts)
            run.decisions.append({"runtime": 0, "placements": [], "raised": type(e).__name__})
            raise
        finally:
            run.in_policy = False
        run.record_decision(sim_time, placements)
        if hasattr(run, "mon"):
            # where in the stream of observations the decision was taken (oracles: which decision a start carries out)
            run.mon.append({"ev": "decision", "k": len(run.decisions) - 1, "time": us(sim_time)})
        return placements


PLANNERS = ("ILP", "TetriSchedGurobi", "TetriSchedCPLEX")
_SOLVERS_QUIET = []


def build_planner(pol, f, flags):
    """The REAL optimisation planners (ILPScheduler / TetriSchedGurobiScheduler / TetriSchedCPLEXScheduler) with the
    options of the world: enforce_deadlines, retract_schedules, release_taskgraphs, lookahead, goal, and for the
    TetriSched formulations the plan-ahead horizon and the time discretisation.  Scheduler runtime 0."""
    if not _SOLVERS_QUIET:
        import multiprocessing

        import gurobipy as gp

        gp.setParam("OutputFlag", 0)  # console chatter only; not a model parameter
        # the planners ask the solvers for `multiprocessing.cpu_count()` threads: the machine is shared
        import schedulers.ilp_scheduler as _m1
        import schedulers.tetrisched_cplex_scheduler as _m2
        import schedulers.tetrisched_gurobi_scheduler as _m3

        one = types.SimpleNamespace(cpu_count=lambda: 1)
        for m in (_m1, _m2, _m3):
            if getattr(m, "multiprocessing", None) is multiprocessing:
                m.multiprocessing = one
        _SOLVERS_QUIET.append(True)
    kw = dict(
        preemptive=False,
        runtime=et(0),
        lookahead=et(pol.get("lookahead", 0)),
        enforce_deadlines=bool(pol.get("enforce_deadlines", True)),
        retract_schedules=bool(pol.get("retract", False)),
        goal=pol.get("goal", "max_goodput"),
        _flags=flags,
    )
    if pol["name"] == "ILP":
        from schedulers.ilp_scheduler import ILPScheduler

        return ILPScheduler(release_taskgraphs=bool(f["release_taskgraphs"]), **kw)
    kw.update(time_discretization=et(pol.get("disc", 1)), plan_ahead=et(pol.get("plan_ahead", -1)))
    if pol["name"] == "TetriSchedGurobi":
        from schedulers.tetrisched_gurobi_scheduler import TetriSchedGurobiScheduler

        return TetriSchedGurobiScheduler(release_taskgraphs=bool(f["release_taskgraphs"]), **kw)
    from schedulers.tetrisched_cplex_scheduler import TetriSchedCPLEXScheduler

    return TetriSchedCPLEXScheduler(**kw)


class Run:
    def __init__(self, world, seed):
        self.world = world
        self.seed = seed
        self.in_policy = False
        self.tape = []
        self.decisions = []
        self.steps = 0
        self.zero_steps = 0
        self.max_zero_steps = 0

    # -- build ---------------------------------------------------------------
    def build(self):
        w = self.world
        self.tmp = tempfile.mkdtemp(prefix="erdos-verif-sim-")
        wl_path = os.path.join(self.tmp, "workload.json")
        wk_path = os.path.join(self.tmp, "workers.json")
        json.dump(w["workload"], open(wl_path, "w"))
        json.dump(w["workers"], open(wk_path, "w"))
        self.flags = make_flags(w["flags"])
        self.flags.random_seed = self.seed
        _random.seed(self.seed)
        EventTime._rng = _random.Random(self.seed)
        _prepare_loggers()
        try:
            self.worker_loader = WorkerLoader(worker_profile_path=wk_path, _flags=self.flags)
            self.workload_loader = WorkloadLoader(path=wl_path, _flags=self.flags)
        finally:
            shutil.rmtree(self.tmp, ignore_errors=True)
        self.pools = self.worker_loader.get_worker_pools()
        f = w["flags"]
        pol = w["policy"]
        rt = et(0)
        if pol["name"] == "EDF":
            inner = EDFScheduler(preemptive=False, runtime=rt, enforce_deadlines=pol.get("enforce_deadlines", False), _flags=self.flags)
        elif pol["name"] == "FIFO":
            inner = FIFOScheduler(preemptive=False, runtime=rt, enforce_deadlines=pol.get("enforce_deadlines", False), _flags=self.flags)
        elif pol["name"] == "LSF":
            inner = LSFScheduler(preemptive=False, runtime=rt, _flags=self.flags)
        elif pol["name"] == "RANDOM":
            inner = RandomPolicy(
                _random.Random(self.seed * 7919 + 13),
                lookahead=pol.get("lookahead", 0),
                retract=pol.get("retract", False),
                release_taskgraphs=f["release_taskgraphs"],
                cancel_prob=pol.get("cancel_prob", 0.05),
                batch_prob=pol.get("batch_prob", 0.0),
                delays=pol.get("delays"),
                runtimes=pol.get("runtimes"),
                profile_prob=pol.get("profile_prob", 0.0),
                dup_prob=pol.get("dup_prob", 0.0),
                dup_rng=_random.Random(self.seed * 7919 + 29),
                _flags=self.flags,
            )
        elif pol["name"] in PLANNERS:
            inner = build_planner(pol, f, self.flags)
        else:
            raise ValueError(pol)
        self.inner = inner
        self.sched = Recording(inner, self)
        self.sim = simmod.Simulator(
            worker_pools=self.pools,
            scheduler=self.sched,
            workload_loader=self.workload_loader,
            # the same instants / durations, written in milliseconds where they are whole milliseconds
            loop_timeout=_et_any_unit(f["loop_timeout"]),
            scheduler_frequency=_et_any_unit(f["scheduler_frequency"]),
            _flags=self.flags,
        )
        self.workload = self.workload_loader.workload

    def _priv(self, obj, name, default):
        """Read a private attribute the model is fed with; if the implementation no longer has it the run still
        goes on (the oracles judge it) but the case is marked: the correspondence cannot be checked for it."""
        try:
            return getattr(obj, name)
        except AttributeError:
            if not hasattr(self, "unobservable"):
                self.unobservable = []
            tag = f"{type(obj).__module__}.{type(obj).__qualname__}.{name}"
            if tag not in self.unobservable:
                self.unobservable.append(tag)
            return default

    # -- labels ---------------------------------------------------------------
    def graphs_now(self):
        return list(self.sim._workload.task_graphs.values()) if self.sim._workload.task_graphs else list(self.workload.task_graphs.values())

    def task_index(self):
        idx = {}
        for gi, tg in enumerate(self.all_graphs()):
            for ti, t in enumerate(tg._graph.keys()):
                idx[t.id] = (gi, ti)
        return idx

    def all_graphs(self):
        # the loader's workload object is the one the simulator adopts; closed-loop graphs are appended to it
        return list(self.workload.task_graphs.values())

    # -- recording -------------------------------------------------------------
    def record_decision(self, sim_time, placements):
        idx = self.task_index()
        pool_ids = [p.id for p in self.pools.worker_pools]
        out = []
        for p in placements:
            kind = {1: "evict", 2: "load", 3: "cancel", 4: "place"}[p.placement_type.value]
            d = {"kind": kind}
            if kind in ("place", "cancel"):
                gi, ti = idx[p.task.id]
                d.update(g=gi, t=ti)
            else:
                # LOAD_WORK_PROFILE / EVICT_WORK_PROFILE: the profile is named by the index the tasks carry
                prof = p._computation
                if id(prof) not in self.prof_ids:
                    raise NotImplementedError("profile placement for a work profile no task of the workload uses")
                d["profile"] = self.prof_ids[id(prof)]
            d["time"] = us(p.placement_time)
            d["pool"] = None if p.worker_pool_id is None else pool_ids.index(p.worker_pool_id)
            if p.worker_id is not None:
                pool = self.pools.get_worker_pool(p.worker_pool_id)
                d["worker"] = [w.id for w in pool.workers].index(p.worker_id)
            else:
                d["worker"] = None
            st = p._strategy if kind in ("place", "load") else None
            d["strat"] = None if st is None else self.strat_json(st)
            out.append(d)
        self.decisions.append({"runtime": us(placements.runtime), "placements": out})

    def strat_json(self, st):
        sid = self.sids.setdefault(id(st), len(self.sids))
        self._keep.append(st)
        return {
            "sid": sid,
            "batch": isinstance(st, BatchStrategy),
            "bid": st.id if isinstance(st, BatchStrategy) else None,
            "bs": st.batch_size,
            "rt": us(st.runtime),
            "req": [[r.name, rid_back(r.id), q] for r, q in st.resources._resource_vector.items()],
        }

    # -- world extraction -------------------------------------------------------
    def extract(self):
        self.sids, self._keep = {}, []
        pools = []
        for p in self.pools.worker_pools:
            pools.append({"name": p.name, "workers": [[[r.name, rid_back(r.id), q] for r, q in w.resources._resource_vector.items()] for w in p.workers]})
        prof_ids = self.prof_ids = {}

        def graph_json(tg, pristine=False):
            order = list(tg._graph.keys())
            pos = {id(t): i for i, t in enumerate(order)}
            tasks = []
            for t in order:
                pid = prof_ids.setdefault(id(t.profile), len(prof_ids))
                tasks.append(
                    {
                        "name": t.name,
                        "conditional": bool(t.conditional),
                        "terminal": bool(t.terminal),
                        "prob": int(round(t.job.probability * 1000)) if pristine else int(round(t.probability * 1000)),
                        "strategies": [self.strat_json(s) for s in t.available_execution_strategies],
                        "profile": pid,
                        "release": -1 if pristine else us(t.release_time),
                        "deadline": 0 if pristine else us(t.deadline),
                    }
                )
            return {
                "name": tg.name,
                "tasks": tasks,
                "children": [[pos[id(c)] for c in tg._graph[t]] for t in order],
                "parents": [[pos[id(p)] for p in tg._parent_graph.get(t, [])] for t in order],
                "topo": [pos[id(t)] for t in tg.topological_sort()],
            }

        jobs, job_index = [], {}
        graphs = []
        for i, name in enumerate(self.workload.job_graphs):
            job_index[name] = i
        tgs = list(self.workload.task_graphs.values())
        first_of_job = {}
        for tg in tgs:
            first_of_job.setdefault(tg.job_graph.name, tg)
        for name, jg in self.workload.job_graphs.items():
            rp = jg.release_policy
            closed = rp is not None and rp.policy_type == type(jg).ReleasePolicyType.CLOSED_LOOP
            tg0 = first_of_job.get(name)
            if tg0 is None:
                # no invocation at all: the job contributes nothing to the run
                jobs.append({"name": name, "closed_loop": closed, "remaining": 0, "index": 0, "critical": 0, "template": {"name": name, "tasks": [], "children": [], "parents": [], "topo": []}})
                continue
            jobs.append(
                {
                    "name": name,
                    "closed_loop": closed,
                    "remaining": int(min(self._priv(jg, "_remaining_task_graphs", 0), 10**9)),
                    "index": int(max(self._priv(jg, "_task_graph_index", 0), 0)),
                    "critical": us(tg0.critical_path_runtime),
                    "template": graph_json(tg0, pristine=True),
                }
            )
        for tg in tgs:
            ts = next(iter(tg._graph.keys())).timestamp
            graphs.append({"job": job_index[tg.job_graph.name], "timestamp": int(ts), "critical": us(tg.critical_path_runtime), "graph": graph_json(tg)})
        f = self.world["flags"]
        inner = self.inner
        flags = {
            "loop_timeout": f["loop_timeout"],
            "scheduler_frequency": f["scheduler_frequency"],
            "scheduler_delay": f["scheduler_delay"],
            "drop_skipped_tasks": f["drop_skipped_tasks"],
            "scheduler_run_at_worker_free": f["scheduler_run_at_worker_free"],
            "workload_update_interval": f["workload_update_interval"],
            "lookahead": us(inner.lookahead),
            "preemptive": bool(inner.preemptive),
            "retract_schedules": bool(inner.retract_schedules),
            "policy": inner.policy.name,
            "release_taskgraphs": bool(inner.release_taskgraphs),
        }
        return {"suite": "sim", "flags": flags, "pools": pools, "jobs": jobs, "graphs": graphs}

    # -- run -------------------------------------------------------------------
    def install_patches(self):
        run = self
        self._orig_random = wtasks.random
        fake = types.SimpleNamespace()
        for name in dir(_random):
            if not name.startswith("_"):
                setattr(fake, name, getattr(_random, name))

        def choices(population, weights=None, k=1):
            r = _random.choices(population, weights=weights, k=k)
            if not run.in_policy:
                run.tape.append({"k": "choices", "v": next(i for i, x in enumerate(population) if x is r[0])})
            return r

        def choice(seq):
            if len(seq) == 0:
                raise IndexError("Cannot choose from an empty sequence")
            i = _random.randrange(len(seq))
            if not run.in_policy:
                run.tape.append({"k": "choice", "v": i})
            return seq[i]

        def rnd():
            x = _random.random()
            if not run.in_policy:
                # the only use is `random.random() < branch_prediction_accuracy` (0.5 by default)
                run.tape.append({"k": "coin", "v": bool(x < run.inner.branch_prediction_accuracy)})
            return x

        fake.choices, fake.choice, fake.random = choices, choice, rnd
        wtasks.random = fake
        self._orig_fuzz = EventTime.fuzz

        def fuzz(self_et, variance, bounds=(0, sys.maxsize)):
            r = run._orig_fuzz(self_et, variance, bounds)
            if not run.in_policy:
                run.tape.append({"k": "fuzz", "v": us(r)})
            return r

        EventTime.fuzz = fuzz
        self._orig_step = simmod.Simulator._Simulator__step

        def step(sim, step_size=et(1)):
            run.steps += 1
            if us(step_size) == 0:
                run.zero_steps += 1
                run.max_zero_steps = max(run.max_zero_steps, run.zero_steps)
            else:
                run.zero_steps = 0
            if run.steps > run.world.get("max_steps", 4000) or run.zero_steps > 400:
                raise Watchdog(f"steps={run.steps} consecutive-zero-steps={run.zero_steps}")
            return run._orig_step(sim, step_size)

        simmod.Simulator._Simulator__step = step
        self.install_monitors()

    # -- monitors (model independent observations for the oracles) ----------------
    def label(self, task):
        lab = self._labels.get(task.id)
        if lab is None:
            self._labels = {k: f"g{v[0]}.t{v[1]}" for k, v in self.task_index().items()}
            lab = self._labels.get(task.id, f"?{task.unique_name}")
        return lab

    def install_monitors(self):
        import workers.workers as ww
        from workload import Task, BatchStrategy

        run = self
        self.mon = []
        self._labels = {}
        self._orig = {
            "start": Task.start,
            "finish": Task.finish,
            "release": Task.release,
            "place": ww.Worker.place_task,
            "remove": ww.Worker.remove_task,
        }
        live_workers = {}
        for pi, p in enumerate(self.pools.worker_pools):
            for wi, w in enumerate(p.workers):
                live_workers[id(w)] = (pi, wi)
        self._live_workers = live_workers

        def graph_of(task):
            return run.workload.get_task_graph(task.task_graph)

        def start(task, time=None, variance=0):
            tg = graph_of(task)
            parents = [] if tg is None else [(run.label(p), p.state.name, us(p.completion_time)) for p in tg.get_parents(task)]
            pre = task.state.name
            r = run._orig["start"](task, time, variance)
            run.mon.append(
                {"ev": "start", "t": run.label(task), "time": us(time), "release": us(task.release_time), "intended": us(task.intended_release_time), "remaining": us(task._remaining_time),
                 "parents": parents, "terminal": bool(task.terminal), "pre": pre, "now": us(run.sim._simulator_time),
                 "ptime": us(task._scheduler_placement.placement_time) if task._scheduler_placement else None}
            )
            return r

        def finish(task, time=None):
            r = run._orig["finish"](task, time)
            run.mon.append({"ev": "finish", "t": run.label(task), "completion": us(task.completion_time), "state": task.state.name, "now": us(run.sim._simulator_time)})
            return r

        def release(task, time=None):
            r = run._orig["release"](task, time)
            run.mon.append({"ev": "release", "t": run.label(task), "time": us(time), "state": task.state.name, "intended": us(task.intended_release_time)})
            return r

        def demand_ok(worker):
            """resident demand per resource type vs capacity, recomputed from the strategies"""
            dem, seen_batches = {}, set()
            for t, st in worker._placed_tasks.items():
                if isinstance(st, BatchStrategy):
                    if st.id in seen_batches:
                        continue
                    seen_batches.add(st.id)
                for r, q in st.resources._resource_vector.items():
                    dem[r.name] = dem.get(r.name, 0) + q
            for prof, st in list(worker._available_profiles.items()) + list(worker._pending_profiles.items()):
                for r, q in st.resources._resource_vector.items():
                    dem[r.name] = dem.get(r.name, 0) + q
            cap = {}
            for r, q in worker.resources._Resources__total_resources.items():
                cap[r.name] = cap.get(r.name, 0) + q
            return all(v <= cap.get(k, 0) for k, v in dem.items()), dem, cap

        def place(worker, task, execution_strategy):
            r = run._orig["place"](worker, task, execution_strategy)
            if id(worker) in live_workers:
                ok, dem, cap = demand_ok(worker)
                elsewhere = [live_workers[id(w)] for p in run.pools.worker_pools for w in p.workers if w is not worker and task in w._placed_tasks]
                run.mon.append({"ev": "place", "t": run.label(task), "w": list(live_workers[id(worker)]), "ok": ok, "demand": dem, "capacity": cap,
                                "elsewhere": [list(x) for x in elsewhere], "now": us(run.sim._simulator_time),
                                "batch": execution_strategy.id if isinstance(execution_strategy, BatchStrategy) else None,
                                "batch_size": execution_strategy.batch_size})
            return r

        def remove(worker, current_time, task):
            r = run._orig["remove"](worker, current_time, task)
            if id(worker) in live_workers:
                avail = {}
                for res, q in worker.resources._resource_vector.items():
                    avail[res.name] = avail.get(res.name, 0) + q
                cap = {}
                for res, q in worker.resources._Resources__total_resources.items():
                    cap[res.name] = cap.get(res.name, 0) + q
                run.mon.append({"ev": "remove", "t": run.label(task), "w": list(live_workers[id(worker)]), "now": us(current_time),
                                "idle": len(worker._placed_tasks) == 0 and not worker._available_profiles and not worker._pending_profiles,
                                "avail": avail, "capacity": cap})
            return r

        from workload import Workload

        self._orig["offer"] = Workload.get_schedulable_tasks

        # every state change through the Task API (C06): method, state before, state after (also when it raises)
        def wrap_transition(name):
            orig = getattr(Task, name)
            self._orig["tr_" + name] = orig

            def wrapper(task, *a, **kw):
                pre = task.state.name
                raised = True
                try:
                    r = orig(task, *a, **kw)
                    raised = False
                    return r
                finally:
                    post = task.state.name
                    if pre != post:
                        run.mon.append({"ev": "transition", "t": run.label(task), "via": name, "pre": pre, "post": post, "now": us(run.sim._simulator_time) if hasattr(run, "sim") else None})
                    elif not raised and name in ("unschedule", "start", "finish"):
                        # these calls must move the task on (a re-`schedule` of a SCHEDULED task and the `release` of a
                        # task that was planned ahead legitimately keep the state)
                        run.mon.append({"ev": "noop_call", "t": run.label(task), "via": name, "state": pre, "now": us(run.sim._simulator_time) if hasattr(run, "sim") else None})

            setattr(Task, name, wrapper)


        def offer(wl, time, lookahead=None, preemption=False, retract_schedules=False, worker_pools=None, *a, **kw):
            r = run._orig["offer"](wl, time, *([] if lookahead is None else [lookahead]), preemption, retract_schedules, worker_pools, *a, **kw) if lookahead is not None else run._orig["offer"](wl, time, preemption=preemption, retract_schedules=retract_schedules, worker_pools=worker_pools, *a, **kw)
            if wl is run.sim._workload:
                rtg = a[2] if len(a) > 2 else kw.get("release_taskgraphs", False)
                offered = []
                ids = set()
                for t in r:
                    ids.add(t.id)
                    tg = wl.get_task_graph(t.task_graph)
                    offered.append({"t": run.label(t), "state": t.state.name, "terminal": bool(t.terminal),
                                    "parents": [] if tg is None else [(run.label(q), q.state.name) for q in tg.get_parents(t)]})
                horizon = us(time) + (0 if lookahead is None else us(lookahead))
                starved = [run.label(t) for tg in wl.task_graphs.values() for t in tg.get_nodes()
                           if t.state == TaskState.RELEASED and us(t.release_time) <= horizon and t.id not in ids]
                zero = any(t.state in (TaskState.RUNNING, TaskState.RELEASED, TaskState.SCHEDULED) and t.remaining_time is not None and us(t.remaining_time) <= 0
                           for tg in wl.task_graphs.values() for t in tg.get_nodes())
                run.mon.append({"ev": "offer", "time": us(time), "lookahead": 0 if lookahead is None else us(lookahead), "rtg": bool(rtg),
                                "retract": bool(retract_schedules), "preemption": bool(preemption), "offered": offered, "starved": starved,
                                "zero_remaining_live_task": zero, "in_policy": run.in_policy})
            return r

        Workload.get_schedulable_tasks = offer
        # every pop of the simulator's event queue (C16): the popped event must be minimal in (time, type priority)
        # among everything that is queued at that moment
        self._orig["qnext"] = simmod.EventQueue.next

        def qnext(q):
            ev = run._orig["qnext"](q)
            key = (us(ev.time), ev.event_type.value)
            worse = [(us(x.time), x.event_type.value) for x in q._event_queue if (us(x.time), x.event_type.value) < key]
            run.mon.append({"ev": "pop", "time": key[0], "type": ev.event_type.name, "prio": key[1], "earlier_left": sorted(worse)[:3]})
            return ev

        simmod.EventQueue.next = qnext
        Task.start, Task.finish, Task.release = start, finish, release
        for nm in ("release", "schedule", "unschedule", "start", "finish", "cancel", "preempt"):
            wrap_transition(nm)
        ww.Worker.place_task, ww.Worker.remove_task = place, remove

    def remove_monitors(self):
        import workers.workers as ww
        from workload import Task

        from workload import Workload

        Workload.get_schedulable_tasks = self._orig["offer"]
        simmod.EventQueue.next = self._orig["qnext"]
        for nm in ("schedule", "unschedule", "cancel", "preempt"):
            setattr(Task, nm, self._orig["tr_" + nm])
        Task.start, Task.finish, Task.release = self._orig["start"], self._orig["finish"], self._orig["release"]
        ww.Worker.place_task, ww.Worker.remove_task = self._orig["place"], self._orig["remove"]

    def remove_patches(self):
        self.remove_monitors()
        wtasks.random = self._orig_random
        EventTime.fuzz = self._orig_fuzz
        simmod.Simulator._Simulator__step = self._orig_step
        EventTime._rng = _random.Random(42)

    def execute(self):
        """Returns the case for the Lean driver and the implementation's observations."""
        self.build()
        case = self.extract()
        n0 = len(_CSV.rows)
        self.install_patches()
        err = None
        try:
            self.sim.simulate()
        except Watchdog as e:
            err = "Watchdog"
            self.watchdog = str(e)
        except Exception as e:
            err = type(e).__name__
            self.exc = e
        finally:
            self.remove_patches()
        raw = _CSV.rows[n0 - 0 :] if False else list(_CSV.rows)
        rows = self.canon_rows(raw)
        if getattr(self, "unobservable", None):
            case["unobservable"] = list(self.unobservable)
        case["decisions"] = self.decisions
        case["tape"] = self.tape
        case["fuel"] = self.world.get("max_steps", 4000) + 50
        final = [[t.state.name for t in tg._graph.keys()] for tg in self.all_graphs()]
        tasks = {}
        for gi, tg in enumerate(self.all_graphs()):
            for ti, t in enumerate(tg._graph.keys()):
                tasks[f"g{gi}.t{ti}"] = {
                    "name": t.name, "graph": tg.name, "state": t.state.name, "release": us(t.release_time), "deadline": us(t.deadline),
                    "start": us(t.start_time), "completion": us(t.completion_time), "terminal": bool(t.terminal), "conditional": bool(t.conditional), "job_probability": float(t._creating_job.probability),
                    "parents": [f"g{gi}.t{list(tg._graph.keys()).index(p)}" for p in tg._parent_graph.get(t, [])],
                    "children": [f"g{gi}.t{list(tg._graph.keys()).index(c)}" for c in tg._graph[t]],
                    "fits_empty": any(any(w2.can_accomodate_strategy(s2) for s2 in t.available_execution_strategies) for w2 in self.empty_workers()),
                    "min_runtime": min((us(s2.runtime) for s2 in t.available_execution_strategies), default=None),
                }
        graphs = [{"name": tg.name, "complete": bool(tg.is_complete()), "cancelled": bool(tg.is_cancelled()), "deadline": us(tg.deadline),
                   "sinks": [self.label(t) for t in tg.get_sink_tasks()]} for tg in self.all_graphs()]
        obs = {"err": err, "rows": rows, "final": final, "mon": self.mon, "tasks": tasks, "graphs": graphs,
               "steps": self.steps, "max_zero_steps": self.max_zero_steps, "end_time": us(self.sim._simulator_time),
               "raw_rows": raw, "watchdog": getattr(self, "watchdog", None), "exc": (repr(self.exc)[:300] if getattr(self, "exc", None) is not None else None)}
        return case, obs

    def empty_workers(self):
        from copy import deepcopy

        if not hasattr(self, "_empty"):
            self._empty = [deepcopy(w) for p in self.pools.worker_pools for w in p.workers]
        return self._empty

    def canon_rows(self, raw):
        idx = self.task_index()
        pool_ids = {p.id: f"p{i}" for i, p in enumerate(self.pools.worker_pools)}
        out = []
        for line in raw:
            parts = line.split(",")
            parts = [f"g{idx[x][0]}.t{idx[x][1]}" if x in idx else pool_ids.get(x, x) for x in parts]
            if len(parts) > 1 and parts[1] == "SCHEDULER_FINISHED":
                parts[-1] = "<true_runtime>"
            out.append(parts)
        # the utilisation rows of one log call and pool come out in `set` order: sort each block
        # (a block ends when the pool changes or a resource name repeats)
        res, i = [], 0
        while i < len(out):
            if len(out[i]) > 1 and out[i][1] == "WORKER_POOL_UTILIZATION":
                j, names = i, set()
                while (j < len(out) and len(out[j]) > 1 and out[j][1] == "WORKER_POOL_UTILIZATION" and out[j][0] == out[i][0]
                       and out[j][2] == out[i][2] and out[j][3] not in names):
                    names.add(out[j][3])
                    j += 1
                res.extend(sorted(out[i:j], key=lambda r: r[3]))
                i = j
            else:
                res.append(out[i])
                i += 1
        return res


def rid_back(s):
    if s == "any":
        return None
    if s.startswith("id"):
        return int(s[2:])
    raise ValueError(f"unexpected resource id {s!r}: descriptions must give explicit ids")
