"""Build and run the stand-alone C++ STRL driver (C20).

The driver (cxx/strl_driver.cpp) is compiled on every check run from the
tetrisched sources of the repository under test ($ERDOS_REPO) with the
header-only sequential TBB stand-in in cxx/tbb_shim/.  Nothing is cached across
runs: the object files in cxx/build/ are overwritten each time.
"""
from __future__ import annotations

import json
import os
import subprocess
import time
from concurrent.futures import ThreadPoolExecutor
from pathlib import Path

from harness import common

CXX = common.VERIF / "cxx"
BUILD = CXX / "build"
SOURCES = ["Types", "Partition", "SolverModel", "CapacityConstraint", "Expression", "OptimizationPasses"]


class CxxFailure(Exception):
    pass


def tetrisched_dir() -> Path:
    return common.REPO / "schedulers" / "tetrisched"


def build(verbose=False) -> float:
    """Compile the six library sources + the driver; returns wall seconds."""
    t0 = time.time()
    BUILD.mkdir(parents=True, exist_ok=True)
    (BUILD / "logs").mkdir(exist_ok=True)
    tdir = tetrisched_dir()
    flags = ["-std=c++20", "-O0", "-w", "-I", str(CXX / "tbb_shim"), "-I", str(tdir / "include")]
    jobs = [(str(tdir / "src" / f"{s}.cpp"), str(BUILD / f"{s}.o")) for s in SOURCES]
    jobs.append((str(CXX / "strl_driver.cpp"), str(BUILD / "strl_driver.o")))
    exe = BUILD / "strl_driver"
    if exe.exists():
        exe.unlink()

    def cc(job):
        src, obj = job
        p = subprocess.run(["g++", *flags, "-c", src, "-o", obj], stdout=subprocess.PIPE, stderr=subprocess.STDOUT, text=True)
        return src, p.returncode, p.stdout

    with ThreadPoolExecutor(max_workers=4) as ex:
        res = list(ex.map(cc, jobs))
    bad = [(s, out) for s, rc, out in res if rc != 0]
    if bad:
        raise CxxFailure("c++ compile failed: " + bad[0][0] + "\n" + bad[0][1][-3000:])
    p = subprocess.run(["g++", *[o for _, o in jobs], "-o", str(exe)], stdout=subprocess.PIPE, stderr=subprocess.STDOUT, text=True)
    if p.returncode != 0:
        raise CxxFailure("c++ link failed\n" + p.stdout[-3000:])
    return time.time() - t0


# ---------------------------------------------------------------------------
# case (python dict, same shape as the Lean driver's request) -> driver text
# ---------------------------------------------------------------------------


def _flatten(tree):
    """Post-order list of (id, node) with children ids; ids are post-order numbers."""
    out = []

    def go(n):
        kids = [go(c) for c in n.get("ch", [])]
        i = len(out)
        out.append((i, n, kids))
        return i

    root = go(tree)
    return out, root


def _tok(s: str) -> str:
    assert s and not any(c.isspace() for c in s), f"bad token {s!r}"
    return s


def case_text(cid: str, case: dict, assigns=None) -> str:
    L = [f"case {_tok(cid)}"]
    for p in case["parts"]:
        L.append(f"p {p['id']} {_tok(p['name'])} {p['qty']}")
    L.append("avail " + " ".join(str(x) for x in case["avail"]))
    L.append(f"now {case['now']}")
    L.append(f"gran {case['gran']}")
    ps = case.get("passes", 0)
    L.append(f"passes {ps} {case.get('min_disc', 1)} {case.get('max_disc', 5)} {case.get('occ', 0.8)}")
    nodes, root = _flatten(case["tree"])
    for i, n, kids in nodes:
        t = n["t"]
        s = f"node {i} {t} {_tok(n['name'])}"
        if t == "choose":
            s += f" n {n['n']} start {n['start']} dur {n['dur']} u {n['u']}"
            if n.get("strategy"):
                s += f" strategy {_tok(n['strategy'])}"
            s += f" parts {len(n['parts'])} " + " ".join(str(x) for x in n["parts"])
        elif t == "wchoose":
            s += f" n {n['n']} start {n['start']} dur {n['dur']} end {n['end']} gran {n['gran']} u {n['u']}"
            s += f" parts {len(n['parts'])} " + " ".join(str(x) for x in n["parts"])
        elif t == "mchoose":
            s += f" n {n['n']} start {n['start']} end {n['end']} gran {n['gran']} u {n['u']}"
            s += f" parts {len(n['parts'])} " + " ".join(str(x) for x in n["parts"])
        elif t == "alloc":
            s += f" start {n['start']} dur {n['dur']} allocs {len(n['allocs'])} " + " ".join(f"{a} {q}" for a, q in n["allocs"])
        elif t == "scale":
            s += f" f {n['f']} disregard {1 if n['disregard'] else 0}"
        if kids:
            s += f" ch {len(kids)} " + " ".join(str(k) for k in kids)
        L.append(s.rstrip())
    L.append(f"root {root}")
    for a in assigns or []:
        L.append("assign " + " ".join(str(x) for x in a))
    L.append("end")
    return "\n".join(L) + "\n"


def _run_once(cases, timeout, budget):
    exe = BUILD / "strl_driver"
    if not exe.exists():
        raise CxxFailure("strl_driver not built")
    text = "".join(case_text(cid, c, a) for cid, c, a in cases)
    env = dict(os.environ)
    # ScopeTimer / Logger append to files in this directory; a directory that does not exist disables them
    env["TETRISCHED_LOGGING_DIR"] = str(BUILD / "no-such-dir")
    p = subprocess.run([str(exe), str(budget)], input=text, stdout=subprocess.PIPE, stderr=subprocess.PIPE, text=True, timeout=timeout, cwd=str(BUILD), env=env)
    out = {}
    for line in p.stdout.split("\n"):
        if line.startswith("@@ "):
            try:
                d = json.loads(line[3:])
            except json.JSONDecodeError:
                continue  # a child killed in the middle of its reply
            out[d["case"]] = d
    return p, out


def run(cases: list[tuple[str, dict, list | None]], watchdog=False, timeout=60, budget=3) -> dict[str, dict]:
    """cases: (id, case, assigns or None). Returns id -> driver reply.

    Fast mode runs the whole batch in one process. If that process crashes or
    does not come back (a loop inside the library), or when `watchdog` is set,
    every case runs in a forked child with a wall-clock budget and the reply of
    a failing case is {"err": "TIMEOUT: …"} / {"err": "CRASH: …"} (forking costs
    ~10 ms per case here, hence not the default)."""
    if not cases:
        return {}
    if not watchdog:
        try:
            p, out = _run_once(cases, timeout, 0)
            if p.returncode == 0 and len(out) == len(cases):
                return out
        except subprocess.TimeoutExpired:
            pass
    p, out = _run_once(cases, 600 + budget * len(cases), budget)
    if p.returncode != 0 or len(out) != len(cases):
        missing = [cid for cid, _, _ in cases if cid not in out]
        raise CxxFailure(f"strl_driver rc={p.returncode}, {len(out)}/{len(cases)} replies, first missing {missing[:1]}; stderr: {p.stderr[-500:]}")
    return out
