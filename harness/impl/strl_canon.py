"""Canonical forms for the C20 correspondence (C++ dump vs Lean `compile`)."""
from __future__ import annotations


def _num(x):
    """Dumped numbers are doubles; integral ones are printed as integers."""
    if isinstance(x, bool):
        return x
    if isinstance(x, float) and x == int(x):
        return int(x)
    return x


def var_names_unique(model: dict) -> bool:
    names = [v["name"] for v in model["vars"]]
    return len(set(names)) == len(names)


def canon_model(model: dict, with_active=False) -> dict:
    """Order-free, name-keyed form of a dumped model. Requires unique variable names."""
    names = [v["name"] for v in model["vars"]]
    vs = sorted((v["name"], v["type"], _num(v["lb"]), _num(v["ub"])) for v in model["vars"])

    def term(t):
        c, i = t
        return (names[i] if i >= 0 else ("<const>" if i == -1 else "<not-in-model>"), _num(c))

    cons = []
    for c in model["cons"]:
        row = [c["name"], c["op"], _num(c["rhs"]), sorted(term(t) for t in c["terms"])]
        if with_active:
            row.append(bool(c.get("active", True)))
        cons.append(row)
    cons.sort(key=lambda r: (r[0], r[1], str(r[2]), str(r[3])))
    obj = model.get("obj")
    o = None
    if obj is not None:
        # the objective is compared as a linear function: coefficients summed per variable
        acc = {}
        for c, i in obj["terms"]:
            k = names[i] if i >= 0 else "<const>"
            acc[k] = acc.get(k, 0) + _num(c)
        o = {"ub": _num(obj.get("ub")), "terms": sorted((k, v) for k, v in acc.items() if v != 0 or k != "<const>")}
    return {"vars": [list(v) for v in vs], "cons": [[r[0], r[1], r[2], [list(t) for t in r[3]]] + r[4:] for r in cons], "obj": o}


def diff_models(a: dict, b: dict) -> list[str]:
    """Human-readable differences between two canonical models (a = C++, b = Lean)."""
    out = []
    if a["vars"] != b["vars"]:
        sa, sb = {tuple(v) for v in a["vars"]}, {tuple(v) for v in b["vars"]}
        out.append(f"vars: only-cxx={sorted(sa - sb)[:4]} only-lean={sorted(sb - sa)[:4]}")
    if a["cons"] != b["cons"]:
        ka = [repr(c) for c in a["cons"]]
        kb = [repr(c) for c in b["cons"]]
        oa = [c for c in ka if c not in kb]
        ob = [c for c in kb if c not in ka]
        out.append(f"cons: only-cxx={oa[:3]} only-lean={ob[:3]} (n {len(ka)} vs {len(kb)})")
    if a["obj"] != b["obj"]:
        out.append(f"obj: cxx={a['obj']} lean={b['obj']}")
    return out


def canon_placements(pls: list[dict]) -> list:
    out = []
    for p in pls:
        out.append([p["name"], _num(p["start"]), _num(p["end"]), sorted([_num(x) for x in a] for a in p["alloc"])])
    out.sort()
    return out
