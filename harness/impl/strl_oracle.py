"""Model-independent oracle for C20: reference semantics of STRL trees.

Nothing here looks at the Lean model or at the generated constraint system; the
inputs are the STRL tree, the partitions and what the C++ `populateResults`
reported (placements + utility).

Reference semantics (from the property text and Expression.hpp):
* a schedule gives every Choose leaf either nothing or an allocation
  {partition -> quantity}; a placed Choose needs start >= now, quantities summing
  to its demand, taken from its own partitions that are available, each within
  the partition's quantity; it occupies them during [start, start + duration);
* an Allocation always holds its resources during [start, start + duration);
* Max is satisfied iff exactly one child is placed (never more than one),
  Min iff all children are satisfied, LessThan iff both children are satisfied
  and everything under the first ends no later than anything under the second
  starts, Scale iff its child is; an unsatisfied node has nothing placed below it;
* utility: Choose u, Max = chosen child, Min / LessThan = sum, Scale = f * child
  (or f when the utility is disregarded), Objective = sum over satisfied children;
* at every time unit and for every partition the placed quantities plus the
  Allocations stay within the partition's quantity.
"""
from __future__ import annotations

import itertools


def leaves(tree):
    out = []

    def go(n, path):
        if n["t"] in ("choose", "alloc"):
            out.append((tuple(path), n))
        for i, c in enumerate(n.get("ch", [])):
            go(c, path + [i])

    go(tree, [])
    return out


def horizon(case) -> int:
    h = 1
    for _, n in leaves(case["tree"]):
        h = max(h, n["start"] + n["dur"] + 1)
    return h


def sched_parts(case, leaf):
    qty = {p["id"]: p["qty"] for p in case["parts"]}
    out = []
    for pid in leaf["parts"]:
        if pid in case["avail"] and pid in qty and pid not in out:
            out.append(pid)
    return out


def eligible(case, leaf) -> bool:
    return leaf["start"] >= case["now"] and len(sched_parts(case, leaf)) > 0


# ---------------------------------------------------------------------------
# evaluation of a tree under a set of placed leaves
# ---------------------------------------------------------------------------


class Ev:
    __slots__ = ("sat", "utility", "lo", "hi", "placed", "problems")

    def __init__(self, sat, utility, lo, hi, placed, problems):
        self.sat, self.utility, self.lo, self.hi, self.placed, self.problems = sat, utility, lo, hi, placed, problems


def evaluate(case, placed: dict) -> Ev:
    """placed: leaf path -> {pid: qty}. Returns the evaluation of the root; `problems`
    lists the structural clauses that do not hold."""

    def span(evs):
        los = [e.lo for e in evs if e.lo is not None]
        his = [e.hi for e in evs if e.hi is not None]
        return (min(los) if los else None, max(his) if his else None)

    def go(n, path):
        t = n["t"]
        if t == "choose":
            p = path in placed
            return Ev(p, n["u"] if p else 0, n["start"] if p else None, n["start"] + n["dur"] if p else None, 1 if p else 0, [])
        if t == "alloc":
            return Ev(True, 0, n["start"], n["start"] + n["dur"], 0, [])
        evs = [go(c, path + (i,)) for i, c in enumerate(n["ch"])]
        probs = [p for e in evs for p in e.problems]
        nplaced = sum(e.placed for e in evs)
        if t == "obj":
            lo, hi = span([e for e in evs if e.sat])
            return Ev(True, sum(e.utility for e in evs if e.sat), lo, hi, nplaced, probs)
        if t == "max":
            k = sum(1 for e in evs if e.sat)
            if k > 1:
                probs.append(f"max:{k}-children-placed")
            sat = k == 1
            ch = [e for e in evs if e.sat]
            lo, hi = span(ch[:1])
            return Ev(sat, ch[0].utility if sat else 0, lo, hi, nplaced, probs)
        if t == "min":
            sat = all(e.sat for e in evs)
            if not sat and nplaced:
                probs.append("min:placed-below-unsatisfied")
            lo, hi = span(evs) if sat else (None, None)
            return Ev(sat, sum(e.utility for e in evs) if sat else 0, lo, hi, nplaced, probs)
        if t == "lt":
            a, b = evs
            both = a.sat and b.sat
            ordered = both and (a.hi is None or b.lo is None or a.hi <= b.lo)
            sat = both and ordered
            if both and not ordered and nplaced:
                probs.append("lt:first-ends-after-second-starts")
            elif not sat and nplaced:
                probs.append("lt:placed-below-unsatisfied")
            return Ev(sat, a.utility + b.utility if sat else 0, a.lo if sat else None, b.hi if sat else None, nplaced, probs)
        if t == "scale":
            (c,) = evs
            u = 0
            if c.sat:
                u = n["f"] if n["disregard"] else n["f"] * c.utility
            return Ev(c.sat, u, c.lo, c.hi, nplaced, probs)
        raise ValueError(t)

    return go(case["tree"], ())


def usage_problems(case, placed: dict) -> list[str]:
    qty = {p["id"]: p["qty"] for p in case["parts"]}
    H = horizon(case)
    use = {(pid, t): 0 for pid in qty for t in range(H)}
    for path, n in leaves(case["tree"]):
        if n["t"] == "alloc":
            for pid, q in n["allocs"]:
                for t in range(n["start"], n["start"] + n["dur"]):
                    use[(pid, t)] = use.get((pid, t), 0) + q
        elif path in placed:
            for pid, q in placed[path].items():
                for t in range(n["start"], n["start"] + n["dur"]):
                    use[(pid, t)] = use.get((pid, t), 0) + q
    bad = [(pid, t, u) for (pid, t), u in sorted(use.items()) if u > qty.get(pid, 0)]
    if bad:
        pid, t, u = bad[0]
        return [f"capacity:partition-{pid}-at-{t}-uses-{u}-of-{qty.get(pid, 0)}"]
    return []


# ---------------------------------------------------------------------------
# checking what populateResults reported
# ---------------------------------------------------------------------------


def check_result(case, root: dict, objective_value) -> list[str]:
    """Returns the list of violated clauses (empty = fine) for one solution read back
    by the C++ `populateResults` (root = dumped root SolutionResult)."""
    probs = []
    ch = [(path, n) for path, n in leaves(case["tree"]) if n["t"] == "choose"]
    qty = {p["id"]: p["qty"] for p in case["parts"]}
    placed = {}
    for pl in root["placements"]:
        if pl["placed"] is not True:
            probs.append("placement:not-placed-object")
            continue
        cands = [(path, n) for path, n in ch if n["name"] == pl["name"] and n["start"] == pl["start"] and path not in placed]
        if not cands:
            probs.append("placement:no-matching-choose")
            continue
        # several options of one task may start at the same time (different strategies): the placement stands for
        # the option it matches best (duration, amount, partitions); it is judged against that one
        def _fit(cand):
            _p, m = cand
            amount = sum(q for _pid, _t, q in pl["alloc"])
            sp_ = set(sched_parts(case, m))
            return (pl["end"] == m["start"] + m["dur"]) + (amount == m["n"]) + all(pid in sp_ for pid, _t, _q in pl["alloc"])

        path, n = max(cands, key=_fit)   # max keeps the first of equally good candidates
        alloc = {}
        for pid, t, q in pl["alloc"]:
            if t != n["start"]:
                probs.append("placement:allocation-time-differs-from-start")
            alloc[pid] = alloc.get(pid, 0) + q
        if pl["end"] != n["start"] + n["dur"]:
            probs.append("choose:wrong-duration")
        if sum(alloc.values()) != n["n"]:
            probs.append("choose:wrong-amount")
        if not eligible(case, n):
            probs.append("choose:placed-in-the-past-or-without-partitions")
        sp = sched_parts(case, n)
        for pid, q in alloc.items():
            if pid not in sp:
                probs.append("choose:foreign-partition")
            elif q > qty[pid] or q < 0:
                probs.append("choose:more-than-the-partition-holds")
        placed[path] = alloc
    probs += usage_problems(case, placed)
    ev = evaluate(case, placed)
    probs += ev.problems
    if root["utility"] != objective_value:
        probs.append("utility:reported-differs-from-objective")
    if root["utility"] != ev.utility:
        probs.append("utility:reported-differs-from-schedule-utility")
    return sorted(set(probs))


# ---------------------------------------------------------------------------
# brute-force optimum
# ---------------------------------------------------------------------------


def alloc_vectors(case, leaf):
    sp = sched_parts(case, leaf)
    qty = {p["id"]: p["qty"] for p in case["parts"]}
    n = leaf["n"]
    out = []

    def go(i, left, cur):
        if i == len(sp):
            if left == 0:
                out.append({k: v for k, v in cur.items() if v})
            return
        for q in range(0, min(qty[sp[i]], left) + 1):
            cur[sp[i]] = q
            go(i + 1, left - q, cur)
        cur.pop(sp[i], None)

    go(0, n, {})
    return out


class _Budget(Exception):
    pass


def search_space(case) -> int:
    """Number of schedules a naive product enumeration visits."""
    space = 1
    for path, n in leaves(case["tree"]):
        if n["t"] == "choose":
            space *= (len(alloc_vectors(case, n)) if eligible(case, n) else 0) + 1
    return space


def sem_opt(case, limit=400000):
    """Maximum utility over all valid schedules (None when the search needs more
    than `limit` search nodes)."""
    ls = leaves(case["tree"])
    ch = [(path, n) for path, n in ls if n["t"] == "choose"]
    qty = {p["id"]: p["qty"] for p in case["parts"]}
    H = horizon(case)
    use = {}
    for path, n in ls:
        if n["t"] == "alloc":
            for pid, q in n["allocs"]:
                for t in range(n["start"], n["start"] + n["dur"]):
                    use[(pid, t)] = use.get((pid, t), 0) + q
    if any(u > qty.get(pid, 0) for (pid, t), u in use.items()):
        return "infeasible"
    opts = []
    space = 1
    for path, n in ch:
        o = alloc_vectors(case, n) if eligible(case, n) else []
        opts.append(o)
        space *= len(o) + 1
    best = [0]
    placed = {}
    calls = [0]

    def go(i):
        calls[0] += 1
        if calls[0] > limit:
            raise _Budget()
        if i == len(ch):
            ev = evaluate(case, placed)
            if not ev.problems and ev.utility > best[0]:
                best[0] = ev.utility
            return
        path, n = ch[i]
        go(i + 1)
        for a in opts[i]:
            ok = True
            for pid, q in a.items():
                for t in range(n["start"], n["start"] + n["dur"]):
                    if use.get((pid, t), 0) + q > qty[pid]:
                        ok = False
                        break
                if not ok:
                    break
            if not ok:
                continue
            for pid, q in a.items():
                for t in range(n["start"], n["start"] + n["dur"]):
                    use[(pid, t)] = use.get((pid, t), 0) + q
            placed[path] = a
            go(i + 1)
            del placed[path]
            for pid, q in a.items():
                for t in range(n["start"], n["start"] + n["dur"]):
                    use[(pid, t)] -= q

    try:
        go(0)
    except _Budget:
        return None
    return best[0]
