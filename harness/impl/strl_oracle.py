"""Model-independent oracle for C20: reference semantics of STRL trees.

Nothing here looks at the Lean model or at the generated constraint system; the
inputs are the STRL tree, the partitions and what the C++ `populateResults`
reported (placements + utility).

Reference semantics (from the property text and Expression.hpp):
* a schedule gives every Choose leaf either nothing or an allocation
  {partition -> quantity}; a placed Choose needs start >= now, quantities summing
  to its demand, taken from its own partitions that are available, each within
  the partition's quantity; it occupies them during [start, start + duration);
* an Allocation always holds its resources during [start, start + duration);
* Max is satisfied iff exactly one child is placed (never more than one),
  Min iff all children are satisfied, LessThan iff both children are satisfied
  and everything under the first ends no later than anything under the second
  starts, Scale iff its child is; an unsatisfied node has nothing placed below it;
* utility: Choose u, Max = chosen child, Min / LessThan = sum, Scale = f * child
  (or f when the utility is disregarded), Objective = sum over satisfied children;
* at every time unit and for every partition the placed quantities plus the
  Allocations stay within the partition's quantity.
"""
from __future__ import annotations

import copy
import itertools

# ---------------------------------------------------------------------------
# WindowedChoose / MalleableChoose (reference semantics)
#
# * WindowedChoose(name, parts, n, start, dur, end, gran, u): ONE task that may start at any grid time of its window:
#   semantically a Max over Choose(name, parts, n, s, dur, u) for s in {multiples of `gran`} with start <= s <= end
#   (both ends inclusive: `end` is the LATEST START, this is how the constructor records the time bounds
#   `startTimeRange = {startTime, endTime}` and how schedulers/tetrisched_scheduler.py calls it — the header comment
#   "finishing before endTime" describes something else); an option before `now` cannot be taken.  `desugar` rewrites
#   the tree accordingly, every other function of this module then works on plain trees.
# * MalleableChoose(name, parts, n, start, end, gran, u): `n` resource-time slots spread over the cells
#   (partition, t) for t = start, start+gran, … < end; a cell holds q <= quantity machines during [t, t+gran); the
#   task occupies [first used cell, last used cell + gran).  Handled as a leaf of its own (`mchoose`).
# * shared sub-expressions (one Expression object under two parents) are NOT handled here: every parse() of the C++
#   returns its cached ParseResult (`if (parsedResult != nullptr) return parsedResult;`), i.e. a shared node is
#   compiled once and its indicator / utility feed both parents; the check does not generate such DAGs.
# ---------------------------------------------------------------------------


def wchoose_starts(n) -> list[int]:
    """Reference set of allowed start times of a WindowedChoose (grid times inside the window, ends inclusive)."""
    g = n["gran"]
    first = -(-n["start"] // g) * g
    return list(range(first, n["end"] + 1, g))


def wchoose_nodes(tree) -> list[dict]:
    out = []

    def go(n):
        if n["t"] == "wchoose":
            out.append(n)
        for c in n.get("ch", []):
            go(c)

    go(tree)
    return out


def has_window(tree) -> bool:
    """Does the tree use a node kind that only this oracle (not the Lean model) understands?"""
    def go(n):
        return n["t"] in ("wchoose", "mchoose") or any(go(c) for c in n.get("ch", []))

    return go(tree)


def desugar(case, extra=None) -> dict:
    """The case with every WindowedChoose rewritten as a Max over its Choose options.  `extra`: name -> start times
    outside the reference set that must be present as (flagged) options, so that a placement the code made there can
    still be judged for capacity / structure / utility."""
    if not wchoose_nodes(case["tree"]):
        return case

    def go(n):
        if n["t"] == "wchoose":
            ref = wchoose_starts(n)
            opts = [(s, False) for s in ref] + [(s, True) for s in sorted(set((extra or {}).get(n["name"], [])) - set(ref))]
            return {"t": "max", "name": n["name"] + "#window", "_w": True, "ch": [
                {"t": "choose", "name": n["name"], "parts": list(n["parts"]), "n": n["n"], "start": s, "dur": n["dur"], "u": n["u"],
                 "_w": n, "_extra": x} for s, x in sorted(opts)]}
        if "ch" in n:
            m = dict(n)
            m["ch"] = [go(c) for c in n["ch"]]
            return m
        return n

    out = dict(case)
    out["tree"] = go(case["tree"])
    return out


def mslots(n) -> list[int]:
    return list(range(n["start"], n["end"], n["gran"]))


def leaves(tree):
    out = []

    def go(n, path):
        if n["t"] in ("choose", "alloc", "mchoose"):
            out.append((tuple(path), n))
        for i, c in enumerate(n.get("ch", [])):
            go(c, path + [i])

    go(tree, [])
    return out


def horizon(case) -> int:
    h = 1
    for w in wchoose_nodes(case["tree"]):
        # one grid step beyond the window: the code may start an option there (see `check_result`)
        h = max(h, w["end"] + w["gran"] + w["dur"] + 1)
    for _, n in leaves(desugar(case)["tree"]):
        h = max(h, (n["end"] + n["gran"] if n["t"] == "mchoose" else n["start"] + n["dur"]) + 1)
    return h


def sched_parts(case, leaf):
    qty = {p["id"]: p["qty"] for p in case["parts"]}
    out = []
    for pid in leaf["parts"]:
        if pid in case["avail"] and pid in qty and pid not in out:
            out.append(pid)
    return out


def eligible(case, leaf) -> bool:
    return leaf["start"] >= case["now"] and len(sched_parts(case, leaf)) > 0


# ---------------------------------------------------------------------------
# evaluation of a tree under a set of placed leaves
# ---------------------------------------------------------------------------


class Ev:
    __slots__ = ("sat", "utility", "lo", "hi", "placed", "problems")

    def __init__(self, sat, utility, lo, hi, placed, problems):
        self.sat, self.utility, self.lo, self.hi, self.placed, self.problems = sat, utility, lo, hi, placed, problems


def evaluate(case, placed: dict) -> Ev:
    """placed: leaf path -> {pid: qty}. Returns the evaluation of the root; `problems`
    lists the structural clauses that do not hold."""

    def span(evs):
        los = [e.lo for e in evs if e.lo is not None]
        his = [e.hi for e in evs if e.hi is not None]
        return (min(los) if los else None, max(his) if his else None)

    def go(n, path):
        t = n["t"]
        if t == "choose":
            p = path in placed
            return Ev(p, n["u"] if p else 0, n["start"] if p else None, n["start"] + n["dur"] if p else None, 1 if p else 0, [])
        if t == "alloc":
            return Ev(True, 0, n["start"], n["start"] + n["dur"], 0, [])
        if t == "mchoose":
            p = path in placed
            ts = [tm for (_pid, tm) in placed[path]] if p else []
            return Ev(p, n["u"] if p else 0, min(ts) if p else None, max(ts) + n["gran"] if p else None, 1 if p else 0, [])
        evs = [go(c, path + (i,)) for i, c in enumerate(n["ch"])]
        probs = [p for e in evs for p in e.problems]
        nplaced = sum(e.placed for e in evs)
        if t == "obj":
            lo, hi = span([e for e in evs if e.sat])
            return Ev(True, sum(e.utility for e in evs if e.sat), lo, hi, nplaced, probs)
        if t == "max":
            k = sum(1 for e in evs if e.sat)
            if k > 1:
                probs.append(f"max:{k}-children-placed")
            sat = k == 1
            ch = [e for e in evs if e.sat]
            lo, hi = span(ch[:1])
            return Ev(sat, ch[0].utility if sat else 0, lo, hi, nplaced, probs)
        if t == "min":
            sat = all(e.sat for e in evs)
            if not sat and nplaced:
                probs.append("min:placed-below-unsatisfied")
            lo, hi = span(evs) if sat else (None, None)
            return Ev(sat, sum(e.utility for e in evs) if sat else 0, lo, hi, nplaced, probs)
        if t == "lt":
            a, b = evs
            both = a.sat and b.sat
            ordered = both and (a.hi is None or b.lo is None or a.hi <= b.lo)
            sat = both and ordered
            if both and not ordered and nplaced:
                probs.append("lt:first-ends-after-second-starts")
            elif not sat and nplaced:
                probs.append("lt:placed-below-unsatisfied")
            return Ev(sat, a.utility + b.utility if sat else 0, a.lo if sat else None, b.hi if sat else None, nplaced, probs)
        if t == "scale":
            (c,) = evs
            u = 0
            if c.sat:
                u = n["f"] if n["disregard"] else n["f"] * c.utility
            return Ev(c.sat, u, c.lo, c.hi, nplaced, probs)
        raise ValueError(t)

    return go(case["tree"], ())


def usage_problems(case, placed: dict) -> list[str]:
    qty = {p["id"]: p["qty"] for p in case["parts"]}
    H = horizon(case)
    use = {(pid, t): 0 for pid in qty for t in range(H)}
    for path, n in leaves(case["tree"]):
        if n["t"] == "alloc":
            for pid, q in n["allocs"]:
                for t in range(n["start"], n["start"] + n["dur"]):
                    use[(pid, t)] = use.get((pid, t), 0) + q
        elif path in placed and n["t"] == "mchoose":
            for (pid, tm), q in placed[path].items():
                for t in range(tm, tm + n["gran"]):
                    use[(pid, t)] = use.get((pid, t), 0) + q
        elif path in placed:
            for pid, q in placed[path].items():
                for t in range(n["start"], n["start"] + n["dur"]):
                    use[(pid, t)] = use.get((pid, t), 0) + q
    bad = [(pid, t, u) for (pid, t), u in sorted(use.items()) if u > qty.get(pid, 0)]
    if bad:
        pid, t, u = bad[0]
        return [f"capacity:partition-{pid}-at-{t}-uses-{u}-of-{qty.get(pid, 0)}"]
    return []


# ---------------------------------------------------------------------------
# checking what populateResults reported
# ---------------------------------------------------------------------------


def check_result(case, root: dict, objective_value) -> list[str]:
    """Returns the list of violated clauses (empty = fine) for one solution read back
    by the C++ `populateResults` (root = dumped root SolutionResult)."""
    probs, ties = _judge(case, root, objective_value, {})
    if probs and wchoose_nodes(case["tree"]) and any(k > 1 for k in ties.values()):
        # a placement fits several options equally well (an option of a WindowedChoose and a sibling option of the
        # same Max with the same start, duration and demand): the read-back is valid if ONE reading of it is
        ks = [k for k, v in ties.items() if v > 1]
        for n_, combo in enumerate(itertools.product(*[range(ties[k]) for k in ks])):
            if n_ >= 32 or not probs:
                break
            other, _ = _judge(case, root, objective_value, dict(zip(ks, combo)))
            if len(other) < len(probs):
                probs = other
    return probs


def _judge(case, root: dict, objective_value, pick: dict):
    """One reading of the read-back: placement k stands for the pick[k]-th of its equally fitting options."""
    probs = []
    ties = {}
    # a WindowedChoose placed at a time outside its reference options: judged as an extra (flagged) option
    # (`desugar` adds the start to every WindowedChoose of that task name that does not have it; the placement is then
    # read as the option it fits best, see `_fit`, and `check_result` tries the other equally fitting readings)
    extra = {}
    names = {w["name"] for w in wchoose_nodes(case["tree"])}
    for pl in root["placements"]:
        if pl["name"] in names and pl["start"] is not None and 0 <= pl["start"] < 10 ** 6:
            extra.setdefault(pl["name"], []).append(pl["start"])
    case = desugar(case, extra)
    ch = [(path, n) for path, n in leaves(case["tree"]) if n["t"] == "choose"]
    mch = [(path, n) for path, n in leaves(case["tree"]) if n["t"] == "mchoose"]
    qty = {p["id"]: p["qty"] for p in case["parts"]}
    placed = {}
    for k_, pl in enumerate(root["placements"]):
        if pl["placed"] is not True:
            probs.append("placement:not-placed-object")
            continue
        mc = [(path, n) for path, n in mch if n["name"] == pl["name"] and path not in placed]
        if mc and not any(n["name"] == pl["name"] for _p, n in ch):
            path, n = mc[0]
            probs += _check_malleable(case, n, pl, qty)
            cells = {}
            for pid, t, q in pl["alloc"]:
                cells[(pid, t)] = cells.get((pid, t), 0) + q
            if cells:
                placed[path] = cells
            continue
        cands = [(path, n) for path, n in ch if n["name"] == pl["name"] and n["start"] == pl["start"] and path not in placed]
        if not cands:
            probs.append("placement:no-matching-choose")
            continue
        # several options of one task may start at the same time (different strategies): the placement stands for
        # the option it matches best (duration, amount, partitions); it is judged against that one
        def _fit(cand):
            _p, m = cand
            amount = sum(q for _pid, _t, q in pl["alloc"])
            sp_ = set(sched_parts(case, m))
            return (pl["end"] == m["start"] + m["dur"]) + (amount == m["n"]) + all(pid in sp_ for pid, _t, _q in pl["alloc"])

        best = max(_fit(c) for c in cands)
        tied = [c for c in cands if _fit(c) == best]
        ties[k_] = len(tied)
        path, n = tied[min(pick.get(k_, 0), len(tied) - 1)]   # default: the first of equally good candidates
        alloc = {}
        for pid, t, q in pl["alloc"]:
            if t != n["start"]:
                probs.append("placement:allocation-time-differs-from-start")
            alloc[pid] = alloc.get(pid, 0) + q
        kind = "wchoose" if n.get("_w") else "choose"
        if pl["end"] != n["start"] + n["dur"]:
            probs.append(f"{kind}:wrong-duration")
        if sum(alloc.values()) != n["n"]:
            probs.append(f"{kind}:wrong-amount")
        if not eligible(case, n):
            probs.append(f"{kind}:placed-in-the-past-or-without-partitions")
        if n.get("_extra"):
            w = n["_w"]
            if n["start"] % w["gran"] != 0:
                probs.append("wchoose:start-off-grid")
            elif n["start"] > w["end"]:
                probs.append("wchoose:start-after-window-end")
            else:
                probs.append("wchoose:start-before-window")
        sp = sched_parts(case, n)
        for pid, q in alloc.items():
            if pid not in sp:
                probs.append(f"{kind}:foreign-partition")
            elif q > qty[pid] or q < 0:
                probs.append(f"{kind}:more-than-the-partition-holds")
        placed[path] = alloc
    probs += usage_problems(case, placed)
    ev = evaluate(case, placed)
    probs += ev.problems
    if root["utility"] != objective_value:
        probs.append("utility:reported-differs-from-objective")
    if root["utility"] != ev.utility:
        probs.append("utility:reported-differs-from-schedule-utility")
    return sorted(set(probs)), ties


def _check_malleable(case, n, pl, qty) -> list[str]:
    """One placement of a MalleableChoose: n resource-time slots over the cells of its window."""
    probs = []
    sp = sched_parts(case, n)
    slots = mslots(n)
    cells = {}
    for pid, t, q in pl["alloc"]:
        cells[(pid, t)] = cells.get((pid, t), 0) + q
        if t not in slots:
            probs.append("mchoose:allocation-outside-window-or-off-grid")
        if pid not in sp:
            probs.append("mchoose:foreign-partition")
        elif q > qty[pid] or q < 0:
            probs.append("mchoose:more-than-the-partition-holds")
    if sum(cells.values()) != n["n"]:
        probs.append("mchoose:wrong-amount")
    if not eligible(case, n):
        probs.append("mchoose:placed-in-the-past-or-without-partitions")
    if cells:
        ts = [t for (_pid, t) in cells]
        if pl["start"] != min(ts):
            probs.append("mchoose:reported-start-differs-from-first-used-slot")
        if pl["end"] != max(ts) + n["gran"]:
            probs.append("mchoose:reported-end-differs-from-end-of-last-used-slot")
    return probs


def malleable_options(case, leaf) -> list[dict]:
    """All distributions {(pid, t): q} of the leaf's n resource-time slots over its cells."""
    sp = sched_parts(case, leaf)
    qty = {p["id"]: p["qty"] for p in case["parts"]}
    cells = [(pid, t) for pid in sp for t in mslots(leaf)]
    out = []

    def go(i, left, cur):
        if i == len(cells):
            if left == 0:
                out.append({k: v for k, v in cur.items() if v})
            return
        for q in range(0, min(qty[cells[i][0]], left) + 1):
            cur[cells[i]] = q
            go(i + 1, left - q, cur)
        cur.pop(cells[i], None)

    go(0, leaf["n"], {})
    return [o for o in out if o]


def leaf_options(case, leaf) -> list[dict]:
    if not eligible(case, leaf):
        return []
    return malleable_options(case, leaf) if leaf["t"] == "mchoose" else alloc_vectors(case, leaf)


def option_cells(leaf, a):
    """(pid, first time, end time, quantity) of an option of a Choose / MalleableChoose leaf."""
    if leaf["t"] == "mchoose":
        return [(pid, t, t + leaf["gran"], q) for (pid, t), q in a.items()]
    return [(pid, leaf["start"], leaf["start"] + leaf["dur"], q) for pid, q in a.items()]


# ---------------------------------------------------------------------------
# brute-force optimum
# ---------------------------------------------------------------------------


def alloc_vectors(case, leaf):
    sp = sched_parts(case, leaf)
    qty = {p["id"]: p["qty"] for p in case["parts"]}
    n = leaf["n"]
    out = []

    def go(i, left, cur):
        if i == len(sp):
            if left == 0:
                out.append({k: v for k, v in cur.items() if v})
            return
        for q in range(0, min(qty[sp[i]], left) + 1):
            cur[sp[i]] = q
            go(i + 1, left - q, cur)
        cur.pop(sp[i], None)

    go(0, n, {})
    return out


class _Budget(Exception):
    pass


def search_space(case) -> int:
    """Number of schedules a naive product enumeration visits."""
    space = 1
    case = desugar(case)
    for path, n in leaves(case["tree"]):
        if n["t"] in ("choose", "mchoose"):
            space *= len(leaf_options(case, n)) + 1
    return space


def sem_opt(case, limit=400000):
    """Maximum utility over all valid schedules (None when the search needs more
    than `limit` search nodes)."""
    case = desugar(case)
    ls = leaves(case["tree"])
    ch = [(path, n) for path, n in ls if n["t"] in ("choose", "mchoose")]
    qty = {p["id"]: p["qty"] for p in case["parts"]}
    H = horizon(case)
    use = {}
    for path, n in ls:
        if n["t"] == "alloc":
            for pid, q in n["allocs"]:
                for t in range(n["start"], n["start"] + n["dur"]):
                    use[(pid, t)] = use.get((pid, t), 0) + q
    if any(u > qty.get(pid, 0) for (pid, t), u in use.items()):
        return "infeasible"
    opts = []
    space = 1
    for path, n in ch:
        o = leaf_options(case, n)
        opts.append(o)
        space *= len(o) + 1
    best = [0]
    placed = {}
    calls = [0]

    def go(i):
        calls[0] += 1
        if calls[0] > limit:
            raise _Budget()
        if i == len(ch):
            ev = evaluate(case, placed)
            if not ev.problems and ev.utility > best[0]:
                best[0] = ev.utility
            return
        path, n = ch[i]
        go(i + 1)
        for a in opts[i]:
            ok = True
            cells = option_cells(n, a)
            for pid, t0, t1, q in cells:
                for t in range(t0, t1):
                    if use.get((pid, t), 0) + q > qty[pid]:
                        ok = False
                        break
                if not ok:
                    break
            if not ok:
                continue
            for pid, t0, t1, q in cells:
                for t in range(t0, t1):
                    use[(pid, t)] = use.get((pid, t), 0) + q
            placed[path] = a
            go(i + 1)
            del placed[path]
            for pid, t0, t1, q in cells:
                for t in range(t0, t1):
                    use[(pid, t)] -= q

    try:
        go(0)
    except _Budget:
        return None
    return best[0]
