"""C17: run graph cases against the REAL `workload.graph.Graph` (and the real
`TaskGraph` / `JobGraph` subclasses) of the repository under test.

A case is `{"kind": <label kind>, "ops": [...]}` with the op vocabulary of
`lean/ErdosVerif/Driver/Graph.lean`.  Node labels of the model are naturals; here
they are mapped to real hashable Python objects according to `kind`:

  int1   n -> n + 1            (all truthy)
  int0   n -> n                (0 is falsy: the `if node:` quirk of breadth_first)
  str    n -> "v<n>", 0 -> ""  ("" is falsy)
  tuple  n -> (n,), 0 -> ()    (() is falsy)
  obj    n -> instance of a plain class with identity hash (like Task / Job)
  task   n -> real `workload.Task` in a real `TaskGraph`
  job    n -> real `workload.Job` in a real `JobGraph`

Replies have exactly the JSON shape of the Lean driver's replies.
"""
from __future__ import annotations

import logging
import random
import signal

from harness import common

common.use_repo()

KINDS = ["int1", "int0", "str", "tuple", "obj", "task", "job"]
MAX_YIELDS = 1000  # a generator producing more than this is reported, not followed


class CaseTimeout(Exception):
    pass


class _Obj:
    __slots__ = ("n",)

    def __init__(self, n):
        self.n = n

    def __repr__(self):
        return f"O{self.n}"


_quiet = logging.getLogger("c17-quiet")
_quiet.addHandler(logging.NullHandler())
_quiet.propagate = False
_quiet.setLevel(logging.CRITICAL)


class Labels:
    """Bidirectional map model label <-> real node object for one case."""

    def __init__(self, kind: str, rt: dict | None = None, live=None, slo=None, unit=None, slo_unit=None):
        self.kind = kind
        self.unit = unit or {}  # label -> "ms" | "s": the runtime is GIVEN in that unit (rt stays in us)
        self.slo_unit = slo_unit or {}
        self.rt = rt or {}
        self.live = live
        self.slo = slo or {}
        self.fwd = {}
        self.inv_by_id = {}

    def _make(self, n):
        k = self.kind
        if k == "int1":
            return n + 1
        if k == "int0":
            return n
        if k == "str":
            return "" if n == 0 else f"v{n}"
        if k == "tuple":
            return () if n == 0 else (n,)
        if k == "obj":
            return _Obj(n)
        from utils import EventTime
        from workload import (
            ExecutionStrategies,
            ExecutionStrategy,
            Job,
            Resource,
            Resources,
            Task,
            WorkProfile,
        )

        def et(us, unit_name):
            unit = {"us": EventTime.Unit.US, "ms": EventTime.Unit.MS, "s": EventTime.Unit.S}[unit_name]
            factor = int(unit.value)
            if us % factor:
                raise ValueError(f"{us} us is not a whole number of {unit_name}")
            return EventTime(us // factor, unit)

        runtime = et(int(self.rt.get(n, 1)), self.unit.get(n, "us"))
        profile = WorkProfile(
            name=f"P{n}",
            execution_strategies=ExecutionStrategies(
                strategies=[
                    ExecutionStrategy(
                        resources=Resources(resource_vector={Resource(name="CPU", _id="any"): 1}),
                        batch_size=1,
                        runtime=runtime,
                    )
                ]
            ),
        )
        prob = 1.0 if (self.live is None or n in self.live) else 0.0
        slo = et(int(self.slo[n]), self.slo_unit.get(n, "us")) if n in self.slo else EventTime.invalid()
        job = Job(name=f"J{n}", profile=profile, slo=slo, probability=prob)
        if k == "job":
            return job
        if k == "task":
            return Task(
                name=f"T{n}",
                task_graph="G",
                job=job,
                deadline=EventTime(10**9, EventTime.Unit.US),
                timestamp=0,
                _logger=_quiet,
            )
        raise ValueError(k)

    def get(self, n):
        if n not in self.fwd:
            o = self._make(n)
            self.fwd[n] = o
            self.inv_by_id[id(o)] = n
        return self.fwd[n]

    def inv(self, o):
        k = self.kind
        if k == "int1":
            return o - 1
        if k == "int0":
            return o
        if k == "str":
            return 0 if o == "" else int(o[1:])
        if k == "tuple":
            return 0 if o == () else o[0]
        return self.inv_by_id[id(o)]

    def falsy(self, ns):
        return [n for n in ns if not bool(self.get(n))]


def _cls(e: BaseException) -> str:
    if isinstance(e, CaseTimeout):
        raise e
    return type(e).__name__


def _exc(f, conv=lambda x: x):
    try:
        return conv(f())
    except Exception as e:  # noqa: BLE001 - the class name is the observation
        return {"err": _cls(e)}


def _gen(make_iter, lab: Labels):
    ys = []
    try:
        for x in make_iter():
            ys.append(lab.inv(x))
            if len(ys) > MAX_YIELDS:
                return {"y": ys[:50], "err": "Runaway"}
    except Exception as e:  # noqa: BLE001
        return {"y": ys, "err": _cls(e)}
    return {"y": ys, "err": None}


def new_graph(kind: str, mapping=None):
    from workload.graph import Graph

    if kind == "task":
        from workload import TaskGraph

        return TaskGraph(name="G") if mapping is None else TaskGraph(name="G", tasks=mapping)
    if kind == "job":
        from workload import JobGraph

        return JobGraph(name="JG") if mapping is None else JobGraph(name="JG", jobs=mapping)
    return Graph() if mapping is None else Graph(mapping)


def snapshot(g, lab: Labels):
    children = [[lab.inv(n), [lab.inv(c) for c in cs]] for n, cs in g._graph.items()]
    parents = sorted([lab.inv(n), [lab.inv(p) for p in ps]] for n, ps in g._parent_graph.items() if ps)
    return {"children": children, "parents": parents}


def query(g, lab: Labels, op: dict):
    L = lab.get
    inv = lab.inv
    nat_list = lambda l: [inv(x) for x in l]  # noqa: E731
    ns = op.get("ns", [])
    pairs = op.get("pairs", [])
    ws = op.get("ws", [])
    per = []
    for n in ns:
        o = L(n)
        per.append(
            {
                "n": n,
                "children": _exc(lambda: g.get_children(o), nat_list),
                "parents": _exc(lambda: g.get_parents(o), nat_list),
                "is_source": _exc(lambda: g.is_source(o)),
                "dmax": _exc(lambda: g.get_node_depth(o)),
                "dmin": _exc(lambda: g.get_node_depth(o, min)),
                "bfs": _gen(lambda: g.breadth_first(o), lab),
                "dfs": _gen(lambda: g.depth_first(o), lab),
            }
        )
    dep = [_exc(lambda: g.are_dependent(L(a), L(b))) for a, b in pairs]
    lw = []
    for i, t in enumerate(ws):
        tab = {n: w for n, w in t}
        wfun = lambda x: tab.get(inv(x), 0)  # noqa: E731
        if i == 0 and lab.kind == "task":
            # the real critical-path clause: weights are the tasks' own runtimes
            from utils import EventTime

            g.__dict__.pop("critical_path_runtime", None)  # cached_property
            path = _exc(
                lambda: g.get_longest_path(
                    lambda t_: t_.slowest_execution_strategy.runtime.to(EventTime.Unit.US).time
                ),
                nat_list,
            )
            cpr = _exc(lambda: g.critical_path_runtime.to(EventTime.Unit.US).time)
            g.__dict__.pop("critical_path_runtime", None)
        else:
            path = _exc(lambda: g.get_longest_path(wfun), nat_list)
            cpr = path if isinstance(path, dict) else sum(tab.get(n, 0) for n in path)
        lw.append({"path": path, "cpr": cpr})
    if lab.kind == "task":
        sinks = _exc(lambda: g.get_sink_tasks(), nat_list)
        src_tasks = _exc(lambda: g.get_source_tasks(), nat_list)
        sources = _exc(lambda: g.get_sources(), nat_list)
        if src_tasks != sources:
            sources = {"get_sources": sources, "get_source_tasks": src_tasks}
    else:
        sinks = _exc(lambda: g.filter(lambda x: len(g.get_children(x)) == 0), nat_list)
        sources = _exc(lambda: g.get_sources(), nat_list)
    return {
        "nodes": nat_list(list(g.get_nodes())),
        "len": len(g),
        "edges": [[inv(a), inv(b)] for a, b in g.get_edges()],
        "sources": sources,
        "sinks": sinks,
        "topo": _exc(lambda: g.topological_sort(), nat_list),
        "bfs": _gen(lambda: g.breadth_first(), lab),
        "dfs": _gen(lambda: g.depth_first(), lab),
        "longest": _exc(lambda: g.get_longest_path(), nat_list),
        "per": per,
        "dep": dep,
        "lw": lw,
    }


def jobcost(g, lab: Labels, op: dict):
    from utils import EventTime

    if lab.kind != "job":
        raise RuntimeError("jobcost needs kind=job")
    if op.get("which") == "ct":
        g._completion_time = None
        return _exc(lambda: g.completion_time.to(EventTime.Unit.US).time)
    g.__dict__.pop("critical_path_runtime", None)
    r = _exc(lambda: g.critical_path_runtime.to(EventTime.Unit.US).time)
    g.__dict__.pop("critical_path_runtime", None)
    return r


def _alarm(_sig, _frm):
    raise CaseTimeout()


def run_case(case: dict, timeout_s: float = 10.0) -> dict:
    """Run one case on the real code; returns {"res": [...]} like the driver.
    A case that does not finish within `timeout_s` yields {"res": ..., "timeout": True}."""
    kind = case.get("kind", "int1")
    rt = {n: r for n, r in case.get("rt", [])}
    live = set(case["live"]) if "live" in case else None
    slo = {n: s for n, s in case.get("slo", [])}
    random.seed(12345)  # Job/Task ids come from `random`; they are never observed
    unit = {n: u for n, u in case.get("unit", [])}
    slo_unit = {n: u for n, u in case.get("slo_unit", [])}
    lab = Labels(kind, rt, live, slo, unit, slo_unit)
    g = new_graph(kind)
    res = []
    old = signal.signal(signal.SIGALRM, _alarm)
    signal.setitimer(signal.ITIMER_REAL, timeout_s)
    try:
        for op in case["ops"]:
            o = op["op"]
            if o == "init":
                mapping = {}
                for n, cs in op["map"]:
                    mapping[lab.get(n)] = [lab.get(c) for c in cs]
                g = new_graph(kind, mapping)
                res.append(None)
            elif o == "update_edges":
                mapping = {}
                for n, cs in op["map"]:
                    mapping[lab.get(n)] = [lab.get(c) for c in cs]
                if kind == "task":
                    g.update_edges(mapping)  # the real public entry point
                else:
                    from workload.graph import Graph

                    Graph.__init__(g, mapping)  # the code path update_edges takes
                res.append(None)
            elif o == "add_node":
                if kind == "task":
                    g.add_task(lab.get(op["n"]), [lab.get(c) for c in op["cs"]])
                elif kind == "job":
                    g.add_job(lab.get(op["n"]), [lab.get(c) for c in op["cs"]])
                else:
                    g.add_node(lab.get(op["n"]), *[lab.get(c) for c in op["cs"]])
                res.append(None)
            elif o == "add_child":
                res.append(_exc(lambda: g.add_child(lab.get(op["n"]), lab.get(op["c"]))))
            elif o == "remove":
                res.append(_exc(lambda: g.remove(lab.get(op["n"]))))
            elif o == "snapshot":
                res.append(snapshot(g, lab))
            elif o == "query":
                res.append(query(g, lab, op))
            elif o == "jobcost":
                res.append(jobcost(g, lab, op))
            else:
                raise ValueError(f"unknown op {o}")
    except CaseTimeout:
        return {"res": res, "timeout": True}
    finally:
        signal.setitimer(signal.ITIMER_REAL, 0)
        signal.signal(signal.SIGALRM, old)
    return {"res": res}


def driver_case(case: dict) -> dict:
    """The same case as sent to the Lean driver (labels are abstract there; the
    only label-dependent input is which start labels are falsy)."""
    lab = Labels(case.get("kind", "int1"))
    ops = []
    for op in case["ops"]:
        if op["op"] == "query":
            op = dict(op)
            if lab.kind in ("int0", "str", "tuple"):
                op["falsy"] = [n for n in op.get("ns", []) if n == 0]
            else:
                op["falsy"] = []
        ops.append(op)
    return {"suite": "graph", "ops": ops}
