"""Solve / enumerate the dumped C++ STRL models (C20).

The model semantics are the ones of GurobiSolver::translateModel: a missing
lower bound is 0, a missing upper bound is +inf, indicators are binary,
integers are integral, inactive constraints are skipped.
"""
from __future__ import annotations

import itertools

import gurobipy as gp

_ENV = None


def env():
    global _ENV
    if _ENV is None:
        _ENV = gp.Env(empty=True)
        _ENV.setParam("OutputFlag", 0)
        _ENV.setParam("Threads", 1)  # deterministic, and the machine is shared
        _ENV.setParam("Seed", 0)
        _ENV.start()
    return _ENV


def _bounds(v, cap):
    lb = 0 if v["lb"] is None else v["lb"]
    ub = v["ub"]
    if v["type"] == "B":
        ub = 1 if ub is None else min(1, ub)
    if ub is None:
        ub = cap
    return lb, ub


def build_gurobi(model: dict, honour_active=True):
    m = gp.Model(env=env())
    xs = []
    for v in model["vars"]:
        lb = 0 if v["lb"] is None else v["lb"]
        ub = gp.GRB.INFINITY if v["ub"] is None else v["ub"]
        vt = {"B": gp.GRB.BINARY, "I": gp.GRB.INTEGER, "C": gp.GRB.CONTINUOUS}[v["type"]]
        xs.append(m.addVar(lb=lb, ub=ub, vtype=vt))
    m.update()
    for c in model["cons"]:
        if honour_active and not c.get("active", True):
            continue
        e = gp.LinExpr()
        for coef, i in c["terms"]:
            if i < 0:
                raise ValueError("constant term on a constraint's left-hand side")
            e.addTerms(coef, xs[i])
        sense = {"LE": gp.GRB.LESS_EQUAL, "EQ": gp.GRB.EQUAL, "GE": gp.GRB.GREATER_EQUAL}[c["op"]]
        m.addLConstr(e, sense, c["rhs"])
    return m, xs


def obj_expr(model, xs):
    e = gp.LinExpr()
    for coef, i in model["obj"]["terms"]:
        if i >= 0:
            e.addTerms(coef, xs[i])
        else:
            e.addConstant(coef)
    return e


def solve_opt(model: dict):
    """Returns (status, objective, assignment) of the model's own objective."""
    m, xs = build_gurobi(model)
    m.setObjective(obj_expr(model, xs), gp.GRB.MAXIMIZE)
    m.optimize()
    if m.Status == gp.GRB.OPTIMAL:
        return "optimal", round(m.ObjVal), [int(round(x.X)) for x in xs]
    if m.Status in (gp.GRB.INFEASIBLE, gp.GRB.INF_OR_UNBD):
        return "infeasible", None, None
    return f"status-{m.Status}", None, None


def solve_random(model: dict, rng, k: int, cap: int):
    """k feasible assignments that maximise random directions (vertices that an
    optimiser of the real objective would never visit). Unbounded variables are
    capped so that the direction problems stay bounded."""
    m, xs = build_gurobi(model)
    for v, x in zip(model["vars"], xs):
        if v["ub"] is None and v["type"] != "B":
            x.UB = cap
    out = []
    for _ in range(k):
        e = gp.LinExpr()
        for x in xs:
            e.addTerms(rng.choice([-2, -1, 0, 1, 1, 2, 3]), x)
        m.setObjective(e, gp.GRB.MAXIMIZE)
        m.optimize()
        if m.Status == gp.GRB.OPTIMAL:
            out.append([int(round(x.X)) for x in xs])
    return out


def holds(model: dict, a: list[int], honour_active=True) -> bool:
    for v, x in zip(model["vars"], a):
        lb = 0 if v["lb"] is None else v["lb"]
        if x < lb:
            return False
        if v["ub"] is not None and x > v["ub"]:
            return False
        if v["type"] == "B" and x > 1:
            return False
    for c in model["cons"]:
        if honour_active and not c.get("active", True):
            continue
        s = sum(coef * a[i] for coef, i in c["terms"])
        if c["op"] == "LE" and not s <= c["rhs"]:
            return False
        if c["op"] == "EQ" and not s == c["rhs"]:
            return False
        if c["op"] == "GE" and not s >= c["rhs"]:
            return False
    return True


def objective(model: dict, a: list[int]):
    return sum(coef * (a[i] if i >= 0 else 1) for coef, i in model["obj"]["terms"])


def enumerate_all(model: dict, cap: int, limit: int = 60000):
    """All feasible integral assignments with unbounded variables capped at `cap`,
    or None when the box is larger than `limit`. Pure Python, no solver."""
    doms = []
    size = 1
    for v in model["vars"]:
        lb, ub = _bounds(v, cap)
        if v["type"] == "C":
            return None
        lb, ub = int(lb), int(ub)
        if ub < lb:
            return []
        doms.append(range(lb, ub + 1))
        size *= ub - lb + 1
        if size > limit:
            return None
    cons = [c for c in model["cons"] if c.get("active", True)]
    # order constraints by the last variable they mention so that partial assignments are pruned early
    by_last = {}
    for c in cons:
        last = max([i for _, i in c["terms"]], default=-1)
        by_last.setdefault(last, []).append(c)
    n = len(doms)
    out = []
    a = [0] * n

    def ok(c):
        s = sum(coef * a[i] for coef, i in c["terms"])
        return s <= c["rhs"] if c["op"] == "LE" else s == c["rhs"] if c["op"] == "EQ" else s >= c["rhs"]

    if not all(ok(c) for c in by_last.get(-1, [])):
        return []

    def go(i):
        if i == n:
            out.append(list(a))
            return
        for x in doms[i]:
            a[i] = x
            if all(ok(c) for c in by_last.get(i, [])):
                go(i + 1)
        a[i] = 0

    go(0)
    return out
