"""C19 generators: neutral workload / worker descriptions, flags, tapes.

Neutral form (what a description *says*; rendered to YAML or JSON by
harness/impl/c19_impl.py, translated for the Lean driver by `to_model`):

  profile : {name|None, loading:[S]|None, exec:[S]|None}
  S       : {res:[[key, qty]]|None, batch:int|None, runtime:int|None}
  graph   : {name|None, nodes:[N]|None, policy:str|None, period, invocations,
             concurrency, start : int|None, rate, coefficient : float|None,
             variance:[a,b]|None}
  N       : {name, profile:str|None, slo:int|None, cond:bool, term:bool,
             prob:int|None (permille), children:[str]|None}
"""
from __future__ import annotations

import sys

from harness import common

TWO53 = 2**53
MAXSIZE = sys.maxsize
RES_NAMES = ["CPU", "GPU", "RAM", "Slot"]
RES_IDS = ["any", "any", "any", "0", "1", "7", "gpu-a"]


def chance(r, p):
    return r.random() < p


def gen_strategy(r: common.Rng, malformed: bool):
    s = {"res": None, "batch": None, "runtime": None}
    if not chance(r, 0.1):
        s["runtime"] = r.choice([0, 1, 10, 100, 150, 1000]) if chance(r, 0.5) else r.randint(0, 5000)
    if not chance(r, 0.3):
        s["batch"] = r.randint(1, 8)
    if not chance(r, 0.1):
        keys = []
        for _ in range(r.randint(0, 3)):
            k = f"{r.choice(RES_NAMES)}:{r.choice(RES_IDS)}"
            if k not in [x[0] for x in keys]:
                keys.append([k, r.randint(0, 16)])
        if malformed and chance(r, 0.5):
            keys.append([r.choice(["CPU", "GPU:1:2", ""]), 1])
        s["res"] = keys
    return s


def gen_profiles(r: common.Rng, bad: str | None):
    ps = []
    for i in range(r.randint(1, 4)):
        p = {"name": f"P{i}", "loading": None, "exec": None}
        if chance(r, 0.2):
            p["loading"] = [gen_strategy(r, False) for _ in range(r.randint(0, 2))]
        if not (bad == "no-exec" and i == 0):
            p["exec"] = [gen_strategy(r, bad == "bad-res-key") for _ in range(r.randint(1, 3))]
        if bad == "empty-exec" and i == 0:
            p["exec"] = []
        ps.append(p)
    # some profiles repeat the strategies of an earlier one (shared menus; in YAML they are written as aliases).
    # The choice comes from a sub-stream keyed by the content, so the main stream is not shifted.
    import copy as _copy
    import json as _json

    r2 = common.Rng(0, "c19-shared-strategies/" + _json.dumps(ps, sort_keys=True))
    for i in range(1, len(ps)):
        if ps[i]["exec"] and r2.random() < 0.35:
            j = r2.randrange(i)
            if ps[j]["exec"]:
                ps[i]["exec"] = _copy.deepcopy(ps[j]["exec"])
    if bad == "profile-no-name":
        ps[r.randrange(len(ps))]["name"] = None
    return ps


def gen_nodes(r: common.Rng, profiles, bad: str | None):
    n = r.randint(1, 6)
    names = [f"n{i}" for i in range(n)]
    if chance(r, 0.3):
        r.shuffle(names)
    pnames = [p["name"] for p in profiles if p["name"] is not None] or ["P0"]
    slo_mode = r.choice(["none", "none", "some", "all", "first"])
    nodes = []
    for i, nm in enumerate(names):
        nd = {"name": nm, "profile": r.choice(pnames), "slo": None, "cond": False, "term": False, "prob": None, "children": None}
        if slo_mode == "all" or (slo_mode == "some" and chance(r, 0.5)) or (slo_mode == "first" and i == 0):
            nd["slo"] = r.choice([0, 1, 100, 500, 900, 2500]) if chance(r, 0.7) else r.randint(0, 10000)
        if chance(r, 0.15):
            nd["cond"] = True
        if chance(r, 0.15):
            nd["term"] = True
        if chance(r, 0.2):
            nd["prob"] = r.choice([0, 250, 500, 750, 1000])
        # forward edges (in list order) keep the graph acyclic
        ch = [names[j] for j in range(i + 1, n) if chance(r, 0.4)]
        if chance(r, 0.3):
            r.shuffle(ch)
        if ch or chance(r, 0.3):
            nd["children"] = ch
        nodes.append(nd)
    if bad == "cycle" and n >= 2:
        nodes[-1]["children"] = (nodes[-1]["children"] or []) + [names[0]]
        nodes[0]["children"] = (nodes[0]["children"] or []) + [names[-1]] if names[-1] not in (nodes[0]["children"] or []) else nodes[0]["children"]
    if bad == "child-missing":
        k = r.randrange(n)
        nodes[k]["children"] = (nodes[k]["children"] or []) + ["ghost"]
    if bad == "profile-unknown":
        nodes[r.randrange(n)]["profile"] = "NoSuchProfile"
    if bad == "node-no-profile":
        nodes[r.randrange(n)]["profile"] = None
    if bad == "dup-edge" and n >= 2:
        nodes[0]["children"] = (nodes[0]["children"] or []) + [names[1], names[1]]
    return nodes


POLICIES = ["fixed"] * 5 + ["poisson"] * 4 + ["gamma"] * 4 + ["closed_loop"] * 5 + ["periodic"] * 4


def gen_graph(r: common.Rng, gi: int, profiles, bad: str | None):
    g = {
        "name": f"G{gi}",
        "nodes": gen_nodes(r, profiles, bad),
        "policy": r.choice(POLICIES),
        "period": None,
        "invocations": None,
        "concurrency": None,
        "start": None,
        "rate": None,
        "coefficient": None,
        "variance": None,
    }
    pol = g["policy"]
    if chance(r, 0.6):
        g["start"] = r.choice([0, 1, 5, 1000]) if chance(r, 0.5) else r.randint(0, 100000)
    if pol in ("fixed", "periodic") or chance(r, 0.1):
        g["period"] = r.choice([0, 1, 10, 1000]) if chance(r, 0.4) else r.randint(1, 20000)
    if pol != "periodic":
        g["invocations"] = r.choice([0, 1, 1, 2, 3, 4, 5, 6])
    if pol in ("poisson", "gamma") or chance(r, 0.05):
        g["rate"] = r.choice([0.001, 0.01, 0.05, 0.5, 2])
    if pol == "gamma" or chance(r, 0.05):
        g["coefficient"] = r.choice([0.5, 1, 2, 4.0])
    if pol == "closed_loop":
        g["concurrency"] = r.randint(1, 4)
        g["invocations"] = r.randint(1, 7)
    if chance(r, 0.6):
        a, b = r.choice([0, 5, 10, 15, 25, 50, 100, 200]), r.choice([0, 5, 10, 15, 25, 50, 100, 200])
        if a > b and not chance(r, 0.15):
            a, b = b, a
        if chance(r, 0.05):
            a = -a
        g["variance"] = [a, b]
    # malformed policy descriptions
    if bad == "policy-unknown":
        g["policy"] = "sporadic"
    elif bad == "policy-missing":
        g["policy"] = None
    elif bad == "graph-missing":
        g["nodes"] = None
    elif bad == "name-missing":
        g["name"] = None
    elif bad == "param-missing":
        for k in {"fixed": ["period", "invocations"], "periodic": ["period"], "poisson": ["rate", "invocations"],
                  "gamma": ["rate", "coefficient", "invocations"], "closed_loop": ["concurrency", "invocations"]}[pol][: r.randint(1, 3)]:
            if chance(r, 0.7):
                g[k] = None
    elif bad == "neg-n" and pol != "periodic":
        g["invocations"] = -r.randint(1, 3)
    elif bad == "neg-period":
        g["period"] = -r.randint(1, 50)
    elif bad == "neg-start":
        g["start"] = -r.randint(1, 100000)
    elif bad == "zero-conc" and pol == "closed_loop":
        if chance(r, 0.5):
            g["concurrency"] = 0
        else:
            g["invocations"] = 0
    elif bad == "empty-graph":
        g["nodes"] = []
    return g


BAD_KINDS = [
    "no-exec", "empty-exec", "bad-res-key", "profile-no-name", "cycle", "child-missing", "profile-unknown",
    "node-no-profile", "dup-edge", "policy-unknown", "policy-missing", "graph-missing", "name-missing",
    "param-missing", "neg-n", "neg-period", "neg-start", "zero-conc", "empty-graph", "ext", "empty-file",
    "no-profiles-key", "no-graphs-key",
]


def gen_flags(r: common.Rng, graphs=()):
    f = {}
    if chance(r, 0.12):
        f["period"] = r.randint(1, 5000)
    if chance(r, 0.12):
        f["n"] = r.randint(1, 5)
    if chance(r, 0.1):
        f["rate"] = r.choice([0.02, 0.1])
    if chance(r, 0.1):
        f["coef"] = r.choice([1.0, 3.0])
    if chance(r, 0.12):
        f["slo"] = r.randint(1, 5000)
    if chance(r, 0.3):
        f["unique"] = True
    if chance(r, 0.3):
        f["repl"] = r.randint(2, 3)
    if chance(r, 0.2):
        f["min_deadline"] = r.randint(1, 600)
    if chance(r, 0.2):
        f["max_deadline"] = r.randint(0, 600)
    f["seed"] = r.randint(0, 1000)
    # --loop_timeout is the horizon of the periodic policy: keep every periodic
    # graph of the description at <= ~12 releases (np.arange lengths stay small)
    hs = []
    for g in graphs:
        if g.get("policy") == "periodic":
            per = f.get("period") or g.get("period")
            if isinstance(per, int) and per > 0:
                hs.append((g.get("start") or 0) + r.randint(0, 12) * per + r.randint(-1, 1))
            else:
                hs.append((g.get("start") or 0) + r.randint(-5, 50))
    if hs:
        f["loop_timeout"] = min(hs)
        # any periodic graph that would still release too often (other start, negative
        # period walking down to the horizon) is moved to k periods before the horizon
        for g in graphs:
            if g.get("policy") == "periodic":
                per = f.get("period") or g.get("period")
                if isinstance(per, int) and per != 0 and len(range(g.get("start") or 0, f["loop_timeout"], per)) > 13:
                    g["start"] = f["loop_timeout"] - per * r.randint(0, 12)
    elif chance(r, 0.2):
        f["loop_timeout"] = r.randint(0, 10**6)
    return f


def gen_batches(r: common.Rng, desc, flags, np_seed: int):
    """One batch per numpy call the loader will make (poisson / gamma graphs,
    per replica), drawn from the distribution the description asks for; half
    of the gamma batches are rounded to quarters so that the float
    accumulation is exact and round-half-even ties occur."""
    import numpy as np

    g = np.random.default_rng(np_seed)
    out = []
    repl = max(1, flags.get("repl", 1))
    for gd in desc.get("graphs") or []:
        pol = gd.get("policy")
        n = flags.get("n") or gd.get("invocations")
        if pol not in ("poisson", "gamma") or not isinstance(n, int) or n <= 0:
            continue
        rate = flags.get("rate") or gd.get("rate") or 0.01
        coef = flags.get("coef") or gd.get("coefficient") or 1.0
        for _ in range(repl):
            if pol == "poisson":
                out.append([int(x) for x in g.poisson(1 / rate, n - 1)])
            else:
                vals = g.gamma(1 / coef, coef / rate, size=n - 1)
                if chance(r, 0.5):
                    vals = np.round(vals * 4) / 4
                out.append([float(x) for x in vals])
    return out


def gen_fuzz_tape(r: common.Rng, k: int):
    tape = []
    for _ in range(k):
        c = r.random()
        if c < 0.05:
            tape.append(0)
        elif c < 0.1:
            tape.append(TWO53 - 1)
        elif c < 0.15:
            tape.append(TWO53 // 2)
        else:
            tape.append(r.getrandbits(53))
    return tape


def gen_workload_case(r: common.Rng, idx: int, bad_rate: float = 0.3):
    bad = r.choice(BAD_KINDS) if chance(r, bad_rate) else None
    profiles = gen_profiles(r, bad)
    graphs = [gen_graph(r, gi, profiles, bad if gi == 0 or chance(r, 0.3) else None) for gi in range(r.randint(1, 3))]
    desc = {"profiles": profiles, "graphs": graphs}
    if bad == "empty-file":
        desc = {"profiles": None, "graphs": None}
    elif bad == "no-profiles-key":
        desc["profiles"] = None
    elif bad == "no-graphs-key":
        desc["graphs"] = None
    flags = gen_flags(r, graphs)
    ext = r.choice(["json", "json", "json", "yaml", "yaml", "yaml", "yml", "JSON", "YAML"])
    if bad == "ext":
        ext = r.choice(["txt", "toml"])
    case = {
        "kind": "workload",
        "idx": idx,
        "bad": bad,
        "desc": desc,
        "flags": flags,
        "ext": ext,
        "fuzz": gen_fuzz_tape(r, 340),
        "batches": gen_batches(r, desc, flags, r.getrandbits(32)),
        "history_plan": [[r.randrange(64), r.randrange(64), r.randint(0, 200000)] for _ in range(r.randint(0, 30))],
    }
    return case


def gen_workers_case(r: common.Rng, idx: int):
    bad = r.choice(["colons", "no-qty", "no-name", "no-workers", "no-resources", "empty", "ext", "dup"]) if chance(r, 0.25) else None
    pools = []
    wi = 0
    for pi in range(r.randint(1, 3)):
        ws = []
        for _ in range(r.randint(0 if chance(r, 0.1) else 1, 4)):
            rs = []
            seen = set()
            for _ in range(r.randint(0, 5)):
                c = r.random()
                if c < 0.4:
                    nm = r.choice(RES_NAMES)
                else:
                    nm = f"{r.choice(RES_NAMES)}:{r.choice(RES_IDS)}"
                    if nm in seen and bad != "dup":
                        continue
                    seen.add(nm)
                rs.append({"name": nm, "quantity": r.randint(0, 64)})
            ws.append({"name": f"w{wi}", "resources": rs})
            wi += 1
        pools.append({"name": f"WP{pi}", "workers": ws})
    flat = [(p, w) for p in pools for w in p["workers"]]
    if bad == "colons" and flat:
        _, w = r.choice(flat)
        w["resources"].insert(r.randint(0, len(w["resources"])), {"name": "GPU:1:2", "quantity": 1})
    elif bad == "no-qty" and flat:
        _, w = r.choice(flat)
        w["resources"].append({"name": "CPU:any", "quantity": None})
    elif bad == "no-name" and flat:
        c = r.random()
        p, w = r.choice(flat)
        if c < 0.34:
            w["name"] = None
        elif c < 0.67:
            p["name"] = None
        else:
            w["resources"].append({"name": None, "quantity": 1})
    elif bad == "no-workers":
        r.choice(pools)["workers"] = None
    elif bad == "no-resources" and flat:
        r.choice(flat)[1]["resources"] = None
    elif bad == "empty":
        pools = []
    elif bad == "dup" and flat:
        _, w = r.choice(flat)
        w["resources"] += [{"name": "GPU:any", "quantity": 2}, {"name": "GPU:3", "quantity": 1}, {"name": "GPU:any", "quantity": 5}]
    ext = r.choice(["json", "yaml", "yml", "json", "yaml"])
    if bad == "ext":
        ext = "cfg"
    return {"kind": "workers", "idx": idx, "bad": bad, "pools": pools, "ext": ext}


def gen_policy_case(r: common.Rng, idx: int):
    kind = r.choice(["fixed", "fixed", "periodic", "periodic", "periodic", "poisson", "gamma", "closed_loop"])
    p = {"kind": kind, "start": r.choice([0, 5, 1000, r.randint(-1000, 10**6)])}
    case = {"kind": "policy", "idx": idx, "policy": p, "horizon": None, "batches": []}
    if kind in ("fixed", "periodic"):
        p["period"] = r.choice([1, 7, 10, 1000, r.randint(1, 10**5), -r.randint(1, 50), 0])
    if kind == "periodic":
        per = p["period"]
        span = r.randint(-3, 60) * abs(per or 1) + r.randint(-2, 2)
        case["horizon"] = p["start"] + (span if per >= 0 else -span)
        if chance(r, 0.05):
            case["horizon"] = None
    else:
        p["n"] = r.choice([0, 1, 2, 3, 5, 8, 13, r.randint(0, 40)]) if not chance(r, 0.04) else -r.randint(1, 3)
        case["horizon"] = r.choice([None, 10**6])
    if kind == "closed_loop":
        p["conc"] = r.choice([1, 2, 3, 5, r.randint(1, 50)]) if not chance(r, 0.05) else r.choice([0, -1])
        if chance(r, 0.03):
            p["n"] = 0
    if kind in ("poisson", "gamma"):
        import numpy as np

        g = np.random.default_rng(r.getrandbits(32))
        p["rate"] = r.choice([0.001, 0.01, 0.1, 1.0, 3])
        n = max(0, p["n"] - 1)
        if kind == "poisson":
            case["batches"] = [[int(x) for x in g.poisson(1 / p["rate"], n)]]
        else:
            p["coefficient"] = r.choice([0.5, 1, 2.0, 4])
            vals = g.gamma(1 / p["coefficient"], p["coefficient"] / p["rate"], size=n)
            mode = r.random()
            if mode < 0.4:
                vals = np.round(vals * 4) / 4
            elif mode < 0.6:
                vals = np.round(vals) + 0.5
            case["batches"] = [[float(x) for x in vals]]
    return case


def gen_fuzz_case(r: common.Rng, idx: int):
    T = r.choice([0, 1, 7, 100, 150, 1000, 12345, r.randint(0, 10**7)])
    a = r.choice([0, 5, 10, 15, 25, 50, 100, 200, r.randint(0, 300)])
    b = r.choice([0, 5, 10, 15, 25, 50, 100, 200, r.randint(0, 300)])
    if chance(r, 0.1):
        a = -a
    if chance(r, 0.1):
        b = -b
    minb = 0 if chance(r, 0.6) else r.randint(0, 2 * T + 5)
    maxb = MAXSIZE if chance(r, 0.6) else r.randint(0, 2 * T + 5)
    rn = gen_fuzz_tape(r, 1)[0]
    return {"kind": "fuzz", "idx": idx, "T": T, "a": a, "b": b, "minb": minb, "maxb": maxb, "rn": rn}


# ---------------------------------------------------------------------------
# neutral -> driver input
# ---------------------------------------------------------------------------


def dyadic(vals):
    """Exact common-denominator form of a list of floats."""
    from fractions import Fraction

    fr = [Fraction(v) for v in vals]
    den = 1
    for f in fr:
        den = max(den, f.denominator)
    return {"den": den, "nums": [int(f * den) for f in fr]}


def model_desc(desc):
    def S(s):
        return {"res": None if s["res"] is None else [{"key": k, "qty": q} for k, q in s["res"]], "batch": s["batch"], "runtime": s["runtime"]}

    out = {"profiles": None, "graphs": None}
    if desc.get("profiles") is not None:
        out["profiles"] = [
            {
                "name": p["name"],
                "loading": None if p["loading"] is None else [S(s) for s in p["loading"]],
                "exec": None if p["exec"] is None else [S(s) for s in p["exec"]],
            }
            for p in desc["profiles"]
        ]
    if desc.get("graphs") is not None:
        out["graphs"] = [
            {
                "name": g["name"],
                "nodes": g["nodes"],
                "policy": g["policy"],
                "period": g["period"],
                "invocations": g["invocations"],
                "concurrency": g["concurrency"],
                "start": g["start"],
                "rate": g["rate"] is not None,
                "coefficient": g["coefficient"] is not None,
                "variance": g["variance"],
            }
            for g in desc["graphs"]
        ]
    return out


def model_flags(fl):
    eps = sys.float_info.epsilon
    return {
        "period": fl.get("period", 0),
        "n": fl.get("n", 0),
        "rate": fl.get("rate", 0.0) > eps,
        "coef": fl.get("coef", 0.0) > eps,
        "slo": fl.get("slo", -1),
        "unique": bool(fl.get("unique", False)),
        "repl": fl.get("repl", 1),
        "min_deadline": fl.get("min_deadline", 0),
        "max_deadline": fl.get("max_deadline", MAXSIZE),
        "loop_timeout": fl.get("loop_timeout", MAXSIZE),
    }
