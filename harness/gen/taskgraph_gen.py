"""Generators for the task-graph suite (C06, C07, C18): graph specs from an
inductive grammar (series / parallel / conditional with terminal join), random
DAGs, and *online* valid-biased call histories (the next call is chosen by
looking at the real objects' current states, so most calls are legal)."""
from __future__ import annotations

PROB_SETS = {2: [[500, 500], [300, 700], [250, 750], [1000, 0], [0, 1000]], 3: [[200, 300, 500], [250, 250, 500], [0, 0, 1000]]}


class Builder:
    def __init__(self, rng, name):
        self.rng = rng
        self.name = name
        self.nodes = {}
        self.edges = {}
        self.n = 0
        self.sid = 0

    def task(self, conditional=False, terminal=False, prob=1000):
        lab = self.n
        self.n += 1
        strategies = []
        for _ in range(self.rng.choice([1, 1, 2])):
            strategies.append(
                {"sid": self.sid, "batch": False, "bs": 1, "rt": self.rng.choice([1, 2, 3, 5]), "req": [["GPU", None, self.rng.choice([1, 1, 2])]]}
            )
            self.sid += 1
        self.nodes[lab] = {
            "name": f"T{lab}",
            "conditional": conditional,
            "terminal": terminal,
            "prob": prob,
            "strategies": strategies,
            "release": -1,
            "deadline": self.rng.choice([20, 50, 100]),
        }
        self.edges[lab] = []
        return lab

    def edge(self, a, b):
        if b not in self.edges[a]:
            self.edges[a].append(b)

    def term(self, depth):
        """returns (entries, exits)"""
        r = self.rng.random()
        if depth <= 0 or r < 0.3:
            t = self.task()
            return [t], [t]
        if r < 0.55:
            e1, x1 = self.term(depth - 1)
            e2, x2 = self.term(depth - 1)
            for a in x1:
                for b in e2:
                    self.edge(a, b)
            return e1, x2
        if r < 0.75:
            parts = [self.term(depth - 1) for _ in range(self.rng.choice([2, 2, 3]))]
            return [e for p in parts for e in p[0]], [x for p in parts for x in p[1]]
        # conditional with k branches and a terminal join
        k = self.rng.choice([2, 2, 3])
        probs = self.rng.choice(PROB_SETS[k])
        c = self.task(conditional=True)
        join = None
        exits_all = []
        for i in range(k):
            head = self.task(prob=probs[i])
            self.edge(c, head)
            exits = [head]
            if self.rng.random() < 0.6:
                e2, x2 = self.term(depth - 1)
                for b in e2:
                    self.edge(head, b)
                exits = x2
            exits_all.append(exits)
        join = self.task(terminal=True)
        for exits in exits_all:
            for x in exits:
                self.edge(x, join)
        return [c], [join]

    def finish(self):
        parents = {l: 0 for l in self.nodes}
        for a, cs in self.edges.items():
            for c in cs:
                parents[c] += 1
        for l, nd in self.nodes.items():
            if parents[l] == 0:
                nd["release"] = self.rng.choice([0, 0, 3, 10])
        order = list(self.nodes)
        if self.rng.random() < 0.5:
            self.rng.shuffle(order)
        mapping = []
        for a in order:
            cs = list(self.edges[a])
            if self.rng.random() < 0.3:
                self.rng.shuffle(cs)
            mapping.append([a, cs])
        # multi-timestamp pipelines (what the trace loaders build): some tasks whose only parent is X@t become
        # X@t+1 (same name, next timestamp) - `is_source_task` / `is_sink_task` have a special clause for them.
        # The choice comes from a sub-stream keyed by the graph, the main stream is not shifted.
        import json as _json

        from harness import common as _common

        r2 = _common.Rng(0, "taskgraph-stamps/" + _json.dumps([sorted(self.edges.items()), self.name], sort_keys=True, default=str))
        if getattr(self, "stamps", False) and r2.random() < 0.25:
            only_parent = {}
            for a, cs in self.edges.items():
                for c in cs:
                    only_parent.setdefault(c, []).append(a)
            for b in sorted(self.nodes):
                ps = only_parent.get(b, [])
                if len(ps) == 1 and r2.random() < 0.6 and not self.nodes[b]["terminal"] and not self.nodes[ps[0]]["conditional"]:
                    self.nodes[b]["name"] = self.nodes[ps[0]]["name"]
                    self.nodes[b]["ts"] = self.nodes[ps[0]].get("ts", 0) + 1
        return {"name": self.name, "nodes": {l: nd for l, nd in self.nodes.items()}, "mapping": mapping}


def gen_grammar_graph(rng, name="G@0"):
    b = Builder(rng, name)
    b.stamps = True   # TaskGraphs built directly from Task objects may hold several timestamps
    b.term(rng.choice([1, 2, 2, 3]))
    return b.finish()


def gen_random_dag(rng, name="G@0"):
    b = Builder(rng, name)
    b.stamps = True
    n = rng.randint(1, 7)
    labs = [b.task() for _ in range(n)]
    for i in range(n):
        for j in range(i + 1, n):
            if rng.random() < 0.35:
                b.edge(labs[i], labs[j])
    # sprinkle terminal / conditional flags (malformed w.r.t. the grammar on purpose)
    for l in labs:
        if rng.random() < 0.1 and b.edges[l]:
            b.nodes[l]["conditional"] = True
            kids = b.edges[l]
            ps = rng.choice(PROB_SETS.get(len(kids), [[1000] + [0] * (len(kids) - 1)]))
            for k, p in zip(kids, ps):
                b.nodes[k]["prob"] = p
        if rng.random() < 0.1:
            b.nodes[l]["terminal"] = True
    return b.finish()


def fork_in_branch_graph(name="G@0"):
    """Conditional whose untaken branch forks internally (B1 -> {X, Y} -> J)."""
    st = lambda sid: [{"sid": sid, "batch": False, "bs": 1, "rt": 2, "req": [["GPU", None, 1]]}]
    nodes = {
        0: dict(name="C", conditional=True, terminal=False, prob=1000, strategies=st(0), release=0, deadline=100),
        1: dict(name="B1", conditional=False, terminal=False, prob=500, strategies=st(1), release=-1, deadline=100),
        2: dict(name="B2", conditional=False, terminal=False, prob=500, strategies=st(2), release=-1, deadline=100),
        3: dict(name="X", conditional=False, terminal=False, prob=1000, strategies=st(3), release=-1, deadline=100),
        4: dict(name="Y", conditional=False, terminal=False, prob=1000, strategies=st(4), release=-1, deadline=100),
        5: dict(name="J", conditional=False, terminal=True, prob=1000, strategies=st(5), release=-1, deadline=100),
    }
    mapping = [[0, [1, 2]], [1, [3, 4]], [2, [5]], [3, [5]], [4, [5]], [5, []]]
    return {"name": name, "nodes": nodes, "mapping": mapping}


def diamond_graph(name="G@0"):
    """A -> [B, C], C -> [B]: depth_first from A yields B twice."""
    st = lambda sid: [{"sid": sid, "batch": False, "bs": 1, "rt": 2, "req": [["GPU", None, 1]]}]
    nodes = {
        0: dict(name="A", conditional=False, terminal=False, prob=1000, strategies=st(0), release=0, deadline=100),
        1: dict(name="B", conditional=False, terminal=False, prob=1000, strategies=st(1), release=-1, deadline=100),
        2: dict(name="C", conditional=False, terminal=False, prob=1000, strategies=st(2), release=-1, deadline=100),
        3: dict(name="D", conditional=False, terminal=False, prob=1000, strategies=st(3), release=-1, deadline=100),
    }
    mapping = [[0, [1, 2]], [2, [1]], [1, [3]], [3, []]]
    return {"name": name, "nodes": nodes, "mapping": mapping}


POLICIES = ["RANDOM", "WORST_CASE", "BEST_CASE", "MAXIMUM", "ALL"]


def next_op(rng, world, now):
    """Choose the next call by looking at the real states (online generation).
    Returns an op using generator labels for "n"."""
    labs = list(world.tasks)
    st = {l: world.tasks[l]._state.name for l in labs}
    r = rng.random()

    def pick(states):
        c = [l for l in labs if st[l] in states]
        return rng.choice(c) if c and rng.random() < 0.85 else rng.choice(labs)

    if r < 0.12:
        l = pick(["VIRTUAL"])
        return {"op": "release", "n": l, "time": None if rng.random() < 0.2 else now + rng.choice([0, 0, 1, 5])}
    if r < 0.28:
        l = pick(["RELEASED", "RELEASED", "VIRTUAL", "SCHEDULED"])
        nd = world.spec["nodes"][l]
        s = rng.choice(nd["strategies"]) if rng.random() < 0.97 else None
        return {"op": "schedule", "n": l, "time": now, "ptime": now + rng.choice([0, 0, 1, 4]), "pool": rng.choice([0, 1]), "s": s}
    if r < 0.32:
        return {"op": "unschedule", "n": pick(["SCHEDULED"])}
    if r < 0.46:
        return {"op": "start", "n": pick(["SCHEDULED"]), "time": now, "variance": rng.choice([0, 0, 0, 50])}
    if r < 0.58:
        return {"op": "step", "n": pick(["RUNNING"]), "now": now, "dt": rng.choice([1, 1, 2, 5])}
    if r < 0.66:
        l = pick(["RUNNING"])
        return {"op": "finish", "n": l, "time": None if rng.random() < 0.5 else now}
    if r < 0.76:
        return {"op": "notify", "n": pick(["COMPLETED", "COMPLETED", "EVICTED"]), "time": now}
    if r < 0.82:
        return {"op": "cancel", "n": pick(["VIRTUAL", "RELEASED", "SCHEDULED"]), "time": now}
    if r < 0.84:
        return {"op": "task_cancel", "n": pick(["VIRTUAL", "RELEASED", "SCHEDULED"]), "time": now}
    if r < 0.85:
        return {"op": "preempt", "n": pick(["RUNNING"])}
    if r < 0.93:
        return {
            "op": "schedulable",
            "time": now,
            "lookahead": rng.choice([0, 0, 2, 10, 100]),
            "retract": rng.random() < 0.3,
            "policy": rng.choice(POLICIES),
            "rtg": rng.random() < 0.3,
        }
    if r < 0.95:
        return {"op": "releasable"}
    if r < 0.96:
        return {"op": "ready", "n": rng.choice(labs)}
    if r < 0.97:
        return {"op": "remaining", "n": rng.choice(labs)}
    if r < 0.98:
        c = [l for l in labs if world.spec["nodes"][l]["conditional"]]
        return {"op": "resolve", "n": rng.choice(c) if c else rng.choice(labs), "policy": rng.choice(POLICIES)}
    if r < 0.99:
        return {"op": "dfs", "n": rng.choice(labs)}
    return {"op": "graph_status"}
