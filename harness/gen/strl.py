"""Generators of small STRL trees for C20 (same JSON shape as the Lean driver request)."""
from __future__ import annotations

import itertools

from harness import common


class Gen:
    def __init__(self, rng: common.Rng, profile: dict | None = None):
        self.r = rng
        self.p = {"aligned": True, "malformed": False, "dup_task_names": False, "zero_util": False, "max_depth": 3}
        self.p.update(profile or {})
        self.k = itertools.count()
        self.tk = itertools.count()

    def nm(self, prefix):
        return f"{prefix}{next(self.k)}"

    def time(self):
        g = self.gran
        if self.p["aligned"]:
            return g * self.r.randint(0, max(1, 6 // g))
        return self.r.randint(0, 6)

    def choose(self, task=None, start=None):
        r = self.r
        pids = [p["id"] for p in self.parts]
        k = r.randint(1, len(pids))
        parts = r.sample(pids, k)
        if r.random() < 0.08 and self.extra_pid is not None:
            parts.append(self.extra_pid)  # a partition that is not available
        u = r.randint(1, 5)
        if self.p["zero_util"] and r.random() < 0.3:
            u = 0
        return {"t": "choose", "name": task or f"T{next(self.tk)}", "parts": parts, "n": r.randint(1, 3),
                "start": self.time() if start is None else start, "dur": r.choice([1, 1, 2, 2, 3, 4]), "u": u}

    def alloc(self):
        r = self.r
        p = r.choice(self.parts)
        q = r.randint(0, max(1, p["qty"]))
        allocs = [[p["id"], q]]
        if len(self.parts) > 1 and r.random() < 0.3:
            p2 = r.choice([x for x in self.parts if x["id"] != p["id"]])
            allocs.append([p2["id"], r.randint(0, max(1, p2["qty"]))])
        return {"t": "alloc", "name": self.nm("A"), "allocs": allocs, "start": self.time(), "dur": r.choice([1, 2, 3])}

    def maxnode(self):
        r = self.r
        task = f"T{next(self.tk)}"
        n = r.randint(1, 3)
        g = self.gran
        pool = [g * i for i in range(0, max(1, 6 // g) + 1)] if self.p["aligned"] else list(range(0, 7))
        starts = r.sample(pool, min(n, len(pool)))
        dur = r.choice([1, 2, 3])
        nreq = r.randint(1, 3)
        ch = []
        for s in sorted(starts):
            c = self.choose(task, s)
            if r.random() < 0.7:
                c["dur"], c["n"] = dur, nreq
            ch.append(c)
        return {"t": "max", "name": self.nm("M"), "ch": ch}

    def node(self, depth):
        r = self.r
        kinds = ["choose", "choose", "max", "max", "alloc"]
        if depth < self.p["max_depth"]:
            kinds += ["min", "min", "lt", "lt", "scale"]
        k = r.choice(kinds)
        if k == "choose":
            return self.choose()
        if k == "alloc":
            return self.alloc()
        if k == "max":
            return self.maxnode()
        if k == "min":
            return {"t": "min", "name": self.nm("N"), "ch": [self.node(depth + 1) for _ in range(r.randint(1, 3))]}
        if k == "lt":
            return {"t": "lt", "name": self.nm("L"), "ch": [self.node(depth + 1), self.node(depth + 1)]}
        f = r.choice([1, 2, 2, 3])
        return {"t": "scale", "name": self.nm("S"), "f": f, "disregard": r.random() < 0.4, "ch": [self.node(depth + 1)]}

    def case(self) -> dict:
        r = self.r
        self.k = itertools.count()
        self.tk = itertools.count()
        np_ = r.choice([1, 2, 2, 3])
        self.parts = [{"id": i, "name": f"P{i}", "qty": r.choice([1, 1, 2, 2, 3])} for i in range(np_)]
        self.extra_pid = None
        all_parts = list(self.parts)
        avail = [p["id"] for p in self.parts]
        if r.random() < 0.15:
            self.extra_pid = np_
            all_parts.append({"id": np_, "name": f"P{np_}", "qty": r.choice([1, 2])})
        self.gran = r.choice([1, 1, 1, 2, 2, 3])
        now = r.choice([0, 0, 0, 1, 2])
        tree = {"t": "obj", "name": "O", "ch": [self.node(1) for _ in range(r.randint(1, 3))]}
        case = {"suite": "strl", "parts": all_parts, "avail": avail, "now": now, "gran": self.gran, "tree": tree}
        if self.p["dup_task_names"]:
            leaves = [n for n in walk(tree) if n["t"] == "choose"]
            if len(leaves) >= 2:
                a, b = r.sample(leaves, 2)
                b["name"] = a["name"]
        if self.p["malformed"]:
            self.break_(case)
        return case

    def break_(self, case):
        r = self.r
        tree = case["tree"]
        nodes = list(walk(tree))
        kind = r.choice(["max_nonleaf", "min_empty", "max_empty", "max_past", "dup_parts", "root", "gran0"])
        if kind == "max_nonleaf":
            tree["ch"].append({"t": "max", "name": "MX", "ch": [self.alloc()]})
        elif kind == "min_empty":
            tree["ch"].append({"t": "min", "name": "NX", "ch": []})
        elif kind == "max_empty":
            tree["ch"].append({"t": "max", "name": "MX", "ch": []})
        elif kind == "max_past":
            case["now"] = 3
            tree["ch"].append({"t": "max", "name": "MX", "ch": [self.choose("TX", 1), self.choose("TX", 2)]})
        elif kind == "dup_parts":
            c = self.choose()
            c["parts"] = c["parts"] + [c["parts"][0]]
            tree["ch"].append(c)
        elif kind == "root":
            case["tree"] = r.choice([n for n in nodes if n["t"] != "obj"])
        elif kind == "gran0":
            pass  # granularity 0 loops forever in registerUsageForDuration: never generated


def lt_family(r: common.Rng) -> dict:
    """LessThan over Max nodes whose Choose options have MIXED durations and several start
    options, the other side tightening the bound (the shape on which the critical-path pass
    derives earliest-end / latest-start bounds of a Max from its merged time bounds).
    Utilities favour the short options next to the bound, i.e. the ones a wrong bound purges."""
    k = itertools.count()

    def mx(task, starts, durs, utils, parts, n):
        return {"t": "max", "name": f"M{next(k)}", "ch": [
            {"t": "choose", "name": task, "parts": parts, "n": n, "start": s, "dur": d, "u": u}
            for s, d, u in zip(starts, durs, utils)]}

    np_ = r.choice([1, 1, 2])
    parts = [{"id": i, "name": f"P{i}", "qty": r.choice([1, 1, 2])} for i in range(np_)]
    pids = [p["id"] for p in parts]

    def side(task, lo, hi, kmin, kmax, prefer):
        kk = r.randint(kmin, kmax)
        starts = sorted(r.sample(range(lo, hi + 1), min(kk, hi - lo + 1)))
        durs = [r.choice([1, 1, 2, 3, 4]) for _ in starts]
        if len(set(durs)) == 1 and len(durs) > 1:
            durs[r.randrange(len(durs))] = durs[0] % 4 + 1  # force mixed durations
        utils = [r.randint(1, 3) for _ in starts]
        # the best option is a short one: early-and-short on the right, late-and-short on the left
        order = sorted(range(len(starts)), key=lambda i: (durs[i], starts[i] if prefer == "early" else -starts[i]))
        utils[order[0]] = r.randint(4, 6)
        return mx(task, starts, durs, utils, r.sample(pids, r.randint(1, len(pids))), 1)

    a = side("TA", 0, 4, 1, 3, "late")
    b = side("TB", 1, 7, 2, 4, "early")
    lt = {"t": "lt", "name": "L", "ch": [a, b]}
    shape = r.choice(["plain", "plain", "min", "chain", "scale", "sibling"])
    ch = [lt]
    if shape == "min":
        ch = [{"t": "min", "name": "N", "ch": [lt]}]
    elif shape == "scale":
        ch = [{"t": "scale", "name": "S", "f": 2, "disregard": False, "ch": [lt]}]
    elif shape == "chain":
        c = side("TC", 3, 9, 2, 3, "early")
        ch = [{"t": "lt", "name": "L2", "ch": [lt, c]}]
    elif shape == "sibling":
        ch = [lt, {"t": "choose", "name": "TS", "parts": [pids[0]], "n": 1, "start": r.randint(0, 5), "dur": r.choice([1, 2]), "u": r.randint(1, 3)}]
    return {"suite": "strl", "parts": parts, "avail": pids, "now": 0, "gran": 1, "tree": {"t": "obj", "name": "O", "ch": ch}}


def lt_min_family(r: common.Rng) -> dict:
    """LessThan whose sides are Min nodes (or a Min and a Max) over Max options of DIFFERENT durations: the
    critical-path pass pushes the merged bounds of an inner node down to each child, so a merged duration that is
    not the shortest child's prunes valid early / late options of the shorter children."""
    k = itertools.count()
    np_ = r.choice([1, 2, 2])
    parts = [{"id": i, "name": f"P{i}", "qty": r.choice([1, 2, 2])} for i in range(np_)]
    pids = [p["id"] for p in parts]

    def mx(task, lo, hi, dur, prefer):
        kk = r.randint(2, 4)
        starts = sorted(r.sample(range(lo, hi + 1), min(kk, hi - lo + 1)))
        utils = [r.randint(1, 3) for _ in starts]
        best = 0 if prefer == "early" else len(starts) - 1
        utils[best] = r.randint(4, 6)
        return {"t": "max", "name": f"M{next(k)}", "ch": [
            {"t": "choose", "name": task, "parts": r.sample(pids, r.randint(1, len(pids))), "n": 1, "start": s_, "dur": dur, "u": u_}
            for s_, u_ in zip(starts, utils)]}

    def minside(tag, lo, hi, prefer):
        durs = r.sample([1, 2, 3, 4], r.randint(2, 3))     # different durations among the children of the Min
        return {"t": "min", "name": f"N{next(k)}", "ch": [mx(f"T{tag}{i}", lo, hi, d, prefer) for i, d in enumerate(durs)]}

    left = minside("A", 0, 4, "late") if r.random() < 0.8 else mx("TA", 0, 4, r.choice([1, 2, 3]), "late")
    right = minside("B", 2, 8, "early") if r.random() < 0.5 else mx("TB", 2, 8, r.choice([1, 2]), "early")
    lt = {"t": "lt", "name": "L", "ch": [left, right]}
    ch = [lt]
    if r.random() < 0.3:
        ch.append({"t": "alloc", "name": "A0", "allocs": [[pids[0], 1]], "start": 0, "dur": r.choice([2, 3, 4])})   # something already running
    return {"suite": "strl", "parts": parts, "avail": pids, "now": 0, "gran": 1, "tree": {"t": "obj", "name": "O", "ch": ch}}


def purge_family(r: common.Rng) -> dict:
    """Contention at one slot between a Max whose Choose options ask for DIFFERENT numbers of machines (several
    strategies of one task, in random order) and competitors on the same partition, with utilities that reward
    the largest option: the shape on which the capacity-constraint purge pass decides from the recorded usage of
    an expression whether a capacity row can be dropped."""
    k = itertools.count()
    np_ = r.choice([1, 1, 2])
    parts = [{"id": i, "name": f"P{i}", "qty": r.choice([2, 2, 3, 3, 4])} for i in range(np_)]
    pids = [p["id"] for p in parts]
    main = parts[0]
    t0 = r.randint(0, 3)

    def options(task, lo, hi):
        counts = r.sample(range(lo, hi + 1), min(r.randint(2, 3), hi - lo + 1))
        r.shuffle(counts)  # the order of the children matters to the bookkeeping of the pass
        dur = r.choice([1, 2, 3])
        ch = []
        for n in counts:
            st = t0 + (r.choice([0, 0, 0, 1]) if dur > 1 else 0)
            ch.append({"t": "choose", "name": task, "parts": [main["id"]] if r.random() < 0.8 else list(pids), "n": n,
                       "start": st, "dur": dur if r.random() < 0.8 else r.choice([1, 2, 3]), "u": n * r.randint(1, 2) + r.randint(0, 1)})
        return {"t": "max", "name": f"M{next(k)}", "ch": ch}

    ch = [options("TA", 1, main["qty"])]
    for j in range(r.randint(1, 2)):
        if r.random() < 0.5:
            ch.append(options(f"TB{j}", 1, main["qty"]))
        else:
            ch.append({"t": "choose", "name": f"TC{j}", "parts": [main["id"]], "n": r.randint(1, main["qty"]), "start": t0 + r.choice([0, 0, 1]),
                       "dur": r.choice([1, 2]), "u": r.randint(1, 4)})
    r.shuffle(ch)
    shape = r.choice(["plain", "plain", "min", "scale"])
    if shape == "min" and len(ch) >= 2:
        ch = [{"t": "min", "name": "N", "ch": ch[:2]}] + ch[2:]
    elif shape == "scale":
        ch = [{"t": "scale", "name": "S", "f": 2, "disregard": False, "ch": [ch[0]]}] + ch[1:]
    return {"suite": "strl", "parts": parts, "avail": pids, "now": 0, "gran": 1, "tree": {"t": "obj", "name": "O", "ch": ch}}


def window_family(r: common.Rng, quirks: bool = True) -> dict:
    """Trees over WindowedChoose / MalleableChoose leaves (plus the plain kinds): alone, under Min / LessThan / Scale,
    as the options of a Max (several strategies of one task), next to Allocations and plain Chooses competing for the
    same partitions.  Most windows are `clean` (window ends on the node's grid, opens no earlier than `now`, node
    granularity = granularity of the capacity map: how schedulers/tetrisched_scheduler.py builds them); with `quirks`
    a share of the nodes has an off-grid window, a window that opened in the past, or a granularity of its own."""
    k = itertools.count()
    tk = itertools.count()
    g = r.choice([1, 1, 1, 2, 2, 3])
    np_ = r.choice([1, 2, 2])
    parts = [{"id": i, "name": f"P{i}", "qty": r.choice([1, 1, 2, 2, 3])} for i in range(np_)]
    pids = [p["id"] for p in parts]
    now = r.choice([0, 0, 0, 1, 2])
    quirky = quirks and r.random() < 0.35        # the tree as a whole is clean or quirky: a clean tree has no excuse
    with_malleable = r.random() < 0.3

    def some_parts():
        return r.sample(pids, r.randint(1, len(pids)))

    def wchoose(task=None):
        clean = not quirky or r.random() < 0.4
        gw = g if clean else r.choice([1, 2, 3])
        if clean:
            lo = gw * r.randint(0, 4 // gw)
            while lo < now:
                lo += gw
            hi = lo + gw * r.randint(0, 3 if gw == 1 else 2)
        else:
            lo = r.randint(0, 4)
            hi = lo + r.randint(0, 4)
        return {"t": "wchoose", "name": task or f"T{next(tk)}", "parts": some_parts(), "n": r.randint(1, 3), "start": lo, "dur": r.choice([1, 1, 2, 2, 3]),
                "end": hi, "gran": gw, "u": r.randint(1, 5)}

    def mchoose():
        clean = not quirky or r.random() < 0.4
        gm = g if clean else r.choice([1, 2])
        lo = g * r.randint(0, 3 // g) if clean else r.randint(0, 3)
        while clean and lo < now:
            lo += g
        return {"t": "mchoose", "name": f"T{next(tk)}", "parts": some_parts(), "n": r.randint(1, 3), "start": lo, "end": lo + gm * r.randint(1, 3),
                "gran": gm, "u": r.randint(1, 5)}

    def choose(task=None):
        return {"t": "choose", "name": task or f"T{next(tk)}", "parts": some_parts(), "n": r.randint(1, 3), "start": g * r.randint(0, max(1, 6 // g)),
                "dur": r.choice([1, 1, 2, 2, 3]), "u": r.randint(1, 5)}

    def node(depth):
        kinds = ["wchoose", "wchoose", "wchoose", "choose", "maxw", "maxw", "alloc"] + (["mchoose", "mchoose"] if with_malleable else [])
        if depth < 3:
            kinds += ["min", "min", "lt", "lt", "lt", "scale"]
        kd = r.choice(kinds)
        if kd == "wchoose":
            return wchoose()
        if kd == "mchoose":
            return mchoose()
        if kd == "choose":
            return choose()
        if kd == "alloc":
            p = r.choice(parts)
            return {"t": "alloc", "name": f"A{next(k)}", "allocs": [[p["id"], r.randint(0, max(1, p["qty"]))]], "start": g * r.randint(0, max(1, 4 // g)), "dur": r.choice([1, 2, 3])}
        if kd == "maxw":
            task = f"T{next(tk)}"
            ch = [wchoose(task)]
            for _ in range(r.randint(0, 2)):
                ch.append(wchoose(task) if r.random() < 0.6 else choose(task))
            r.shuffle(ch)
            return {"t": "max", "name": f"M{next(k)}", "ch": ch}
        if kd == "min":
            return {"t": "min", "name": f"N{next(k)}", "ch": [node(depth + 1) for _ in range(r.randint(1, 3))]}
        if kd == "lt":
            return {"t": "lt", "name": f"L{next(k)}", "ch": [node(depth + 1), node(depth + 1)]}
        return {"t": "scale", "name": f"S{next(k)}", "f": r.choice([1, 2, 3]), "disregard": r.random() < 0.3, "ch": [node(depth + 1)]}

    tree = {"t": "obj", "name": "O", "ch": [node(1) for _ in range(r.randint(1, 3))]}
    if not any(n["t"] in ("wchoose", "mchoose") for n in walk(tree)):
        tree["ch"].append(wchoose())
    if with_malleable and not any(n["t"] == "mchoose" for n in walk(tree)):
        tree["ch"].append(mchoose())
    return {"suite": "strl", "parts": parts, "avail": pids, "now": now, "gran": g, "tree": tree}


def walk(n):
    yield n
    for c in n.get("ch", []):
        yield from walk(c)


def size(tree) -> int:
    return sum(1 for _ in walk(tree))


def kinds(tree) -> list[str]:
    return [n["t"] for n in walk(tree)]


def shrink(case: dict):
    """Smaller variants of a case (drop a child, replace a node by one of its children)."""
    import copy

    tree = case["tree"]
    paths = []

    def go(n, path):
        paths.append(path)
        for i, c in enumerate(n.get("ch", [])):
            go(c, path + [i])

    go(tree, [])
    for path in paths:
        if not path:
            continue
        c = copy.deepcopy(case)
        parent = c["tree"]
        for i in path[:-1]:
            parent = parent["ch"][i]
        node = parent["ch"][path[-1]]
        if parent["t"] in ("obj", "min", "max") and len(parent["ch"]) > 1:
            d = copy.deepcopy(c)
            pp = d["tree"]
            for i in path[:-1]:
                pp = pp["ch"][i]
            del pp["ch"][path[-1]]
            yield d
        if node.get("ch") and parent["t"] != "max":
            for k in node["ch"]:
                if parent["t"] == "max" and k["t"] != "choose":
                    continue
                d = copy.deepcopy(c)
                pp = d["tree"]
                for i in path[:-1]:
                    pp = pp["ch"][i]
                pp["ch"][path[-1]] = copy.deepcopy(k)
                yield d
