"""Case generators for the ledger suite (C04; reused by C01/C13)."""
from __future__ import annotations

import itertools

NAMES = ["GPU", "CPU"]
IDS = [None, 1, 2]


def gen_vec(rng, max_keys=3, any_prob=0.25, max_q=3):
    keys = []
    n = rng.randint(1, max_keys)
    while len(keys) < n:
        name = rng.choice(NAMES)
        i = None if rng.random() < any_prob else rng.choice([1, 2, 3])
        if [name, i] not in keys:
            keys.append([name, i])
    return [[k[0], k[1], rng.randint(0, max_q)] for k in keys]


def gen_req(rng, same_name_prob=0.15, zero_prob=0.05):
    """A strategy's requirement: mostly one key per name, `any` ids."""
    out = []
    names = rng.sample(NAMES, rng.randint(1, 2))
    for nm in names:
        i = None if rng.random() < 0.7 else rng.choice([1, 2])
        q = 0 if rng.random() < zero_prob else rng.randint(1, 2)
        out.append([nm, i, q])
    if rng.random() < same_name_prob:
        nm = out[0][0]
        i = rng.choice([x for x in IDS if [nm, x] not in [[o[0], o[1]] for o in out]] or [3])
        out.append([nm, i, rng.randint(1, 2)])
    return out


def gen_strats(rng, n):
    out = []
    for sid in range(n):
        batch = rng.random() < 0.35
        out.append(
            {
                "sid": sid,
                "batch": batch,
                "bs": rng.choice([1, 2, 2, 3]) if batch else 1,
                "rt": rng.choice([0, 1, 2, 5]),
                "req": gen_req(rng),
            }
        )
    if rng.random() < 0.05:
        out[0]["bs"] = 0
    return out


def probe_keys():
    return [[n, i] for n in NAMES for i in [None, 1, 2, 3]]


def gen_case(rng, stream, length):
    nworkers = rng.choice([1, 1, 2, 2, 3])
    wf = rng.random() < 0.6  # WorkerLoader style: specific ids only
    init = [gen_vec(rng, any_prob=0.0 if wf else 0.35) for _ in range(nworkers)]
    strats = gen_strats(rng, rng.randint(2, 4))
    case = {"suite": "ledger", "stream": stream, "init": init, "keys": probe_keys(), "strats": strats, "ops": []}
    nobj = 1
    placed, loaded = [], []
    for _ in range(length):
        obj = rng.randrange(nobj) if rng.random() < 0.5 else 0
        w = rng.randrange(nworkers + (1 if rng.random() < 0.03 else 0))
        r = rng.random()
        t = rng.randrange(5)
        pr = rng.randrange(2)
        s = rng.choice(strats)
        if stream == "raw" or (stream == "mixed" and r < 0.3):
            kind = rng.choice(["allocate", "allocate", "allocate_multiple", "allocate_multiple", "deallocate", "deallocate", "get_allocated_res", "add_resource"])
            c = ["task", t] if rng.random() < 0.8 else ["profile", pr]
            if kind == "allocate":
                op = {"op": kind, "w": w, "k": [rng.choice(NAMES), rng.choice(IDS)], "c": c, "q": rng.randint(0, 3)}
            elif kind == "allocate_multiple":
                op = {"op": kind, "w": w, "req": gen_req(rng, same_name_prob=0.25), "c": c}
            elif kind == "add_resource":
                op = {"op": kind, "w": w, "k": [rng.choice(NAMES), rng.choice(IDS)], "q": rng.randint(0, 2)}
            else:
                op = {"op": kind, "w": w, "c": c}
        else:
            kind = rng.choice(
                ["w_place", "w_place", "w_remove", "w_remove", "w_load", "w_evict", "step", "p_place", "p_place", "p_remove", "p_load", "p_evict", "w_get_allocated"]
            )
            if kind == "w_place":
                op = {"op": kind, "w": w, "t": t, "s": s}
                placed.append((w, t))
            elif kind == "w_remove":
                if placed and rng.random() < 0.8:
                    w, t = rng.choice(placed)
                op = {"op": kind, "w": w, "t": t}
            elif kind == "w_load":
                op = {"op": kind, "w": w, "p": pr, "s": s}
                loaded.append((w, pr))
            elif kind == "w_evict":
                if loaded and rng.random() < 0.8:
                    w, pr = rng.choice(loaded)
                op = {"op": kind, "w": w, "p": pr}
            elif kind == "step":
                op = {"op": kind, "dt": rng.choice([1, 2, 5])}
            elif kind == "p_place":
                mode = rng.randrange(4)
                op = {
                    "op": kind,
                    "t": t,
                    "strats": rng.sample(strats, rng.randint(0, min(2, len(strats)))),
                    "s": s if mode in (0, 1) else None,
                    "wid": (w if mode in (1, 2) else None),
                }
            elif kind == "p_remove":
                op = {"op": kind, "t": t}
            elif kind == "p_load":
                op = {"op": kind, "p": pr, "s": s, "wid": None if rng.random() < 0.4 else w}
            elif kind == "p_evict":
                op = {"op": kind, "p": pr, "wid": None if rng.random() < 0.4 else w}
            else:
                op = {"op": kind, "w": w, "t": t}
        op["obj"] = obj
        case["ops"].append(op)
        if rng.random() < 0.06 and nobj < 4:
            # `step` on a copy is exercised only by the alias stream (copies share
            # pending-profile strategy objects; see suite c04 "alias" stream).
            case["ops"].append({"op": rng.choice(["copy", "copy", "deepcopy"]), "obj": rng.randrange(nobj)})
            nobj += 1
    if nobj > 1:
        # keep `step` away from histories with copies (aliasing is probed separately)
        case["ops"] = [o for o in case["ops"] if o["op"] != "step"]
    return case


def exhaustive_cases(max_len):
    """All histories up to max_len over a small alphabet on one worker with two
    instances of one type: the space the unit tests sample 3-6 points of."""
    init = [[["GPU", 1, 1], ["GPU", 2, 1]]]
    s_any = {"sid": 0, "batch": False, "bs": 1, "rt": 1, "req": [["GPU", None, 1]]}
    s_two = {"sid": 1, "batch": False, "bs": 1, "rt": 1, "req": [["GPU", None, 2]]}
    s_b = {"sid": 2, "batch": True, "bs": 2, "rt": 1, "req": [["GPU", None, 1]]}
    s_mix = {"sid": 3, "batch": False, "bs": 1, "rt": 1, "req": [["GPU", None, 1], ["GPU", 1, 1]]}
    strats = [s_any, s_two, s_b, s_mix]
    alphabet = [
        {"op": "w_place", "w": 0, "t": 0, "s": s_any},
        {"op": "w_place", "w": 0, "t": 1, "s": s_two},
        {"op": "w_place", "w": 0, "t": 2, "s": s_b},
        {"op": "w_place", "w": 0, "t": 3, "s": s_b},
        {"op": "w_place", "w": 0, "t": 4, "s": s_mix},
        {"op": "w_remove", "w": 0, "t": 0},
        {"op": "w_remove", "w": 0, "t": 2},
        {"op": "w_remove", "w": 0, "t": 3},
        {"op": "w_remove", "w": 0, "t": 4},
        {"op": "w_load", "w": 0, "p": 0, "s": s_any},
        {"op": "w_evict", "w": 0, "p": 0},
    ]
    for n in range(1, max_len + 1):
        for combo in itertools.product(alphabet, repeat=n):
            ops = [dict(o, obj=0) for o in combo]
            yield {"suite": "ledger", "stream": "exhaustive", "init": init, "keys": probe_keys(), "strats": strats, "ops": ops}


def alias_cases():
    """Copy, then step the copy while a profile is still loading: the original
    must not notice (C04: a shallow copy is an independent snapshot)."""
    s = {"sid": 0, "batch": False, "bs": 1, "rt": 5, "req": [["GPU", None, 1]]}
    base = {"suite": "ledger", "stream": "alias", "init": [[["GPU", 1, 2]]], "keys": probe_keys(), "strats": [s]}
    yield dict(base, ops=[{"op": "w_load", "obj": 0, "w": 0, "p": 0, "s": s}, {"op": "copy", "obj": 0}, {"op": "step", "obj": 1, "dt": 2}])
    yield dict(base, ops=[{"op": "w_load", "obj": 0, "w": 0, "p": 0, "s": s}, {"op": "copy", "obj": 0}, {"op": "step", "obj": 0, "dt": 2}])
