"""Generator of Clockwork histories (C15): specs for harness/impl/clockwork_world.py.

Everything is derived from the `random.Random` passed in. A spec is plain JSON.

Shape of the space (sizes kept small so that batches fill up, queues expire and
strategies tie):
* 1-3 models, each 1-3 execution strategies (batch 1-4, runtime 4-30 us with
  deliberate ties, requirement over 1-2 resource names; sometimes two strategies
  with equal batch size and runtime but different / incomparable requirements,
  sometimes structurally identical ones), 1 loading strategy (rarely 0 or 2);
* 1-3 workers in 1-2 pools with a few units of each resource, some resources
  split over two Resource objects of the same name;
* 4-16 requests, released over time; deadlines from hopeless-on-arrival
  (slack below the fastest runtime) over tight to loose;
* 2-8 invocations at increasing times; between invocations the harness steps
  the workers, so running batches complete and free the worker;
* loading state: profiles preloaded on a random subset of workers, loads /
  evictions between invocations (tape), optionally the scheduler's own
  `start()` and `run_load` phase;
* both goals; a minority of histories in "re-offer" mode (decisions not
  applied, so placed requests are offered again, as the repo's own test does).
"""
from __future__ import annotations

import random


def gen_spec(rng: random.Random, size: str = "normal") -> dict:
    nres = rng.choice([1, 1, 2])
    resnames = ["GPU", "RAM"][:nres]
    nmodels = rng.choice([1, 2, 2, 3])
    runtimes_pool = sorted(rng.sample(range(4, 31), 4))

    def req_vec(maxq):
        v = []
        for n in range(nres):
            if rng.random() < (0.85 if n == 0 else 0.4):
                v.append([n, rng.randint(0 if rng.random() < 0.1 else 1, maxq)])
        return v

    models = []
    for _ in range(nmodels):
        ns = rng.choice([1, 2, 2, 3, 3])
        strategies = []
        for _ in range(ns):
            strategies.append(
                {"batch": rng.choice([1, 1, 2, 2, 3, 4]), "runtime": rng.choice(runtimes_pool), "req": req_vec(2)}
            )
        twist = rng.random()
        if ns >= 2 and twist < 0.2:
            # same batch / runtime, different (possibly incomparable) requirements
            strategies[1]["batch"] = strategies[0]["batch"]
            strategies[1]["runtime"] = strategies[0]["runtime"]
            if nres == 2 and rng.random() < 0.6:
                strategies[0]["req"] = [[0, rng.randint(1, 2)]]
                strategies[1]["req"] = [[1, rng.randint(1, 2)]]
        elif ns >= 2 and twist < 0.3:
            strategies[1] = dict(strategies[0])  # structurally identical strategy
        elif ns >= 2 and twist < 0.45:
            # classic clockwork ladder: bigger batch, longer runtime
            strategies.sort(key=lambda s: s["batch"])
            for i, s in enumerate(strategies):
                s["runtime"] = runtimes_pool[min(i, 3)]
        nl = 1 if rng.random() < 0.9 else rng.choice([0, 2])
        load = [
            {"batch": 1, "runtime": rng.choice([0, 0, 2, 5, 9]), "req": ([[nres - 1, rng.randint(0, 2)]] if rng.random() < 0.7 else [])}
            for _ in range(nl)
        ]
        models.append({"strategies": strategies, "load": load})

    nworkers = rng.choice([1, 1, 2, 2, 3])
    npools = 1 if nworkers == 1 or rng.random() < 0.6 else 2
    workers = []
    for i in range(nworkers):
        res = []
        for n in range(nres):
            q = rng.randint(1, 3) if n == 0 else rng.randint(2, 6)
            res.append([n, q, rng.random() < 0.25])
        workers.append({"pool": (i % npools), "res": res})
    if rng.random() < 0.03:
        workers = []
    workers.sort(key=lambda w: w["pool"])

    horizon = rng.choice([40, 60, 90])
    ntasks = {"small": rng.randint(2, 6), "normal": rng.randint(4, 16), "large": rng.randint(12, 30)}[size]
    tasks = []
    for _ in range(ntasks):
        m = rng.randrange(nmodels)
        rts = [s["runtime"] for s in models[m]["strategies"]]
        rel = rng.choice([0, 0, rng.randint(0, horizon)])
        kind = rng.random()
        if kind < 0.12:
            slack = rng.randint(0, max(0, min(rts) - 1))  # hopeless on arrival
        elif kind < 0.45:
            slack = rng.randint(min(rts), max(rts) + 6)  # tight
        else:
            slack = rng.randint(max(rts), max(rts) + horizon)
        if rng.random() < 0.3 and tasks:
            # equal deadlines exercise insort-right and sort ties
            dl = rng.choice(tasks)["deadline"]
            if dl >= rel:
                slack = dl - rel
        tasks.append({"model": m, "release": rel, "deadline": rel + slack})

    ninv = rng.randint(2, 8)
    times = sorted(rng.sample(range(0, horizon + 30), ninv))
    invocations = []
    released = set()
    for now in times:
        rel = [i for i, t in enumerate(tasks) if t["release"] <= now and i not in released]
        # occasionally hold a release back to a later invocation
        rel = [i for i in rel if rng.random() < 0.9]
        released.update(rel)
        inv = {"now": now, "release": rel, "load": [], "evict": []}
        if workers and rng.random() < 0.3:
            inv["load"].append([rng.randrange(len(workers)), rng.randrange(nmodels)])
        if workers and rng.random() < 0.2:
            inv["evict"].append([rng.randrange(len(workers)), rng.randrange(nmodels)])
        invocations.append(inv)

    preload = []
    for w in range(len(workers)):
        for m in range(nmodels):
            if rng.random() < 0.7:
                preload.append([w, m])

    start = None
    if rng.random() < 0.3:
        start = list(range(nmodels))
        rng.shuffle(start)
        start = start[: rng.randint(0, nmodels)]
    return {
        "goal": rng.choice(["clockwork", "least_slack"]),
        "run_load": rng.random() < 0.25,
        "apply": rng.random() >= 0.12,
        "apply_start": rng.random() < 0.8,
        "uuid_seed": rng.randrange(1 << 30),
        "resnames": resnames,
        "models": models,
        "workers": workers,
        "tasks": tasks,
        "preload": preload,
        "start": start,
        "invocations": invocations,
    }


def shrink_variants(spec: dict):
    """Smaller variants of a spec (used by the failing-input search)."""
    out = []
    n = len(spec["invocations"])
    for k in range(1, n):
        s = dict(spec)
        s["invocations"] = spec["invocations"][:k]
        out.append(s)
    nt = len(spec["tasks"])
    for drop in range(nt):
        keep = [i for i in range(nt) if i != drop]
        remap = {old: new for new, old in enumerate(keep)}
        s = dict(spec)
        s["tasks"] = [spec["tasks"][i] for i in keep]
        s["invocations"] = [
            dict(inv, release=[remap[i] for i in inv["release"] if i in remap]) for inv in spec["invocations"]
        ]
        out.append(s)
    if spec.get("run_load"):
        out.append(dict(spec, run_load=False))
    return out


# Hand-written corpus: the situations the property text names, first in every run.
def corpus() -> list[dict]:
    def st(b, r, req):
        return {"batch": b, "runtime": r, "req": req}

    ladder = [st(1, 10, [[0, 1]]), st(2, 15, [[0, 1]]), st(4, 25, [[0, 2]])]
    base = {
        "goal": "clockwork",
        "run_load": False,
        "apply": True,
        "apply_start": True,
        "uuid_seed": 1,
        "resnames": ["GPU", "RAM"],
        "models": [
            {"strategies": ladder, "load": [st(1, 5, [[1, 1]])]},
            {"strategies": [st(2, 12, [[0, 1]])], "load": [st(1, 5, [[1, 1]])]},
        ],
        "workers": [{"pool": 0, "res": [[0, 2, False], [1, 4, False]]}, {"pool": 0, "res": [[0, 1, False], [1, 4, False]]}],
        "tasks": [{"model": (0 if i % 3 else 1), "release": 5 if i < 7 else 30, "deadline": 40 + 3 * i} for i in range(10)],
        "preload": [[0, 0], [0, 1], [1, 0]],
        "start": None,
        "invocations": [
            {"now": 5, "release": list(range(7)), "load": [], "evict": []},
            {"now": 22, "release": [], "load": [], "evict": []},
            {"now": 30, "release": [7, 8, 9], "load": [[1, 1]], "evict": []},
            {"now": 41, "release": [], "load": [], "evict": [[0, 0]]},
            {"now": 60, "release": [], "load": [], "evict": []},
        ],
    }
    out = [base, dict(base, goal="least_slack"), dict(base, apply=False), dict(base, run_load=True, start=[1, 0])]
    # partial batches that never fill, expiry from the slow queue only, hopeless arrivals
    out.append(
        dict(
            base,
            models=[{"strategies": [st(3, 8, [[0, 1]]), st(2, 20, [[0, 1]])], "load": [st(1, 0, [])]}],
            tasks=[
                {"model": 0, "release": 0, "deadline": 30},
                {"model": 0, "release": 0, "deadline": 26},
                {"model": 0, "release": 12, "deadline": 15},
                {"model": 0, "release": 12, "deadline": 45},
                {"model": 0, "release": 12, "deadline": 45},
            ],
            preload=[[0, 0], [1, 0]],
            invocations=[
                {"now": 0, "release": [0, 1], "load": [], "evict": []},
                {"now": 7, "release": [], "load": [], "evict": []},
                {"now": 12, "release": [2, 3, 4], "load": [], "evict": []},
                {"now": 23, "release": [], "load": [], "evict": []},
                {"now": 40, "release": [], "load": [], "evict": []},
            ],
        )
    )
    # equal batch / runtime, incomparable requirements (Resources.__lt__ is not an order)
    out.append(
        dict(
            base,
            models=[
                {
                    "strategies": [st(2, 10, [[0, 1]]), st(2, 10, [[1, 1]]), st(2, 10, [[0, 1], [1, 1]])],
                    "load": [st(1, 0, [])],
                }
            ],
            tasks=[{"model": 0, "release": 0, "deadline": 50 + i} for i in range(6)],
            preload=[[0, 0], [1, 0]],
            invocations=[{"now": 0, "release": [0, 1, 2, 3, 4, 5], "load": [], "evict": []}, {"now": 20, "release": [], "load": [], "evict": []}],
        )
    )
    return out
