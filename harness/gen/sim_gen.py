"""World generator for the end-to-end simulator suite."""
from __future__ import annotations

from harness import common
from harness.gen import taskgraph_gen as tgen

RES = ["GPU", "CPU"]


def gen_workers(rng):
    pools = []
    for pi in range(rng.choice([1, 1, 1, 2])):
        workers = []
        for wi in range(rng.choice([1, 1, 2, 3])):
            res = []
            names = rng.sample(RES, rng.choice([1, 2, 2]))
            if "GPU" not in names and pi == 0 and wi == 0:
                names = ["GPU"] + names
            for nm in names:
                k = rng.choice([1, 1, 2])
                for j in range(k):
                    res.append({"name": f"{nm}:id{len(res) + 1}", "quantity": rng.choice([1, 1, 2, 3])})
            workers.append({"name": f"W{pi}_{wi}", "resources": res})
        pools.append({"name": f"Pool{pi}", "workers": workers})
    return pools


def gen_workload(rng, malformed=False, batch=False, dag=False, resolve=False):
    graphs, profiles = [], []
    njobs = rng.choice([1, 1, 2, 3])
    for ji in range(njobs):
        jname = f"J{ji}"
        b = tgen.Builder(rng, jname)
        if resolve:
            # two or three conditional / join pairs in sequence (the later ones are decided at submission too)
            prev_join = None
            # shapes of a pair (drawn from a sub-stream): plain; "elseif" = one branch head
            # is itself a conditional whose branches end in the SAME join (if / else-if / else with one terminal);
            # "joincond" = the join of the previous pair is at the same time the conditional of this pair
            r3 = common.Rng(0, f"sim-resolve-shapes/{jname}/{rng.random()}")
            for _k in range(rng.choice([2, 2, 3])):
                shape = r3.choice(["plain", "plain", "plain", "elseif", "elseif", "joincond"])
                if shape == "joincond" and prev_join is not None:
                    c = prev_join
                    b.nodes[c]["conditional"] = True
                else:
                    c = b.task(conditional=True)
                    if prev_join is not None:
                        b.edge(prev_join, c)
                kk = rng.choice([2, 2, 3])
                probs = rng.choice(tgen.PROB_SETS[kk])
                join_parents = []
                for i in range(kk):
                    if shape == "elseif" and i == kk - 1:
                        head = b.task(conditional=True, prob=probs[i])   # else-if: a nested conditional, same join
                        b.edge(c, head)
                        p2 = r3.choice(tgen.PROB_SETS[2])
                        for j in range(2):
                            h2 = b.task(prob=p2[j])
                            b.edge(head, h2)
                            join_parents.append(h2)
                        continue
                    head = b.task(prob=probs[i])
                    b.edge(c, head)
                    tail = head
                    if rng.random() < 0.4:
                        tail = b.task()
                        b.edge(head, tail)
                    join_parents.append(tail)
                join = b.task(terminal=True)
                for x in join_parents:
                    b.edge(x, join)
                prev_join = join
        elif rng.random() < (0.0 if dag else 0.75):
            b.term(rng.choice([0, 1, 1, 2, 2]))
        else:
            n = rng.randint(4, 7) if dag else rng.randint(1, 5)
            labs = [b.task() for _ in range(n)]
            for i in range(n):
                for j in range(i + 1, n):
                    if rng.random() < 0.35:
                        b.edge(labs[i], labs[j])
        spec = b.finish()
        nodes = []
        order = [a for a, _ in spec["mapping"]]
        for lab in order:
            nd = spec["nodes"][lab]
            pname = f"{jname}_P{lab}"
            if batch and profiles and rng.random() < 0.5:
                # share a work profile (hence its strategy objects) with an earlier task: batches need that
                node = {"name": nd["name"], "work_profile": rng.choice(profiles)["name"]}
                kids = dict(spec["mapping"])[lab]
                if kids:
                    node["children"] = [spec["nodes"][k]["name"] for k in kids]
                if nd["conditional"]:
                    node["conditional"] = True
                if nd["terminal"]:
                    node["terminal"] = True
                if nd["prob"] != 1000:
                    node["probability"] = nd["prob"] / 1000.0
                nodes.append(node)
                continue
            strategies = []
            for s in nd["strategies"]:
                rt = s["rt"]
                if malformed and rng.random() < 0.3:
                    rt = 0
                req = {}
                for nm in rng.sample(RES, rng.choice([1, 1, 2])):
                    req[f"{nm}:any"] = rng.choice([1, 1, 1, 2])
                if "GPU:any" not in req and rng.random() < 0.7:
                    req = {"GPU:any": rng.choice([1, 1, 2])}
                if rng.random() < 0.04:
                    req = {f"{rng.choice(RES)}:any": 0}   # a strategy that demands nothing (a barrier / marker task)
                if rng.random() < 0.12:
                    # a specific instance, possibly next to an `any` request of the same type (overlapping entries)
                    req[f"{rng.choice(RES)}:id{rng.randint(1, 3)}"] = 1
                strategies.append({"batch_size": rng.choice([2, 3, 4]) if batch and rng.random() < 0.8 else 1, "runtime": rt, "resource_requirements": req})
            profiles.append({"name": pname, "execution_strategies": strategies})
            node = {"name": nd["name"], "work_profile": pname}
            kids = dict(spec["mapping"])[lab]
            if kids:
                node["children"] = [spec["nodes"][k]["name"] for k in kids]
            if nd["conditional"]:
                node["conditional"] = True
            elif rng.random() < 0.3:
                node["conditional"] = False   # spelled out: the loader must read the value, not the key
            if nd["terminal"]:
                node["terminal"] = True
            else:
                x_ = rng.random()
                n_parents = sum(1 for _a, cs_ in spec["mapping"] if lab in cs_)
                # spelled out on (most) ordinary multi-parent joins: that is where a wrongly read flag changes behaviour
                if x_ < 0.3 or (n_parents >= 2 and x_ < 0.8):
                    node["terminal"] = False
            if nd["prob"] != 1000:
                node["probability"] = nd["prob"] / 1000.0
            nodes.append(node)
        g = {"name": jname, "graph": nodes}
        r = rng.random()
        if r < 0.6:
            g.update(release_policy="fixed", period=rng.choice([0, 1, 3, 5, 10, 20]), invocations=rng.choice([1, 1, 2, 3]), start=rng.choice([0, 0, 2, 7]))
        elif r < 0.85:
            g.update(release_policy="closed_loop", concurrency=rng.choice([1, 1, 2]), invocations=rng.choice([1, 2, 3, 4]), start=rng.choice([0, 0, 4]))
        else:
            g.update(release_policy="periodic", period=rng.choice([5, 10, 25]), start=rng.choice([0, 3]))
        g["deadline_variance"] = rng.choice([[0, 0], [50, 100], [100, 400], [0, 20], [500, 500]])
        graphs.append(g)
    return {"graphs": graphs, "profiles": profiles}


def gen_world(rng, stream="regular"):
    if stream == "plan" or stream.startswith("plan:"):
        return gen_plan_world(rng, stream.split(":")[1] if ":" in stream else None)
    malformed = stream == "malformed"
    batch = stream == "batch"
    dag = stream == "dag"  # plain multi-parent DAGs (joins behind paths of different length) under the bundled greedy policies
    resolve = stream == "resolve"   # conditionals resolved at submission, several conditional/join pairs per job
    wl = gen_workload(rng, malformed, batch, dag, resolve)
    if resolve:
        for g in wl["graphs"]:
            if g["release_policy"] == "closed_loop":
                g.update(release_policy="fixed", period=rng.choice([0, 5, 20]))
                g.pop("concurrency", None)
    periodic = any(g["release_policy"] == "periodic" for g in wl["graphs"])
    pol = rng.choice(["EDF", "FIFO", "LSF", "RANDOM", "RANDOM"])
    if batch:
        pol = "RANDOM"
    if dag or resolve:
        pol = rng.choice(["EDF", "FIFO", "LSF"])
    retime = stream == "retime"   # a re-planning policy: pending placements are moved earlier and later all the time
    if retime:
        pol = "RANDOM"
    flags = {
        "loop_timeout": rng.choice([60, 120, 400]) if (periodic or rng.random() < 0.3) else rng.choice([9223372036854775807, 5000]),
        "scheduler_frequency": rng.choice([-1, -1, 0, 1, 7]),
        "scheduler_delay": rng.choice([0, 0, 0, 3]) if pol == "RANDOM" else 0,
        "runtime_variance": rng.choice([0, 0, 0, 30, 100]),
        "drop_skipped_tasks": rng.random() < 0.25,
        "scheduler_run_at_worker_free": rng.random() < 0.15,
        "workload_update_interval": rng.choice([-1, -1, -1, 50]),
        "release_taskgraphs": False,
    }
    if (resolve or rng.random() < 0.25) and not any(g["release_policy"] == "closed_loop" for g in wl["graphs"]):
        # branches drawn when the task graph is generated (follow-up graphs of a closed loop are generated by the
        # model from the unresolved template, so the flag is only used without closed-loop jobs)
        flags["resolve_conditionals_at_submission"] = True
    policy = {"name": pol}
    if pol in ("EDF", "FIFO"):
        policy["enforce_deadlines"] = rng.random() < 0.3
    if pol == "RANDOM":
        policy.update(lookahead=rng.choice([0, 0, 5, 50]), retract=rng.random() < 0.3, cancel_prob=rng.choice([0.0, 0.05, 0.15]))
        flags["release_taskgraphs"] = rng.random() < 0.2
        if retime:
            policy.update(lookahead=rng.choice([20, 50]), retract=rng.random() < 0.7, cancel_prob=rng.choice([0.0, 0.05, 0.1]), delays=[0, 2, 5, 9, 20, 40])
            flags["scheduler_frequency"] = rng.choice([1, 3, 7])
            flags["release_taskgraphs"] = rng.random() < 0.5
        if batch:
            policy["batch_prob"] = rng.choice([0.5, 0.8, 1.0])
            policy["cancel_prob"] = rng.choice([0.0, 0.0, 0.05])
        # a policy that takes simulated time to decide (its placements are never before the time it finishes): drawn
        # from a sub-stream keyed by the world so far, the main stream is not shifted
        import json as _json

        r4 = common.Rng(0, "sim-policy-runtime/" + _json.dumps([wl, flags, policy], sort_keys=True, default=str))
        # (not for retracting policies: a decision of theirs may arrive for a task that started during the invocation,
        # which sends the simulator into its preemption / migration code - outside the simulator model, see C05-SR3)
        if r4.random() < 0.2 and not policy.get("retract"):
            policy["runtimes"] = r4.choice([[0, 1, 2], [0, 3, 7], [1, 5, 30], [0, 0, 60]])
        # a policy that answers a task twice in one invocation (a second placement on another pool / at another
        # time, unplaced, or a cancellation): own sub-stream, the main stream and the draws above are not shifted
        r5 = common.Rng(0, "sim-policy-dup/" + _json.dumps([wl, flags, {k: v for k, v in policy.items() if k != "runtimes"}], sort_keys=True, default=str))
        if r5.random() < 0.3:
            policy["dup_prob"] = r5.choice([0.15, 0.4, 1.0])
    if stream == "profile":
        # work profiles that have to be loaded (loading strategies in the description) and a policy that decides
        # loads and evictions next to its task placements
        policy = {"name": "RANDOM", "lookahead": policy.get("lookahead", 0) if pol == "RANDOM" else 0, "retract": False,
                  "cancel_prob": rng.choice([0.0, 0.05]), "profile_prob": rng.choice([0.3, 0.6, 0.9])}
        flags["scheduler_delay"] = 0
        for pr in wl["profiles"]:
            if rng.random() < 0.75:
                pr["loading_strategies"] = [{"batch_size": 1, "runtime": rng.choice([0, 1, 3, 6]),
                                             "resource_requirements": {f"{rng.choice(RES)}:any": rng.choice([0, 1, 1, 2])}}
                                            for _ in range(rng.choice([1, 1, 2]))]
    return {"workers": gen_workers(rng), "workload": wl, "flags": flags, "policy": policy, "stream": stream, "max_steps": 3000}


# --------------------------------------------------------------------------
# stream "plan": small worlds for the REAL optimisation planners
# --------------------------------------------------------------------------

PLANNERS = ["ILP", "TetriSchedGurobi", "TetriSchedCPLEX"]


def gen_plan_world(rng, planner=None):
    """A world for ILPScheduler / TetriSchedGurobiScheduler / TetriSchedCPLEXScheduler run end to end.

    Small on purpose (the Gurobi licence is size-restricted and every scheduler invocation is a solver call): 1-3
    workers, 1-3 jobs of 1-3 tasks released over time (fixed period, 1-3 invocations), at most ~4 tasks on offer at
    a time, 1-2 strategies per task with DIFFERENT runtimes and resource kinds (a fast GPU strategy and a slow CPU
    strategy), short horizons.  Tasks keep arriving while earlier ones are still SCHEDULED for a later start, so a
    retracting planner re-places them (possibly with the other strategy)."""
    pol = planner or rng.choice(["ILP"] * 9 + ["TetriSchedGurobi"] * 7 + ["TetriSchedCPLEX"] * 4)   # a CPLEX run costs 1-3 s
    # -- workload --------------------------------------------------------------
    graphs, profiles = [], []
    njobs = rng.choice([1, 2, 2, 3])
    # ILP without deadline enforcement must use the goal max_slack (a non-convex quadratic objective: Gurobi needs seconds to
    # minutes on 6+ tasks): few of those, and tiny
    slack_goal = pol == "ILP" and rng.random() < 0.1
    budget = 4 if slack_goal else 8  # tasks over the whole run
    for ji in range(njobs):
        jname = f"J{ji}"
        shape = rng.choice(["one", "one", "chain2", "chain2", "chain3", "fork", "join"])
        n = {"one": 1, "chain2": 2, "chain3": 3, "fork": 3, "join": 3}[shape]
        if n > budget:
            shape, n = "one", 1
        if budget <= 0:
            break
        kids = {
            "one": {0: []}, "chain2": {0: [1], 1: []}, "chain3": {0: [1], 1: [2], 2: []},
            "fork": {0: [1, 2], 1: [], 2: []}, "join": {0: [2], 1: [2], 2: []},
        }[shape]
        nodes = []
        for ti in range(n):
            fast = rng.choice([2, 3, 4, 5])
            slow = fast + rng.choice([3, 5, 8, 15])
            r = rng.random()
            if r < 0.55:
                strategies = [
                    {"batch_size": 1, "runtime": fast, "resource_requirements": {"GPU:any": 1}},
                    {"batch_size": 1, "runtime": slow, "resource_requirements": {"CPU:any": 1}},
                ]
                if rng.random() < 0.5:
                    strategies.reverse()
            elif r < 0.8:
                strategies = [{"batch_size": 1, "runtime": fast, "resource_requirements": {rng.choice(["GPU:any", "CPU:any"]): rng.choice([1, 1, 2])}}]
            else:
                # same kind, different amounts: the fast strategy takes the whole worker
                strategies = [
                    {"batch_size": 1, "runtime": fast, "resource_requirements": {"GPU:any": 2}},
                    {"batch_size": 1, "runtime": slow, "resource_requirements": {"GPU:any": 1}},
                ]
            pname = f"{jname}_P{ti}"
            profiles.append({"name": pname, "execution_strategies": strategies})
            node = {"name": f"T{ti}", "work_profile": pname}
            if kids[ti]:
                node["children"] = [f"T{k}" for k in kids[ti]]
            nodes.append(node)
        inv = min(rng.choice([1, 2, 2, 3]), budget // n)
        budget -= n * inv
        g = {"name": jname, "graph": nodes, "release_policy": "fixed", "period": rng.choice([2, 3, 5, 8, 12]), "invocations": inv,
             "start": rng.choice([0, 0, 1, 3, 6, 10]), "deadline_variance": rng.choice([[0, 0], [10, 30], [50, 100], [100, 200], [20, 20]])}
        graphs.append(g)
    # -- cluster ---------------------------------------------------------------
    need = {"GPU": 1, "CPU": 1}
    for pr in profiles:
        for st in pr["execution_strategies"]:
            for key, q in st["resource_requirements"].items():
                need[key.split(":")[0]] = max(need[key.split(":")[0]], q)
    n_workers = rng.choice([1, 2, 2, 3])
    n_pools = 1 if n_workers == 1 or rng.random() < 0.6 else 2
    # ILPScheduler raises AttributeError as soon as a SCHEDULED task has one (worker, strategy) pair that does not fit
    # (known finding C10-ILP-1) and the run aborts: most ILP worlds get workers that can hold every strategy
    all_fit = pol == "ILP" and rng.random() < 0.85
    homogeneous = all_fit or rng.random() < 0.65
    pools = [{"name": f"Pool{i}", "workers": []} for i in range(n_pools)]
    for wi in range(n_workers):
        if homogeneous or wi == 0:
            kinds = ["GPU", "CPU"]
        else:
            kinds = rng.choice([["GPU"], ["CPU"], ["GPU", "CPU"]])
        res = [{"name": f"{nm}:id{k + 1}", "quantity": need[nm] if all_fit and rng.random() < 0.8 else (need[nm] + 1 if all_fit else rng.choice([1, 1, 2]))}
               for k, nm in enumerate(kinds)]
        pools[wi % n_pools]["workers"].append({"name": f"W{wi % n_pools}_{wi // n_pools}", "resources": res})
    lookahead = rng.choice([0, 0, 3, 10, 30])
    rtg = pol != "TetriSchedCPLEX" and rng.random() < 0.3
    enforce = rng.random() < 0.85
    if pol == "ILP":
        enforce = not slack_goal or rng.random() < 0.5
    policy = {"name": pol, "enforce_deadlines": enforce, "retract": rng.random() < 0.6, "lookahead": lookahead, "goal": "max_goodput"}
    if slack_goal:
        policy["goal"] = "max_slack"
        policy["lookahead"] = rng.choice([0, 0, 3])
    if pol != "ILP":
        policy["disc"] = rng.choice([1, 1, 1, 2, 3])
        policy["plan_ahead"] = rng.choice([6, 10, 14]) * policy["disc"] if rng.random() < 0.85 else -1
    flags = {
        "loop_timeout": rng.choice([50, 80, 120]),
        "scheduler_frequency": rng.choice([-1, -1, 1, 3, 5]),
        "scheduler_delay": 0,
        "runtime_variance": 0 if rng.random() < 0.9 else rng.choice([20, 50]),
        "drop_skipped_tasks": rng.random() < 0.4,
        "scheduler_run_at_worker_free": rng.random() < 0.15,
        "workload_update_interval": -1,
        "release_taskgraphs": rtg,
    }
    return {"workers": pools, "workload": {"graphs": graphs, "profiles": profiles}, "flags": flags, "policy": policy, "stream": "plan", "max_steps": 3000}
