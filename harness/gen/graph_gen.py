"""C17 case generators.

A case: {"kind": label kind, "ops": [...], optional "rt"/"live"/"slo" (task/job kinds)}.
Node labels are naturals; in the exhaustive families label i is the node at dict
position i (every (DAG, dict order) pair is a distinct labelled DAG on positions,
so enumerating all labelled DAGs covers every insertion order that changes dict order).
"""
from __future__ import annotations

import itertools

PLAIN_KINDS = ["int1", "int0", "str", "tuple", "obj"]
ALL_KINDS = PLAIN_KINDS + ["task", "job"]

# ---------------------------------------------------------------------------
# labelled DAG enumeration (children bitmask per node)
# ---------------------------------------------------------------------------

_DAGS: dict[int, list] = {0: [()]}


def _bits(m):
    i = 0
    while m:
        if m & 1:
            yield i
        m >>= 1
        i += 1


def _reach_masks(masks):
    n = len(masks)
    reach = [(1 << i) | masks[i] for i in range(n)]
    changed = True
    while changed:
        changed = False
        for i in range(n):
            r = reach[i]
            for c in _bits(r):
                r |= reach[c]
            if r != reach[i]:
                reach[i] = r
                changed = True
    return reach


def extend_dag(masks):
    """All DAGs on k+1 nodes whose restriction to the first k nodes is `masks`."""
    k = len(masks)
    reach = _reach_masks(masks)
    full = (1 << k) - 1
    for ins in range(1 << k):
        anc = 0  # nodes that reach a member of `ins` (reflexive): may not be children of the new node
        for i in range(k):
            if reach[i] & ins:
                anc |= 1 << i
        allowed = full & ~anc
        sub = allowed
        while True:  # all subsets of `allowed`
            new = tuple(m | ((1 << k) if (ins >> i) & 1 else 0) for i, m in enumerate(masks)) + (sub,)
            yield new
            if sub == 0:
                break
            sub = (sub - 1) & allowed


def all_dags(n):
    """Every labelled DAG on nodes 0..n-1 (1, 1, 3, 25, 543, 29281 for n = 0..5)."""
    if n not in _DAGS:
        _DAGS[n] = [d for base in all_dags(n - 1) for d in extend_dag(base)]
    return _DAGS[n]


def sample_dags6(offset, stride, limit):
    """Every `stride`-th labelled 6-node DAG starting at `offset` (3 781 503 in total)."""
    idx = 0
    got = 0
    for base in all_dags(5):
        for d in extend_dag(base):
            if idx % stride == offset:
                yield d
                got += 1
                if got >= limit:
                    return
            idx += 1


def all_digraphs(n):
    """Every digraph on n nodes, self-loops allowed (2^(n*n))."""
    for code in range(1 << (n * n)):
        yield tuple((code >> (i * n)) & ((1 << n) - 1) for i in range(n))


def edges_of(masks):
    return [(u, v) for u, m in enumerate(masks) for v in _bits(m)]


# ---------------------------------------------------------------------------
# building cases
# ---------------------------------------------------------------------------


def weights(rng, labels, mode):
    if mode == "ones":
        return [[n, 1] for n in labels]
    if mode == "small":  # ties are likely
        return [[n, rng.randint(1, 3)] for n in labels]
    if mode == "wide":
        return [[n, rng.randint(1, 1000)] for n in labels]
    if mode == "zeros":
        return [[n, rng.choice([0, 0, 1, 2])] for n in labels]
    if mode == "neg":
        return [[n, rng.randint(-3, 3)] for n in labels]
    raise ValueError(mode)


def query_op(rng, labels, absent, full=True, max_ns=6, max_pairs=10, wmodes=("small", "ones")):
    labels = list(labels)
    if full:
        ns = labels + [absent]
        pairs = [[a, b] for a in labels for b in labels]
        if labels:
            pairs += [[labels[0], absent], [absent, labels[-1]]]
    else:
        ns = rng.sample(labels, min(max_ns, len(labels))) + [absent]
        pairs = [[rng.choice(labels), rng.choice(labels)] for _ in range(max_pairs)] if labels else []
        if labels:
            pairs.append([absent, labels[0]])
    ws = [weights(rng, labels, m) for m in wmodes]
    return {"op": "query", "ns": ns, "pairs": pairs, "ws": ws}


def build_ops(n, edges, style, node_order=None):
    """`ops` : add_node for every node in `node_order`, then add_child per edge (in the
    given edge order).  `init`: Graph(nodes=mapping) with keys in `node_order` and the
    children in edge order (dict order then follows first mention)."""
    node_order = list(range(n)) if node_order is None else node_order
    if style == "ops":
        return [{"op": "add_node", "n": u, "cs": []} for u in node_order] + [
            {"op": "add_child", "n": u, "c": v} for u, v in edges
        ]
    if style == "init":
        ch = {u: [] for u in node_order}
        for u, v in edges:
            ch[u].append(v)
        return [{"op": "init", "map": [[u, ch[u]] for u in node_order]}]
    if style == "add_node":
        ch = {u: [] for u in node_order}
        for u, v in edges:
            ch[u].append(v)
        return [{"op": "add_node", "n": u, "cs": ch[u]} for u in node_order]
    raise ValueError(style)


_FACTOR = {"us": 1, "ms": 1000, "s": 1000000}


def _timed(rng, pool, lo, hi, mixed):
    """[[n, microseconds]] plus [[n, unit]] for the labels whose time is GIVEN in ms / s
    (then the microsecond value is a whole multiple of the unit)."""
    us, units = [], []
    for n in pool:
        u = rng.choice(["us", "us", "us", "ms", "ms", "s"]) if mixed else "us"
        us.append([n, rng.randint(lo, hi) * _FACTOR[u]])
        if u != "us":
            units.append([n, u])
    return us, units


def decorate(rng, case, labels, jobcost=True):
    """Give task / job kinds their runtimes (and the job-level cost queries).  Half of the
    cases give runtimes (and SLOs) in mixed units (us / ms / s); all tables exchanged with the
    model and the oracle are in microseconds."""
    kind = case["kind"]
    labels = list(labels)
    mixed = rng.random() < 0.5
    if kind == "task":
        q = [op for op in case["ops"] if op["op"] == "query"]
        pool = sorted({n for op in q for n in op["ns"]} | set(labels))
        rt, units = _timed(rng, pool, 1, 4, mixed)
        case["rt"] = rt
        if units:
            case["unit"] = units
        for op in q:
            op["ws"] = [[[n, r] for n, r in rt]] + op["ws"][1:]
    elif kind == "job":
        pool = sorted(set(labels) | {n for op in case["ops"] if op["op"] == "query" for n in op["ns"]})
        mode = rng.choice(["plain", "plain", "slo", "dead", "both"])
        rt, units = _timed(rng, pool, 1, 4, mixed)
        live = [n for n in pool if mode in ("plain", "slo") or rng.random() < 0.7]
        slo, slo_units = _timed(rng, [n for n in pool if mode in ("slo", "both") and rng.random() < 0.5], 1, 9, mixed)
        case["rt"], case["live"], case["slo"] = rt, live, slo
        if units:
            case["unit"] = units
        if slo_units:
            case["slo_unit"] = slo_units
        if jobcost and labels:
            slo_d = dict(map(tuple, slo))
            cost = [[n, slo_d.get(n, r)] for n, r in rt]
            case["ops"] = case["ops"] + [
                {"op": "jobcost", "which": "cpr", "rt": rt, "live": live, "cost": rt},
                {"op": "jobcost", "which": "ct", "rt": rt, "live": live, "cost": cost},
            ]
    return case


def dag_case(rng, masks, kind, order="lex", style="ops", full=True):
    n = len(masks)
    edges = edges_of(masks)
    if order == "rev":
        edges = edges[::-1]
    elif order == "shuf":
        rng.shuffle(edges)
    node_order = list(range(n))
    if style != "ops" and order == "shuf":
        rng.shuffle(node_order)
    ops = build_ops(n, edges, style, node_order)
    ops.append(query_op(rng, range(n), n, full=full))
    return decorate(rng, {"kind": kind, "ops": ops}, range(n))


def random_dag_case(rng, kind, max_n=40, parallel=False):
    n = rng.randint(1, max_n)
    perm = list(range(n))
    rng.shuffle(perm)  # perm = a topological order of the labels
    p = rng.choice([0.03, 0.08, 0.15, 0.3, 0.5]) if n > 6 else rng.choice([0.3, 0.5, 0.8])
    if n > 12:
        # breadth_first(node) calls are_dependent once per (child, parent) pair and every call sorts the
        # graph twice: keep |E| <= ~2.5 |V| on the larger graphs so that one case stays well under a second
        p = min(p, 5.0 / (n - 1))
    edges = [(perm[i], perm[j]) for i in range(n) for j in range(i + 1, n) if rng.random() < p]
    if parallel and edges:
        edges += [rng.choice(edges) for _ in range(rng.randint(1, 3))]
    rng.shuffle(edges)
    node_order = list(range(n))
    rng.shuffle(node_order)
    style = rng.choice(["ops", "init", "add_node", "mixed"])
    if style == "mixed":
        # some nodes appear first as children (dict order by first mention), the rest are added later
        first = node_order[: rng.randint(0, n)]
        ops = [{"op": "add_node", "n": u, "cs": []} for u in first]
        seen = set(first)
        for u, v in edges:
            if u not in seen:
                ops.append({"op": "add_node", "n": u, "cs": []})
                seen.add(u)
            ops.append({"op": "add_child", "n": u, "c": v})
            seen.add(v)
        ops += [{"op": "add_node", "n": u, "cs": []} for u in node_order if u not in seen]
    else:
        ops = build_ops(n, edges, style, node_order)
    wm = rng.choice([("small", "wide"), ("ones", "small"), ("wide", "zeros"), ("small", "neg")])
    ops.append(query_op(rng, range(n), n, full=(n <= 6), max_ns=(6 if n <= 15 else 2), wmodes=wm))
    return decorate(rng, {"kind": kind, "ops": ops}, range(n))


def cyclic_case(rng, kind, max_n=12):
    n = rng.randint(1, max_n)
    perm = list(range(n))
    rng.shuffle(perm)
    p = rng.choice([0.1, 0.3, 0.5])
    edges = [(perm[i], perm[j]) for i in range(n) for j in range(i + 1, n) if rng.random() < p]
    back = rng.randint(1, 3)
    for _ in range(back):
        i = rng.randrange(n)
        j = rng.randrange(i, n)
        edges.append((perm[j], perm[i]))  # back edge or self loop
    rng.shuffle(edges)
    ops = build_ops(n, edges, rng.choice(["ops", "init", "add_node"]), None)
    ops.append(query_op(rng, range(n), n, full=(n <= 5)))
    return decorate(rng, {"kind": kind, "ops": ops}, range(n), jobcost=True)


def digraph_case(rng, masks, kind):
    n = len(masks)
    ops = build_ops(n, edges_of(masks), "ops")
    ops.append(query_op(rng, range(n), n, full=True))
    return {"kind": kind, "ops": ops}


def mutation_case(rng, kind, max_label=6, steps=10):
    """Random API history including remove / re-add / add_child on a missing node;
    a snapshot and a full query after every mutation."""
    ops = []
    present: set = set()
    for _ in range(rng.randint(3, steps)):
        r = rng.random()
        if r < 0.35 or not present:
            u = rng.randrange(max_label)
            cs = [rng.randrange(max_label) for _ in range(rng.choice([0, 0, 1, 2, 3]))]
            if rng.random() < 0.7:  # keep it mostly acyclic: children have larger labels
                cs = [c for c in cs if c > u]
            ops.append({"op": "add_node", "n": u, "cs": cs})
            present |= {u, *cs}
        elif r < 0.65:
            u = rng.randrange(max_label)
            v = rng.randrange(max_label)
            if rng.random() < 0.7 and u > v:
                u, v = v, u
            ops.append({"op": "add_child", "n": u, "c": v})
            if u in present:
                present.add(v)
        elif r < 0.75 and present:
            keys = sorted(present)
            rng.shuffle(keys)
            keys = keys[: rng.randint(1, len(keys))]
            m = []
            for u in keys:
                cs = [c for c in range(max_label) if c > u and rng.random() < 0.35]
                if rng.random() < 0.15:
                    cs.append(rng.randrange(max_label))  # possibly a back edge / self loop
                rng.shuffle(cs)
                m.append([u, cs])
            ops.append({"op": "update_edges", "map": m})
            present = {u for u, _ in m} | {c for _, cs in m for c in cs}
        else:
            u = rng.choice(sorted(present)) if rng.random() < 0.85 else rng.randrange(max_label + 1)
            ops.append({"op": "remove", "n": u})
            present.discard(u)
        ops.append({"op": "snapshot"})
        ops.append(query_op(rng, sorted(present), max_label + 1, full=True, wmodes=("small",)))
    return {"kind": kind, "ops": ops}


def _mapping_of(n, edges, node_order):
    ch = {u: [] for u in node_order}
    for u, v in edges:
        ch[u].append(v)
    return [[u, ch[u]] for u in node_order]


def rewire_case(rng, masks, kind):
    """Build a DAG, query, then `update_edges` with a re-wired mapping over the same nodes
    (an edge dropped / reversed / added, keys permuted) and query again; twice."""
    n = len(masks)
    edges = edges_of(masks)
    ops = build_ops(n, edges, rng.choice(["ops", "init", "add_node"]))
    ops.append(query_op(rng, range(n), n, full=True, wmodes=("small",)))
    for _ in range(2):
        edges = list(edges)
        for _ in range(rng.randint(1, 2)):
            r = rng.random()
            if edges and r < 0.4:
                edges.pop(rng.randrange(len(edges)))
            elif edges and r < 0.75:
                i = rng.randrange(len(edges))
                u, v = edges[i]
                edges[i] = (v, u)
            elif n >= 2:
                u, v = rng.sample(range(n), 2)
                edges.append((u, v))
        rng.shuffle(edges)
        order = list(range(n))
        rng.shuffle(order)
        if rng.random() < 0.3 and n > 1:
            order = order[:-1]  # a node that is not a key survives only if it is somebody's child
            edges = [e for e in edges if e[0] in order]
        ops.append({"op": "update_edges", "map": _mapping_of(n, edges, order)})
        ops.append({"op": "snapshot"})
        ops.append(query_op(rng, range(n), n, full=True, wmodes=("small",)))
    return decorate(rng, {"kind": kind, "ops": ops}, range(n + 1), jobcost=False)


def corpus():
    """Minimised past failures / the shapes the findings live on; always run first."""

    def q(labels, absent):
        labels = list(labels)
        return {
            "op": "query",
            "ns": labels + [absent],
            "pairs": [[a, b] for a in labels for b in labels],
            "ws": [[[n, 1] for n in labels], [[n, 2 + (n % 2)] for n in labels]],
        }

    out = []
    # D1 (fixed 71bd5c0): A->[B,C], C->[B]
    for kind in ("int1", "obj", "task"):
        out.append({"kind": kind, "ops": [{"op": "init", "map": [[0, [1, 2]], [2, [1]]]}, q(range(3), 3)]})
    # D2 (fixed a5de234): skip edge from an ancestor: bfs(2) must reach 1
    out.append({"kind": "job", "ops": [{"op": "init", "map": [[0, [1, 2]], [2, [1]]]}, q(range(3), 3)]})
    # D3 (fixed ce9bde1): remove must not keep a dangling child
    out.append(
        {
            "kind": "int1",
            "ops": [{"op": "init", "map": [[0, [1, 2]], [1, [2]]]}, {"op": "remove", "n": 1}, {"op": "snapshot"}, q([0, 2], 3)],
        }
    )
    # remove + re-add (the stale parent list comes back), self loop, 2-cycle, parallel edge, empty graph
    out.append(
        {
            "kind": "str",
            "ops": [
                {"op": "init", "map": [[0, [1]], [1, [2]]]},
                {"op": "remove", "n": 1},
                {"op": "add_node", "n": 1, "cs": []},
                {"op": "snapshot"},
                q(range(3), 3),
            ],
        }
    )
    out.append({"kind": "int0", "ops": [{"op": "add_node", "n": 0, "cs": [0]}, q([0], 1)]})
    out.append({"kind": "tuple", "ops": [{"op": "init", "map": [[0, [1]], [1, [0]]]}, q(range(2), 2)]})
    out.append({"kind": "int1", "ops": [{"op": "add_node", "n": 0, "cs": [1, 1]}, {"op": "add_child", "n": 1, "c": 2}, q(range(3), 3)]})
    out.append({"kind": "int1", "ops": [q([], 0)]})
    out.append({"kind": "int1", "ops": [{"op": "add_child", "n": 0, "c": 1}, {"op": "remove", "n": 0}, q([], 0)]})
    # falsy start label with several sources (the `if node:` quirk)
    out.append({"kind": "int0", "ops": [{"op": "init", "map": [[3, [0]], [0, [1]], [2, [1]]]}, q(range(4), 4)]})
    # update_edges: drop an edge and reverse another on a live TaskGraph
    out.append(
        {
            "kind": "task",
            "ops": [
                {"op": "init", "map": [[0, [1, 2]], [1, [2]], [2, []]]},
                q(range(3), 3),
                {"op": "update_edges", "map": [[2, [1]], [0, [2]], [1, []]]},
                {"op": "snapshot"},
                q(range(3), 3),
            ],
        }
    )
    # runtimes given in mixed units: 2 ms next to 900 us / 3 us (raw numbers order the paths wrongly)
    out.append(
        {
            "kind": "job",
            "rt": [[0, 1], [1, 2000], [2, 900], [3, 3]],
            "unit": [[1, "ms"]],
            "live": [0, 1, 2, 3],
            "slo": [],
            "ops": [
                {"op": "init", "map": [[0, [1, 2]], [1, [3]], [2, [3]]]},
                q(range(4), 4),
                {"op": "jobcost", "which": "cpr", "rt": [[0, 1], [1, 2000], [2, 900], [3, 3]], "live": [0, 1, 2, 3], "cost": [[0, 1], [1, 2000], [2, 900], [3, 3]]},
                {"op": "jobcost", "which": "ct", "rt": [[0, 1], [1, 2000], [2, 900], [3, 3]], "live": [0, 1, 2, 3], "cost": [[0, 1], [1, 2000], [2, 900], [3, 3]]},
            ],
        }
    )
    # equal-weight ties, multiple sources, skip edges
    out.append({"kind": "obj", "ops": [{"op": "init", "map": [[0, [2]], [1, [2]], [2, [3, 4]], [3, [4]], [5, []]]}, q(range(6), 6)]})
    return out


def shrink_variants(case):
    """Smaller relatives of a case: drop one mutating op at a time."""
    ops = case["ops"]
    for i, op in enumerate(ops):
        if op["op"] in ("add_node", "add_child", "remove", "update_edges"):
            c = dict(case)
            c["ops"] = ops[:i] + ops[i + 1 :]
            yield c
        elif op["op"] == "init" and len(op["map"]) > 1:
            for j in range(len(op["map"])):
                c = dict(case)
                m = op["map"][:j] + op["map"][j + 1 :]
                c["ops"] = ops[:i] + [{"op": "init", "map": m}] + ops[i + 1 :]
                yield c
