"""End-to-end suite shared by C01, C02, C03, C05, C08 (and the simulator-level
clauses of C04 / C06 / C07 / C18): generated worlds are run through the REAL
simulator under a recording policy and replayed by the Lean simulator model; the
complete CSV row streams, the outcome and the final task states are compared, and
model-independent oracles are evaluated on the implementation's own observations."""
from __future__ import annotations

import json
import math

from harness import common
from harness.gen import sim_gen

MAXSIZE = 9223372036854775807
DONE = ("COMPLETED", "EVICTED")
PLANNER_POLICIES = ("ILP", "TetriSchedGurobi", "TetriSchedCPLEX")


def join(rows):
    return [",".join(r) for r in rows]


def _execute_world(job):
    from harness.impl import sim_impl

    world, seed = job
    try:
        case, obs = sim_impl.Run(world, seed=seed).execute()
    except Exception as e:  # keep the origin of the exception across the process boundary
        import os
        import traceback

        frames = traceback.extract_tb(e.__traceback__)
        repo = str(common.REPO.resolve())
        inner = frames[-1] if frames else None
        in_repo = bool(inner) and os.path.realpath(inner.filename).startswith(repo + os.sep)
        return {"world": world, "seed": seed, "harness_exc": {
            "type": type(e).__name__, "repr": repr(e)[:300], "in_repo": in_repo,
            "where": f"{os.path.relpath(os.path.realpath(inner.filename), repo)}:{inner.lineno} in {inner.name}" if in_repo else (f"{inner.filename}:{inner.lineno}" if inner else "?"),
            "traceback": traceback.format_exc()[-3000:]}}
    return {"world": world, "seed": seed, "case": case, "obs": obs}


def run_worlds(chk, prop, n, streams=("regular",), seed_tag="e2e"):
    """Generate n worlds (deterministically from the seed) and run each through the real simulator; the runs are
    independent and are spread over worker processes."""
    import multiprocessing as mp
    import os

    from harness.impl import sim_impl  # noqa: F401  (imports the repository before forking)

    rng = common.Rng(chk.seed, f"{seed_tag}")
    jobs = []
    # minimised past failures run first (harness/corpus/e2e/*.json: {"world", "seed"})
    cdir = os.path.join(os.path.dirname(os.path.dirname(os.path.abspath(__file__))), "corpus", "e2e")
    if os.path.isdir(cdir):
        for fn in sorted(os.listdir(cdir)):
            if fn.endswith(".json"):
                c = json.load(open(os.path.join(cdir, fn)))
                if c.get("props") and prop not in c["props"]:
                    continue   # a world kept for one property only (it leaves the scope of the others)
                c["world"].setdefault("stream", "corpus")
                jobs.append((c["world"], c["seed"]))
    for i in range(n):
        stream = streams[i % len(streams)]
        jobs.append((sim_gen.gen_world(rng, stream), chk.seed * 100003 + i))
    procs = int(os.environ.get("VERIF_E2E_PROCS", "0")) or min(8, max(1, (os.cpu_count() or 2) // 2))
    if procs <= 1 or n < 32:
        out = [_execute_world(j) for j in jobs]
    else:
        with mp.get_context("fork").Pool(procs) as pool:
            out = pool.map(_execute_world, jobs, chunksize=max(1, n // (procs * 8)))
    bad = [r for r in out if "harness_exc" in r]
    if bad:
        x = bad[0]["harness_exc"]
        if x["in_repo"]:
            # the implementation raised while the world was being BUILT (loaders, constructors): on the unchanged
            # tree it does not, so model and implementation no longer agree on this input
            raise common.CorrespondenceBroken(
                f"the implementation raised {x['type']} at {x['where']} while {len(bad)} generated world(s) were set up, where the harness (and the model) expect it to return",
                {"world": bad[0]["world"], "seed": bad[0]["seed"], "exception": x["repr"], "traceback": x["traceback"]})
        raise RuntimeError(f"harness failure in a worker process: {x['repr']}\n{x['traceback']}")
    return out


def compare(runs):
    """Returns list of (index, description) where model and implementation differ."""
    try:
        replies = common.run_driver([r["case"] for r in runs])
    except common.LeanFailure as e:
        return None, f"driver: {e.what}"
    dis = []
    for i, (r, rep) in enumerate(zip(runs, replies)):
        obs = r["obs"]
        if r["case"].get("unobservable"):
            dis.append((i, f"the harness can no longer observe {r['case']['unobservable']} (input of the model)"))
            continue
        if "rows" not in rep:
            dis.append((i, f"driver: {json.dumps(rep)[:200]}"))
            continue
        a, b = join(obs["rows"]), join(rep["rows"])
        r["model_rows"] = len(b)
        if obs["err"] == "Watchdog":
            # the run was cut by the harness: the model must agree on everything the run produced
            m = min(len(a), len(b))
            if a[:m] != b[:m]:
                k = next(j for j in range(m) if a[j] != b[j])
                dis.append((i, f"row {k}: impl {a[k]!r} != model {b[k]!r} (watchdog run)"))
            continue
        if rep.get("err") == "NotImplementedError" and len(b) <= len(a) and a[: len(b)] == b and any(
            x.split(",")[1:2] in (["TASK_PREEMPT"], ["TASK_MIGRATION"]) for x in a[len(b):]
        ):
            # the implementation entered its preemption / migration code (a decision for a task that is already
            # running): outside the simulator model, which stops with its explicit out-of-scope outcome; everything
            # up to that point agrees
            r["out_of_scope"] = "preemption/migration"
            continue
        if a != b:
            k = next((j for j in range(min(len(a), len(b))) if a[j] != b[j]), min(len(a), len(b)))
            dis.append((i, f"row {k}: impl {a[k] if k < len(a) else None!r} != model {b[k] if k < len(b) else None!r}"))
        elif obs["err"] != rep["err"]:
            dis.append((i, f"outcome: impl {obs['err']} != model {rep['err']}"))
        elif obs["final"] != rep["final"]:
            dis.append((i, "final task states differ"))
        elif obs["err"] is None and (rep.get("tape_left") or rep.get("decisions_left")):
            dis.append((i, f"model left tape={rep.get('tape_left')} decisions={rep.get('decisions_left')} unconsumed"))
    return dis, None


# --------------------------------------------------------------------------
# oracles on the implementation's observations
# --------------------------------------------------------------------------


def strategy_runtime_of(world_case, t, decisions_by_task):
    return decisions_by_task.get(t)


def _placed_then_unplaced(decision):
    """One scheduler answer holds a placed PLACE_TASK decision of a task and, later, an unplaced one of the same task."""
    placed = set()
    for p in decision.get("placements", []):
        if p.get("kind") != "place":
            continue
        k = (p.get("g"), p.get("t"))
        if p.get("pool") is not None:
            placed.add(k)
        elif k in placed:
            return True
    return False


def oracle(prop, run):
    """Yields (signature, detail)."""
    obs, world, case = run["obs"], run["world"], run["case"]
    mon, tasks, rows = obs["mon"], obs["tasks"], obs["rows"]
    flags = world["flags"]
    # whether a task is the join (terminal) of a conditional / a conditional is what the workload DESCRIPTION says,
    # not what the loaded objects claim
    desc_flags = {(g["name"], n["name"]): (bool(n.get("terminal", False)), bool(n.get("conditional", False))) for g in world["workload"]["graphs"] for n in g["graph"]}
    tasks = {lab: dict(t) for lab, t in tasks.items()}
    for lab, t in tasks.items():
        key = (str(t["graph"]).split("@")[0], t["name"])
        if key in desc_flags:
            t["loaded_terminal"], t["loaded_conditional"] = t["terminal"], t["conditional"]
            t["terminal"], t["conditional"] = desc_flags[key]
    if prop in ("C02", "C06", "C07"):
        # these properties are stated in terms of joins and conditionals: a task object that claims another role than
        # the description gives it makes the simulator treat it by the wrong rule (release, readiness, cancellation)
        for lab, t in tasks.items():
            if "loaded_terminal" in t and (t["loaded_terminal"], t["loaded_conditional"]) != (t["terminal"], t["conditional"]):
                yield (f"{prop} task-role-differs-from-the-description terminal={t['loaded_terminal']}/{t['terminal']} conditional={t['loaded_conditional']}/{t['conditional']}", {"task": lab, "name": t["name"], "graph": t["graph"]})
                break
    variance = flags["runtime_variance"]
    zero_rt = any(s["runtime"] == 0 for p in world["workload"]["profiles"] for s in p["execution_strategies"])
    starts, finishes = {}, {}
    for e in mon:
        if e["ev"] == "start":
            starts.setdefault(e["t"], []).append(e)
        elif e["ev"] == "finish":
            finishes.setdefault(e["t"], []).append(e)
    # decided strategy runtime per (task, decision) from the TASK_PLACEMENT rows
    placed_rt = {}
    for r in rows:
        if len(r) > 7 and r[1] == "TASK_PLACEMENT":
            placed_rt.setdefault(r[5], []).append((int(r[0]), int(r[7])))
    not_ready = {}
    for r in rows:
        if len(r) > 4 and r[1] in ("TASK_NOT_READY", "WORKER_NOT_READY"):
            not_ready.setdefault(r[4], []).append(int(r[0]))

    if prop in ("C01", "C04"):
        # "the worker's configured capacity" is what the topology file says, not what the loaded object claims
        for pi, (pj, pc) in enumerate(zip(world["workers"], case["pools"])):
            for wi, (wj, wc) in enumerate(zip(pj["workers"], pc["workers"])):
                want = sorted((r["name"].split(":")[0], int(r["name"].split(":")[1][2:]), r["quantity"]) for r in wj["resources"])
                got = sorted((n, i, q) for n, i, q in wc)
                if want != got:
                    yield (f"{prop} worker-capacity-differs-from-the-topology-file", {"pool": pi, "worker": wi, "configured": want, "loaded": got})
            if len(pj["workers"]) != len(pc["workers"]):
                yield (f"{prop} worker-capacity-differs-from-the-topology-file", {"pool": pi, "workers_configured": len(pj["workers"]), "loaded": len(pc["workers"])})
        if len(world["workers"]) != len(case["pools"]):
            yield (f"{prop} worker-capacity-differs-from-the-topology-file", {"pools_configured": len(world["workers"]), "loaded": len(case["pools"])})
        for e in mon:
            if e["ev"] == "place":
                if not e["ok"]:
                    yield (f"{prop} resident-demand-exceeds-capacity", {"event": e})
                if e["elsewhere"]:
                    yield (f"{prop} task-resident-on-two-workers", {"event": e})
            if e["ev"] == "remove" and e["idle"] and e["avail"] != e["capacity"]:
                yield (f"{prop} idle-worker-not-at-full-capacity", {"event": e})
    if prop == "C02":
        # whether a node is the join of a conditional is what the workload description says
        desc_terminal = {(g["name"], n["name"]): bool(n.get("terminal", False)) for g in world["workload"]["graphs"] for n in g["graph"]}
        for t, evs in starts.items():
            tk = tasks.get(t)
            if tk is not None:
                key = (tk["graph"].split("@")[0], tk["name"])
                for e in evs:
                    e["terminal"] = desc_terminal.get(key, e["terminal"])
        released_idx = {}
        for k, e in enumerate(mon):
            if e["ev"] == "release":
                released_idx.setdefault(e["t"], k)
        start_idx = {}
        for k, e in enumerate(mon):
            if e["ev"] == "start":
                start_idx.setdefault(e["t"], k)
        for t, k in start_idx.items():
            # "tasks start only after release": Task.release() must have been called on the task before Task.start()
            if released_idx.get(t, len(mon)) > k:
                yield ("C02 started-without-having-been-released", {"task": t, "start": mon[k]})
                break
        for t, evs in starts.items():
            if len(evs) > 1:
                yield ("C02 task-started-twice", {"task": t, "times": [e["time"] for e in evs]})
            for e in evs:
                if e["time"] < e["release"]:
                    yield ("C02 started-before-release", {"event": e})
                if e.get("intended", -1) >= 0 and e["time"] < e["intended"]:
                    # `release(time)` overwrites the release time: the time given at construction is the ground truth
                    yield ("C02 started-before-intended-release-time", {"event": e})
                done = [p for p in e["parents"] if p[1] in DONE and p[2] is not None and p[2] <= e["time"]]
                if e["terminal"]:
                    if e["parents"] and not done:
                        yield ("C02 join-started-before-any-parent-finished", {"event": e})
                    else:
                        live = [p for p in e["parents"] if p[1] not in DONE and p[1] != "CANCELLED"]
                        if live:
                            # the taken branch forks and re-joins only at the join: siblings still pending
                            yield ("C02 join-started-before-taken-branch-complete", {"event": e, "pending_parents": live})
                elif len(done) != len(e["parents"]):
                    yield ("C02 started-before-all-parents-finished", {"event": e})
        for t, evs in finishes.items():
            if len(evs) > 1:
                yield ("C02 task-finished-twice", {"task": t})
        for e in mon:
            if e["ev"] == "release" and e.get("intended", -1) >= 0 and e["time"] is not None and 0 <= e["time"] < e["intended"]:
                yield ("C02 released-before-intended-release-time", {"event": e})
        if obs["err"] is None:
            for di, d in enumerate(case["decisions"]):
                pass  # past placements abort the run with ValueError (checked by the correspondence)
    if prop == "C03":
        last = None
        for r in rows:
            if r[1] in ("WORKER_POOL",):
                continue
            tm = int(r[0])
            if last is not None and tm < last:
                yield ("C03 trace-time-goes-backwards", {"row": r, "previous": last})
            last = tm
        # events take effect in time order with finishes before placements at one instant: a task that has been
        # running since before T and completes at T is reported finished before any placement at T is attempted
        pending_at = {}
        for r in rows:
            if len(r) > 4 and r[1] in ("TASK_NOT_READY", "WORKER_NOT_READY"):
                pending_at.setdefault(int(r[0]), []).append(r)
            elif len(r) > 7 and r[1] == "TASK_FINISHED" and int(r[0]) in pending_at:
                ft = tasks.get(r[7])
                if ft and ft["start"] is not None and ft["start"] < int(r[0]):
                    yield ("C03 start-deferred-before-a-simultaneous-finish-was-handled", {"deferred": pending_at[int(r[0])][0], "finish": r})
                    break
        # "starts exactly then whenever ... the chosen pool can hold it": a start is deferred with WORKER_NOT_READY
        # although the pool certainly can hold the chosen strategy (it demands nothing, or it is a batch that is
        # already resident on a worker of that pool and is not full)
        last_dec = {}
        di = 0
        resident = {}   # (pool, worker) -> {batch id: set(tasks)}
        events = sorted(
            [(int(r[0]), 1, ("row", r)) for r in rows if len(r) > 5 and r[1] == "WORKER_NOT_READY"]
            + [(e["now"], 0, ("mon", e)) for e in mon if e["ev"] in ("place", "remove") and e.get("now") is not None],
            key=lambda x: (x[0], x[1]),
        )
        dec_at = []
        srows = [int(r[0]) for r in rows if r[1] == "SCHEDULER_FINISHED"]
        for tm, d in zip(srows, case["decisions"]):
            dec_at.append((tm, d))
        for tm, _k, (kind, x) in events:
            while di < len(dec_at) and dec_at[di][0] <= tm:
                for p_ in dec_at[di][1]["placements"]:
                    if p_["kind"] == "place" and p_.get("strat") is not None:
                        last_dec[f"g{p_['g']}.t{p_['t']}"] = p_
                di += 1
            if kind == "mon":
                key = tuple(x["w"])
                if x["ev"] == "place" and x.get("batch"):
                    resident.setdefault(key, {}).setdefault(x["batch"], set()).add(x["t"])
                elif x["ev"] == "remove":
                    for b in resident.get(key, {}).values():
                        b.discard(x["t"])
            else:
                lab, pool = x[4], x[5]
                p_ = last_dec.get(lab)
                if not p_ or p_.get("pool") is None or f"p{p_['pool']}" != pool:
                    continue
                if any(tm2 == tm and any(q_["kind"] == "place" and f"g{q_.get('g')}.t{q_.get('t')}" == lab for q_ in d2["placements"]) for tm2, d2 in dec_at):
                    continue   # re-decided at this very instant: which decision the deferred event carried is ambiguous
                st = p_["strat"]
                if sum(q for _n, _i, q in st["req"]) == 0 and not st["batch"]:
                    yield ("C03 start-deferred-although-the-strategy-demands-nothing", {"row": x, "strategy": st})
                    break
                if st["batch"] and st.get("bid"):
                    for (pi, wi), bs in resident.items():
                        if pi == p_["pool"] and st["bid"] in bs and 0 < len(bs[st["bid"]]) < st["bs"] and (p_.get("worker") in (None, wi)):
                            yield ("C03 start-deferred-although-its-batch-is-resident-and-not-full", {"row": x, "worker": [pi, wi], "members": sorted(bs[st["bid"]])})
                            break
        for t, evs in starts.items():
            e = evs[0]
            rts = placed_rt.get(t, [])
            if rts:
                rt = rts[0][1]
                hi = math.ceil(rt * (1 + variance / 100.0))
                if not (rt <= e["remaining"] <= hi) and not (rt == 0):
                    yield (f"C03 fuzzed-runtime-outside-bounds variance={variance}", {"event": e, "runtime": rt})
            fin = finishes.get(t)
            if fin and fin[0]["state"] == "COMPLETED":
                if fin[0]["completion"] != e["time"] + e["remaining"]:
                    yield ("C03 completion-not-start-plus-runtime", {"start": e, "finish": fin[0]})
                rem = [m for m in mon if m["ev"] == "remove" and m["t"] == t]
                if not rem or rem[0]["now"] != fin[0]["completion"]:
                    yield ("C03 resources-not-held-until-completion", {"task": t, "remove": rem[:1], "finish": fin[0]})
            if e["ptime"] is not None:
                if e["time"] < e["ptime"]:
                    yield ("C03 started-before-chosen-time", {"event": e})
                if e["time"] > e["ptime"]:
                    waits = [x for x in not_ready.get(t, []) if e["ptime"] <= x < e["time"]]
                    if not waits:
                        yield ("C03 start-delayed-without-reason", {"event": e})
    if prop == "C05":
        lost = sorted({e["t"] for e in mon if e["ev"] in ("release", "transition") and str(e["t"]).startswith("?")})
        if lost:
            # the simulator released a task that no task graph of the workload contains: no policy will ever be offered it
            yield ("C05 released-task-unknown-to-the-workload", {"tasks": lost[:5]})
        if obs["err"] not in (None, "Watchdog"):
            msg = str(obs.get("exc") or "")
            multi = any(t["terminal"] and sum(1 for p in t["parents"] if tasks[p]["state"] != "CANCELLED") >= 2 for t in tasks.values())
            if "sum of the probability" in msg:
                cause = "branch-head-cancelled-before-its-conditional-completed"
            elif multi and ("cannot be released from state" in msg or "moved beyond SCHEDULED state" in msg):
                cause = "join-with-several-parents-on-the-taken-branch"
            elif "occurred in the past" in msg:
                cause = "placement-in-the-past"
            elif "Rescheduling of PREEMPTED tasks" in msg and any(len(r) > 2 and r[1] == "SCHEDULER_FINISHED" and int(r[2]) > 0 for r in rows[-40:]):
                # the decision of a time-consuming invocation arrives for a task that is no longer waiting
                cause = "decision-for-a-task-that-moved-on-during-the-scheduler-invocation"
            elif "cannot step backwards" in msg and any(
                len(r) > 2 and r[1] == "SCHEDULER_FINISHED" and int(r[2]) > 0 and int(r[0]) > flags["loop_timeout"] >= int(r[0]) - int(r[2]) for r in rows
            ):
                # a scheduler invocation that takes simulated time started before the loop timeout and finished after it
                cause = "scheduler-invocation-spans-the-loop-timeout"
            elif "Trying to allocate more than" in msg and any(
                len({k.split(":")[0] for k in st["resource_requirements"]}) < len(st["resource_requirements"])
                for p_ in world["workload"]["profiles"] for st in p_["execution_strategies"]
            ):
                cause = "strategy-with-overlapping-requirement-entries-refused-after-the-fit-check"
            elif "list.remove(x): x not in list" in msg and not flags["drop_skipped_tasks"] and any(
                _placed_then_unplaced(d) for d in case.get("decisions", [])
            ):
                # one answer places a task and, further down, leaves the same task unplaced: the skip path removes the
                # cached TASK_PLACEMENT event from the queue although it is still pending in `__handle_scheduler_finish`
                cause = "task-left-unplaced-after-being-placed-in-the-same-answer"
            else:
                cause = "unclassified"
            yield (f"C05 run-aborted exc={obs['err']} cause={cause}", {"exc": obs.get("exc")})
        if obs["err"] == "Watchdog":
            if obs["max_zero_steps"] > 400:
                yield (f"C05 zero-length-step-livelock zero-runtime-strategy={zero_rt}", {"watchdog": obs["watchdog"]})
            # a run that keeps advancing but needs more steps than the harness allows is not a violation
        elif obs["err"] is None:
            end = [r for r in rows if r[1] == "SIMULATOR_END"]
            if len(end) != 1:
                yield ("C05 no-single-end-row", {"n": len(end)})
            elif int(end[0][0]) > flags["loop_timeout"]:
                yield ("C05 ended-after-loop-timeout", {"end": end[0]})
            else:
                endt = int(end[0][0])
                pol = world["policy"]
                greedy = pol["name"] in ("EDF", "FIFO", "LSF") and not pol.get("enforce_deadlines")
                fits = all(t["fits_empty"] for t in tasks.values())
                if endt < flags["loop_timeout"]:
                    for lab, t in tasks.items():
                        if t["state"] == "RELEASED" and t["release"] <= endt and t["fits_empty"]:
                            yield ("C05 ended-while-runnable-work-remains", {"task": lab, "end": endt})
                            break
                # liveness of the scheduler: a task that was released and is still waiting at the end must have been
                # offered at least once, i.e. the scheduler ran at or after its release (unless the run ended first)
                starts_at = [int(r[0]) for r in rows if r[1] == "SCHEDULER_START"]
                slack = max(flags["scheduler_frequency"], 1) + flags["scheduler_delay"] + 2
                for lab, t in tasks.items():
                    if t["state"] == "RELEASED" and t["fits_empty"] and t["release"] is not None and 0 <= t["release"] and endt - t["release"] > slack:
                        if not any(x >= t["release"] for x in starts_at):
                            if flags.get("scheduler_run_at_worker_free") and any(
                                o_["start"] is not None and o_["start"] >= 0 and (o_["completion"] is None or o_["completion"] < 0 or o_["completion"] + flags["scheduler_delay"] + 1 >= endt)
                                and o_["state"] in ("RUNNING", "COMPLETED") for o_ in tasks.values()
                            ):
                                # with run-at-worker-free the scheduler waits for the earliest completion (+ delay + 1);
                                # work was in flight whose completion lies at / after the end of the run: nothing is owed
                                continue
                            # was the task released while a (time-consuming) scheduler invocation was under way?
                            during = any(len(r) > 2 and r[1] == "SCHEDULER_FINISHED" and int(r[2]) > 0 and int(r[0]) - int(r[2]) < t["release"] <= int(r[0]) for r in rows)
                            yield ("C05 scheduler-never-ran-after-a-task-was-released" + (" released-during-a-scheduler-invocation" if during else ""),
                                   {"task": lab, "released": t["release"], "end": endt, "last_scheduler_start": max(starts_at, default=None)})
                            break
                if greedy and fits and not zero_rt and flags["loop_timeout"] == MAXSIZE:
                    bad = [lab for lab, t in tasks.items() if t["state"] not in ("COMPLETED", "CANCELLED")]
                    if bad:
                        yield (f"C05 work-conserving-run-left-tasks-unfinished policy={pol['name']}", {"tasks": bad[:5]})
    ended_idle = obs["err"] is None and bool([r for r in rows if r[1] == "SIMULATOR_END" and int(r[0]) < flags["loop_timeout"]])
    if prop == "C06":
        LEGAL = {("VIRTUAL", "RELEASED"), ("RELEASED", "SCHEDULED"), ("VIRTUAL", "SCHEDULED"), ("SCHEDULED", "RUNNING"), ("RUNNING", "COMPLETED"),
                 ("SCHEDULED", "VIRTUAL"), ("SCHEDULED", "RELEASED"), ("VIRTUAL", "CANCELLED"), ("RELEASED", "CANCELLED"), ("SCHEDULED", "CANCELLED")}
        last = {}
        before_sched = {}
        for e in mon:
            if e["ev"] == "transition" and e["via"] == "schedule" and e["pre"] != "SCHEDULED":
                before_sched[e["t"]] = e["pre"]
            if e["ev"] == "transition" and e["via"] == "unschedule" and e["pre"] == "SCHEDULED" and e["t"] in before_sched:
                # "may fall back from SCHEDULED to its earlier state": the state it was scheduled from
                want = before_sched[e["t"]]
                if e["post"] in ("RELEASED", "VIRTUAL") and e["post"] != want:
                    yield (f"C06 unschedule-falls-back-to-{e['post']}-instead-of-the-earlier-state-{want}", {"event": e})
            if e["ev"] == "noop_call":
                yield (f"C06 lifecycle-call-returned-without-changing-the-state via={e['via']} state={e['state']}", {"event": e})
            if e["ev"] != "transition":
                continue
            if (e["pre"], e["post"]) not in LEGAL:
                yield (f"C06 illegal-transition {e['pre']}->{e['post']} via={e['via']}", {"event": e})
            if e["t"] in last and last[e["t"]] != e["pre"]:
                yield ("C06 state-changed-outside-the-task-api", {"event": e, "expected_pre": last[e["t"]]})
            last[e["t"]] = e["post"]
        for lab, t in tasks.items():
            if lab in last and last[lab] != t["state"]:
                yield ("C06 state-changed-outside-the-task-api", {"task": lab, "last_seen": last[lab], "final": t["state"]})
        if ended_idle:
            cancel_rows = {r[4] for r in rows if len(r) > 4 and r[1] == "TASK_CANCEL"}
            for lab, t in tasks.items():
                if t["state"] == "CANCELLED":
                    if lab not in cancel_rows:
                        yield ("C06 cancelled-task-not-reported", {"task": lab})
                    for c in t["children"]:
                        ct = tasks[c]
                        doomed = (not ct["terminal"]) or all(tasks[q]["state"] == "CANCELLED" for q in ct["parents"])
                        if doomed and ct["state"] != "CANCELLED":
                            yield ("C06 descendant-of-cancelled-task-not-cancelled", {"task": lab, "child": c, "child_state": ct["state"]})
            fin_rows = {r[2] for r in rows if r[1] == "TASK_GRAPH_FINISHED"}
            for g in obs["graphs"]:
                sinks_done = bool(g["sinks"]) and all(tasks[x]["state"] == "COMPLETED" for x in g["sinks"])
                if sinks_done != (g["name"] in fin_rows):
                    yield ("C06 graph-finished-row-iff-all-sinks-completed-broken", {"graph": g["name"], "sinks_completed": sinks_done})
    if prop == "C07" and flags.get("resolve_conditionals_at_submission"):
        # resolved at submission: every conditional that can run has exactly one child with probability 1, the
        # others 0, from the moment the task graph exists; and that child is the branch that runs
        sub = {}
        for gi, g in enumerate(case["graphs"]):
            for ti, t in enumerate(g["graph"]["tasks"]):
                sub[f"g{gi}.t{ti}"] = t["prob"]
        for lab, t in tasks.items():
            if not t["conditional"] or not t["children"] or lab not in sub or sub[lab] <= 0:
                continue
            kp = [sub.get(c) for c in t["children"]]
            if None in kp:
                continue
            on_taken_path = all(sub.get(q, 0) > 0 or tasks[q]["terminal"] for q in t["parents"]) or not t["parents"]
            if on_taken_path and sorted(kp) != [0] * (len(kp) - 1) + [1000]:
                yield ("C07 conditional-not-resolved-to-exactly-one-branch-at-submission", {"conditional": lab, "child_probabilities": kp})
            elif ended_idle and t["state"] == "COMPLETED" and 1000 in kp:
                chosen = t["children"][kp.index(1000)]
                released = sorted({e["t"] for e in mon if e["ev"] == "release" and e["t"] in t["children"]})
                fin_at = next((i for i, e in enumerate(mon) if e["ev"] == "finish" and e["t"] == lab), None)
                interfered = fin_at is None or any(e["ev"] == "transition" and e["post"] == "CANCELLED" and e["t"] in t["children"] for e in mon[:fin_at])
                if not interfered and released != [chosen]:
                    yield ("C07 branch-that-ran-is-not-the-one-resolved-at-submission", {"conditional": lab, "resolved": chosen, "released": released})
    if prop == "C07" and ended_idle:
        for lab, t in tasks.items():
            if t["conditional"] and t["state"] == "COMPLETED" and t["children"]:
                kids = [tasks[c] for c in t["children"]]
                fin_at = next((i for i, e in enumerate(mon) if e["ev"] == "finish" and e["t"] == lab), None)
                if fin_at is None or any(e["ev"] == "transition" and e["post"] == "CANCELLED" and e["t"] in t["children"] for e in mon[:fin_at]):
                    continue  # a policy cancelled a branch head before the conditional completed (its probability becomes 0)
                # the branch taken = the children released (a policy may cancel it again later)
                live = sorted({e["t"] for e in mon if e["ev"] == "release" and e["t"] in t["children"]})
                if all(k["job_probability"] <= 0 for k in kids):
                    if live:
                        yield ("C07 child-released-with-all-zero-probabilities", {"conditional": lab, "live": live})
                    continue
                if len(live) != 1:
                    yield ("C07 not-exactly-one-branch-taken", {"conditional": lab, "live": live})
                elif tasks[live[0]]["job_probability"] <= 0:
                    yield (f"C07 zero-probability-branch-taken resolved-at-submission={bool(flags.get('resolve_conditionals_at_submission'))}", {"conditional": lab, "child": live[0]})
        for t_, evs in starts.items():
            if tasks.get(t_, {}).get("state") == "CANCELLED":
                yield ("C07 cancelled-task-was-started", {"task": t_})
        # "the join and everything after it run once the taken branch completes": a cascading cancellation stops at a
        # join unless ALL its parents are cancelled, so a join ends CANCELLED only when the policy asked for it (CANCEL
        # decision, or an unplaced task dropped with drop_skipped_tasks), when all its parents are cancelled, or when
        # its pending placement came up in a task graph that already had a cancelled sink
        asked = {f"g{p_['g']}.t{p_['t']}" for d_ in case.get("decisions", []) for p_ in d_["placements"] if p_["kind"] == "cancel"}
        if flags.get("drop_skipped_tasks"):
            # an unplaced answer (a PLACE_TASK decision without a pool) is a cancellation request with this flag
            asked |= {f"g{p_['g']}.t{p_['t']}" for d_ in case.get("decisions", []) for p_ in d_["placements"] if p_["kind"] == "place" and p_.get("pool") is None}
        for lab, t in tasks.items():
            if not (t["terminal"] and t["state"] == "CANCELLED" and t["parents"]) or lab in asked:
                continue
            if all(tasks[q]["state"] == "CANCELLED" for q in t["parents"]):
                continue
            below = set()
            stack = [lab]
            while stack:
                x = stack.pop()
                if x not in below:
                    below.add(x)
                    stack.extend(tasks[x]["children"])
            other_sink_cancelled = any(
                g["name"] == t["graph"] and any(sk not in below and tasks[sk]["state"] == "CANCELLED" for sk in g["sinks"]) for g in obs["graphs"]
            )
            if not other_sink_cancelled:
                yield ("C07 join-cancelled-although-a-parent-was-not-cancelled-and-nobody-asked", {"join": lab, "parents": [(q, tasks[q]["state"]) for q in t["parents"]]})
                break
    if prop == "C19" and obs["err"] in (None, "Watchdog"):
        # closed-loop release: never more than `concurrency` task graphs of the job in flight, never more than
        # `invocations` in total; a follow-up is released only after an earlier graph has finished or was cancelled
        fin_at = {r[2]: int(r[0]) for r in rows if r[1] == "TASK_GRAPH_FINISHED"}
        cancel_at = {}
        for r in rows:
            if len(r) > 5 and r[1] == "TASK_CANCEL":
                cancel_at.setdefault(r[5], int(r[0]))   # first cancellation seen in the graph
        for gdesc in world["workload"]["graphs"]:
            if gdesc["release_policy"] != "closed_loop":
                continue
            conc, inv = gdesc["concurrency"], gdesc["invocations"]
            mine = []
            for g in obs["graphs"]:
                if g["name"].split("@")[0] != gdesc["name"]:
                    continue
                rel = [t["release"] for t in tasks.values() if t["graph"] == g["name"] and t["release"] is not None and t["release"] >= 0 and t["state"] != "VIRTUAL"]
                first_mon = [e["time"] for e in mon if e["ev"] == "release" and tasks.get(e["t"], {}).get("graph") == g["name"] and e["time"] is not None]
                if not rel and not first_mon:
                    continue
                start = min(first_mon) if first_mon else min(rel)
                if g["complete"] and g["name"] in fin_at:
                    end = fin_at[g["name"]]
                elif g["cancelled"] and g["name"] in cancel_at:
                    end = cancel_at[g["name"]]   # earliest possible end: generous to the implementation
                else:
                    end = None
                mine.append((start, end, g["name"]))
            if len(mine) > inv:
                yield ("C19 closed-loop-released-more-task-graphs-than-invocations", {"job": gdesc["name"], "released": len(mine), "invocations": inv})
            for s0, _e0, nm in mine:
                inflight = [n2 for s2, e2, n2 in mine if s2 <= s0 and (e2 is None or e2 >= s0)]
                if len(inflight) > conc:
                    yield ("C19 closed-loop-more-task-graphs-in-flight-than-concurrency", {"job": gdesc["name"], "at": s0, "in_flight": inflight, "concurrency": conc})
                    break
    if prop == "C16":
        last = None
        for e in mon:
            if e["ev"] != "pop":
                continue
            if e["earlier_left"]:
                yield ("C16 popped-event-is-not-the-earliest-queued", {"popped": [e["time"], e["type"]], "still_queued": e["earlier_left"]})
                break
            if last is not None and e["time"] < last:
                yield ("C16 pop-times-decrease", {"popped": [e["time"], e["type"]], "previous": last})
                break
            last = e["time"]
    if prop == "C18":
        for e in mon:
            if e["ev"] != "offer":
                continue
            if e["starved"]:
                yield ("C18 ready-task-not-offered", {"offer": {k: e[k] for k in ("time", "lookahead", "rtg")}, "starved": e["starved"][:5]})
            seen = set()
            for o in e["offered"]:
                if o["t"] in seen:
                    yield ("C18 task-offered-twice", {"task": o["t"], "time": e["time"]})
                seen.add(o["t"])
                if o["state"] in ("COMPLETED", "CANCELLED"):
                    yield (f"C18 {o['state'].lower()}-task-offered", {"task": o["t"], "time": e["time"]})
                if o["state"] == "RUNNING" and not e["preemption"]:
                    yield ("C18 running-task-offered-without-preemption", {"task": o["t"], "time": e["time"]})
                if o["state"] == "SCHEDULED" and not e["retract"] and not e["preemption"]:
                    yield ("C18 scheduled-task-offered-without-retraction", {"task": o["t"], "time": e["time"]})
                # a policy that does not plan ahead (no lookahead, no release_taskgraphs) never sees a task whose
                # predecessors have not all completed (a join: at least one); zero-length live tasks complete "now"
                plans_ahead = world["policy"]["name"] not in ("EDF", "FIFO", "LSF")  # the random policy places in the future
                if not plans_ahead and e["lookahead"] == 0 and not e["rtg"] and not e["zero_remaining_live_task"] and o["state"] in ("VIRTUAL", "RELEASED"):
                    done = [q for q in o["parents"] if q[1] in DONE]
                    ok = (not o["parents"]) or (bool(done) if o["terminal"] else len(done) == len(o["parents"]))
                    if not ok:
                        yield ("C18 task-offered-before-its-predecessors-completed", {"task": o, "time": e["time"]})
    if prop in ("C10", "C11", "C12") and world["policy"]["name"] in PLANNER_POLICIES:
        yield from planner_run_oracle(prop, run, starts, finishes, not_ready_rows(rows))
    if prop == "C08" and obs["err"] is None:
        end = [r for r in rows if r[1] == "SIMULATOR_END"]
        if end:
            e = end[0]
            fin = sum(1 for t in tasks.values() if t["state"] in DONE)
            can = sum(1 for t in tasks.values() if t["state"] == "CANCELLED")
            miss = sum(1 for t in tasks.values() if t["state"] in DONE and t["completion"] > t["deadline"])
            gfin = sum(1 for g in obs["graphs"] if g["complete"])
            gcan = sum(1 for g in obs["graphs"] if g["cancelled"])
            gmiss = 0
            for g in obs["graphs"]:
                if g["complete"]:
                    comp = max(tasks[s]["completion"] for s in g["sinks"]) if g["sinks"] else 0
                    if comp > g["deadline"]:
                        gmiss += 1
            got = list(map(int, e[2:8]))
            exp = [fin, can, miss, gfin, gcan, gmiss]
            names = ["finished_tasks", "cancelled_tasks", "missed_task_deadlines", "finished_graphs", "cancelled_graphs", "missed_graph_deadlines"]
            for nm, a, b in zip(names, got, exp):
                if a != b:
                    yield (f"C08 end-counter-wrong {nm}", {"reported": a, "actual": b})
        missed_rows = {r[5] for r in rows if r[1] == "MISSED_DEADLINE"}
        for lab, t in tasks.items():
            late = t["state"] in DONE and t["completion"] > t["deadline"]
            if late != (lab in missed_rows):
                yield ("C08 missed-deadline-row-mismatch", {"task": lab, "late": late})
        for r in rows:
            if r[1] == "TASK_FINISHED":
                t = tasks.get(r[7])
                if t and (int(r[5]) != t["completion"] or int(r[6]) != t["deadline"]):
                    yield ("C08 task-finished-row-fields-wrong", {"row": r})
            if r[1] == "TASK_RELEASE":
                t = tasks.get(r[7])
                # the row carries the release time the task had when the row was written (a task can be released
                # again later, which overwrites it): the last row must agree with the task, every row with its own time
                later = any(x[1] == "TASK_RELEASE" and x[7] == r[7] for x in rows[rows.index(r) + 1:])
                if t and ((not later and int(r[5]) != t["release"]) or int(r[5]) != int(r[0]) or int(r[6]) != t["deadline"]):
                    yield ("C08 task-release-row-fields-wrong", {"row": r})
            if r[1] == "TASK_PLACEMENT":
                t = tasks.get(r[5])
                if t and int(r[0]) != t["start"]:
                    yield ("C08 task-placement-row-time-wrong", {"row": r})
        yield from csv_reader_oracle(obs, world)
        # scheduler rows: placed / unplaced counts vs the decisions actually returned
        fin_rows = [r for r in rows if r[1] == "SCHEDULER_FINISHED"]
        for r, d in zip(fin_rows, case["decisions"]):
            placed = sum(1 for p in d["placements"] if p["kind"] == "place" and p["pool"] is not None)
            unplaced = sum(1 for p in d["placements"] if p["kind"] == "place" and p["pool"] is None)
            if int(r[3]) != placed:
                yield ("C08 scheduler-finished-placed-count-wrong", {"row": r, "placed": placed})
            if int(r[4]) != unplaced:
                yield ("C08 scheduler-finished-unplaced-count-wrong", {"row": r, "unplaced": unplaced})


def not_ready_rows(rows):
    out = {}
    for r in rows:
        if len(r) > 4 and r[1] in ("TASK_NOT_READY", "WORKER_NOT_READY"):
            out.setdefault(r[4], []).append((int(r[0]), r[1]))
    return out


def standing_decisions(run):
    """Walk the observations in program order.  Yields for every Task.start the decision it carries out: the LAST
    decision that placed the task (a later answer without a pool, or a cancellation, withdraws it).
    Returns (carried: task -> (k, time, placement) | None, every (k, time, placement) placed decision)."""
    mon, case = run["obs"]["mon"], run["case"]
    standing, carried, started, placed = {}, {}, set(), []
    for e in mon:
        if e["ev"] == "decision":
            for p_ in case["decisions"][e["k"]]["placements"]:
                if p_["kind"] not in ("place", "cancel"):
                    continue
                lab = f"g{p_['g']}.t{p_['t']}"
                if p_["kind"] == "place" and p_["pool"] is not None:
                    placed.append((e["k"], e["time"], lab, p_))
                if lab in started:
                    continue
                if p_["kind"] == "place" and p_["pool"] is not None:
                    standing[lab] = (e["k"], e["time"], p_)
                else:
                    standing.pop(lab, None)
        elif e["ev"] == "start":
            started.add(e["t"])
            carried.setdefault(e["t"], standing.get(e["t"]))
    return carried, placed


def planner_run_oracle(prop, run, starts, finishes, not_ready):
    """Run-level clauses for the optimisation planners (ILP, TetriSched-Gurobi, TetriSched-CPLEX) run end to end:
    every decision of a real run is a scheduler input the simulator reached, and what the simulator does with the
    decision is what the property's last sentence is about."""
    obs, world, case = run["obs"], run["world"], run["case"]
    tasks, mon = obs["tasks"], obs["mon"]
    pol, flags = world["policy"], world["flags"]
    name = pol["name"]
    variance = flags["runtime_variance"]
    carried, placed = standing_decisions(run)
    if prop in ("C10", "C11"):
        yield from planner_decision_oracle(prop, run)
    if prop == "C12":
        # (1) what is executed is the LAST decision: on the pool / worker it names, remaining time at the start = runtime
        # of the strategy of the last decision for the task (fuzzed upwards by at most the variance), completion = start + that
        placed_on = {}
        for e in mon:
            if e["ev"] == "place":
                placed_on[e["t"]] = tuple(e["w"])
        for t, evs in starts.items():
            e = evs[0]
            c = carried.get(t)
            if c is None:
                yield (f"C12 task-started-without-a-standing-decision planner={name}", {"start": e})
                continue
            k, dtime, p_ = c
            at = placed_on.get(t)
            if at is not None and (at[0] != p_["pool"] or (p_["worker"] is not None and at[1] != p_["worker"])):
                yield (f"C12 started-elsewhere-than-the-last-decision-named planner={name}", {"task": t, "placed_on": list(at), "decision": k, "decided_at": dtime, "decided": p_})
            rt = p_["strat"]["rt"]
            hi = math.ceil(rt * (1 + variance / 100.0))
            if not (rt <= e["remaining"] <= hi):
                yield (f"C12 executed-runtime-is-not-that-of-the-last-decision planner={name} variance={variance}",
                       {"task": t, "start": e, "decision": k, "decided_at": dtime, "decided": p_})
            fin = finishes.get(t)
            if variance == 0 and fin and fin[0]["state"] == "COMPLETED" and fin[0]["completion"] != e["time"] + rt:
                yield (f"C12 completion-is-not-start-plus-runtime-of-the-last-decision planner={name}",
                       {"task": t, "start": e["time"], "completion": fin[0]["completion"], "decision": k, "decided_at": dtime, "decided": p_})
        enforced = bool(pol.get("enforce_deadlines")) and not (name == "ILP" and flags["release_taskgraphs"])
        if enforced:
            # (2) no decision plans a completion after the deadline (hence a hopeless task is never placed)
            for k, dtime, lab, p_ in placed:
                dl = tasks[lab]["deadline"]
                if p_["time"] + p_["strat"]["rt"] > dl:
                    yield (f"C12 decision-completes-after-the-deadline planner={name}", {"task": lab, "decision": k, "decided_at": dtime, "decided": p_, "deadline": dl})
            # (3) TetriSched-CPLEX answers a hopeless task with a cancellation
            if name == "TetriSchedCPLEX":
                offers = [e for e in mon if e["ev"] == "offer" and e.get("in_policy")]
                decs = [e for e in mon if e["ev"] == "decision"]
                for off, de in zip(offers, decs):
                    answered = {f"g{p_['g']}.t{p_['t']}": p_ for p_ in case["decisions"][de["k"]]["placements"] if p_["kind"] in ("place", "cancel")}
                    for o in off["offered"]:
                        tk = tasks[o["t"]]
                        if tk["deadline"] < off["time"] + tk["min_runtime"] and answered.get(o["t"], {}).get("kind") != "cancel":
                            yield ("C12 hopeless-task-not-answered-with-a-cancellation planner=TetriSchedCPLEX", {"task": o["t"], "time": off["time"], "answer": answered.get(o["t"])})
        if enforced and variance == 0:
            # (4) the consequence: every task that completes does so by its deadline
            for t, tk in tasks.items():
                if tk["state"] != "COMPLETED" or tk["completion"] <= tk["deadline"]:
                    continue
                c = carried.get(t)
                st = starts.get(t, [{}])[0]
                if c is None:
                    cause = "no-standing-decision"
                else:
                    k, dtime, p_ = c
                    waits = sorted({w for x, w in not_ready.get(t, []) if p_["time"] <= x < st.get("time", -1)})
                    if p_["time"] + p_["strat"]["rt"] > tk["deadline"]:
                        cause = "the-decision-itself-is-late"
                    elif st.get("remaining") != p_["strat"]["rt"]:
                        cause = "executed-another-runtime-than-decided"
                    elif st.get("time", -1) > p_["time"]:
                        cause = "start-deferred-by-" + ("+".join(waits) if waits else "nothing-visible")
                    else:
                        cause = "unclassified"
                # a start that waited for a parent (TASK_NOT_READY) earlier in the run: the plan put a child before its parent
                earlier = any(w == "TASK_NOT_READY" and x <= st.get("time", -1) for evs_ in not_ready.values() for x, w in evs_)
                root = "a-child-was-placed-before-its-parent-finished" if earlier else "none"
                yield (f"C12 completed-after-its-deadline planner={name} lookahead={'yes' if pol.get('lookahead') else 'no'} retract={bool(pol.get('retract'))} cause={cause} root={root}",
                       {"task": t, "deadline": tk["deadline"], "completion": tk["completion"], "start": st, "carried": c})


def planner_decision_oracle(prop, run):
    """C10 / C11 at run level: every decision of a real run answers a scheduler input the simulator reached.  The
    observations are walked in program order, keeping for every task whether it is finished, running (where, until
    when) or has a standing placement; each decision is judged against that state."""
    obs, world, case = run["obs"], run["world"], run["case"]
    tasks, mon = obs["tasks"], obs["mon"]
    name = world["policy"]["name"]
    cap = {}
    for pi, pc in enumerate(case["pools"]):
        for wi, wc in enumerate(pc["workers"]):
            c = {}
            for n_, _i, q in wc:
                c[n_] = c.get(n_, 0) + q
            cap[(pi, wi)] = c
    strategies_of = {}
    for gi, g in enumerate(case["graphs"]):
        for ti, t in enumerate(g["graph"]["tasks"]):
            strategies_of[f"g{gi}.t{ti}"] = {s_["sid"] for s_ in t["strategies"]}
    standing, running, done, where, started = {}, {}, set(), {}, set()
    last_offer = None
    for e in mon:
        ev = e["ev"]
        if ev == "offer" and e.get("in_policy"):
            last_offer = e
        elif ev == "place":
            where[e["t"]] = tuple(e["w"])
        elif ev == "start":
            started.add(e["t"])
            st = standing.pop(e["t"], None)
            running[e["t"]] = {"w": where.get(e["t"]), "end": e["time"] + e["remaining"], "req": (st or {}).get("strat", {}).get("req", [])}
        elif ev == "finish":
            running.pop(e["t"], None)
            done.add(e["t"])
        elif ev == "transition" and e["post"] == "CANCELLED":
            standing.pop(e["t"], None)
        elif ev == "decision":
            now = e["time"]
            d = case["decisions"][e["k"]]
            ps = [p_ for p_ in d["placements"] if p_["kind"] in ("place", "cancel")]
            labs = [f"g{p_['g']}.t{p_['t']}" for p_ in ps]
            offered = {o["t"]: o for o in (last_offer["offered"] if last_offer and last_offer["time"] == now else [])}
            if prop == "C10":
                for lab in sorted({x for x in labs if labs.count(x) > 1}):
                    yield (f"C10 run: two-decisions-for-one-task-in-one-answer planner={name}", {"task": lab, "decision": e["k"], "time": now})
                for lab, p_ in zip(labs, ps):
                    if lab in started:
                        yield (f"C10 run: decision-for-a-task-that-has-started planner={name}", {"task": lab, "decision": e["k"], "time": now})
                    elif lab not in offered and lab not in standing:
                        yield (f"C10 run: decision-for-a-task-neither-offered-nor-scheduled planner={name}", {"task": lab, "decision": e["k"], "time": now})
                    if p_["kind"] == "place" and p_["pool"] is not None:
                        if p_["time"] < now:
                            yield (f"C10 run: placement-in-the-past planner={name}", {"task": lab, "decision": e["k"], "time": now, "decided": p_})
                        if p_["strat"] is None or p_["strat"]["sid"] not in strategies_of.get(lab, set()):
                            yield (f"C10 run: strategy-does-not-belong-to-the-task planner={name}", {"task": lab, "decision": e["k"], "decided": p_})
                        if p_["pool"] >= len(case["pools"]) or (p_["worker"] is not None and p_["worker"] >= len(case["pools"][p_["pool"]]["workers"])):
                            yield (f"C10 run: unknown-pool-or-worker planner={name}", {"task": lab, "decision": e["k"], "decided": p_})
                for lab, o in offered.items():
                    if o["state"] != "SCHEDULED" and lab not in labs:
                        yield (f"C10 run: offered-task-not-answered planner={name}", {"task": lab, "decision": e["k"], "time": now, "state": o["state"]})
            # the plan after this answer
            for lab, p_ in zip(labs, ps):
                if lab in started:
                    continue
                if p_["kind"] == "place" and p_["pool"] is not None:
                    standing[lab] = p_
                else:
                    standing.pop(lab, None)
            new = [(lab, p_) for lab, p_ in zip(labs, ps) if p_["kind"] == "place" and p_["pool"] is not None and lab not in started]
            if prop == "C10" and new and world["flags"]["runtime_variance"] == 0:
                # (exact runtimes only: the planners book a RUNNING task until now + the nominal runtime of its strategy,
                # with a variance the task may really hold its resources longer)
                items = []   # (worker, start, end, req, label)
                for lab, p_ in standing.items():
                    if p_["worker"] is not None and p_["strat"] is not None:
                        items.append(((p_["pool"], p_["worker"]), max(p_["time"], now) if (lab, p_) not in new else p_["time"], None, p_["strat"], lab))
                items = [(w, s0, s0 + st_["rt"], st_["req"], lab) for w, s0, _x, st_, lab in items]
                for lab, r_ in running.items():
                    if r_["w"] is not None:
                        items.append((r_["w"], now, r_["end"], r_["req"], lab))
                for w in {w for w, *_ in items}:
                    mine = [it for it in items if it[0] == w]
                    for inst in sorted({p_["time"] for lab, p_ in new if (p_["pool"], p_["worker"]) == w}):
                        use = {}
                        for _w, s0, e0, req, lab in mine:
                            if s0 <= inst < e0:
                                for n_, _i, q in req:
                                    use[n_] = use.get(n_, 0) + q
                        over = {n_: (q, cap.get(w, {}).get(n_, 0)) for n_, q in use.items() if q > cap.get(w, {}).get(n_, 0)}
                        if over:
                            yield (f"C10 run: plan-exceeds-a-worker's-capacity-at-a-planned-instant planner={name}",
                                   {"decision": e["k"], "time": now, "worker": list(w), "instant": inst, "over": over, "plan": [(lab, s0, e0) for _w, s0, e0, _r, lab in mine]})
                            break
            if prop == "C11" and name in ("ILP", "TetriSchedGurobi"):
                answered = dict(zip(labs, ps))
                for lab, p_ in new:
                    for q in tasks[lab]["parents"]:
                        if q in done:
                            continue
                        if q in running:
                            # (exact runtimes only: with a variance the planners know the nominal runtime of the parent's
                            # strategy, the parent really runs longer)
                            if world["flags"]["runtime_variance"] == 0 and p_["time"] < running[q]["end"]:
                                yield (f"C11 run: child-planned-before-the-expected-finish-of-its-running-parent planner={name}",
                                       {"child": lab, "parent": q, "decision": e["k"], "time": now, "child_start": p_["time"], "parent_finish": running[q]["end"]})
                        elif q in standing:
                            pq = standing[q]
                            if p_["time"] < pq["time"] + pq["strat"]["rt"]:
                                yield (f"C11 run: child-planned-before-its-parent's-planned-finish planner={name} parent-decided-in-the-same-answer={q in answered}",
                                       {"child": lab, "parent": q, "decision": e["k"], "time": now, "child_start": p_["time"], "parent": pq})
                        elif q in answered:
                            yield (f"C11 run: child-placed-although-a-parent-decided-in-the-same-answer-is-not-placed planner={name}",
                                   {"child": lab, "parent": q, "decision": e["k"], "time": now})


def csv_reader_oracle(obs, world):
    """Feed the trace to the project's own CSVReader and compare what it reconstructs with the run."""
    from data.csv_reader import CSVReader
    import contextlib, io

    rows = [[("0" if c == "<true_runtime>" else c) for c in row] for row in obs["rows"]]
    tasks, graphs = obs["tasks"], {g["name"]: g for g in obs["graphs"]}
    rd = CSVReader.__new__(CSVReader)
    rd._simulators = {}
    released_graphs = {r[4] for r in rows if len(r) > 4 and r[1] == "TASK_GRAPH_RELEASE"}
    cancel_rows = {}
    for r in rows:
        if len(r) > 5 and r[1] == "TASK_CANCEL":
            cancel_rows[r[5]] = cancel_rows.get(r[5], 0) + 1
    closed_loop = {g["name"] for g in world["workload"]["graphs"] if g["release_policy"] == "closed_loop"}
    try:
        with contextlib.redirect_stdout(io.StringIO()):
            rd.parse_events({"trace": rows})
    except AssertionError:
        # the reader's own end-of-trace consistency assertions (finished / missed / cancelled graph counts)
        limbo = [n for n, g in graphs.items() if not g["complete"] and not g["cancelled"] and cancel_rows.get(n)]
        cause = "unfinished-graph-with-a-cancelled-task-counted-as-cancelled" if limbo else "unclassified"
        yield (f"C08 csvreader-rejects-trace AssertionError cause={cause}", {"graphs": limbo[:5]})
        return
    except Exception as e:  # ValueError wrapping the real cause
        c = e.__cause__
        gname = str(c).strip("'\"") if isinstance(c, KeyError) else None
        if gname in graphs and gname not in released_graphs and gname.split("@")[0] in closed_loop:
            cause = "closed-loop-follow-up-graph-has-no-TASK_GRAPH_RELEASE-row"
        elif isinstance(c, TypeError) and "TASK_PLACEMENT" in str(e) and str(e).split(" from ")[0].rstrip().endswith("'']"):
            cause = "placement-row-of-a-strategy-that-demands-nothing-ends-with-an-empty-field"
        else:
            cause = "unclassified"
        yield (f"C08 csvreader-rejects-trace {type(c).__name__ if c else type(e).__name__} cause={cause}", {"error": str(e)[:300], "cause": repr(c)[:200]})
        return
    sim = rd._simulators["trace"]
    rtasks = {t.task_id: t for t in sim.tasks}
    for lab, t in tasks.items():
        rt = rtasks.get(lab)
        appeared = any(len(r) > 7 and r[1] == "TASK_RELEASE" and r[7] == lab for r in rows) or any(len(r) > 4 and r[1] == "TASK_CANCEL" and r[4] == lab for r in rows)
        if rt is None:
            if appeared:
                yield ("C08 csvreader-lost-a-task", {"task": lab})
            continue
        if any(len(r) > 7 and r[1] == "TASK_RELEASE" and r[7] == lab for r in rows):
            if rt.release_time != t["release"] or rt.deadline != t["deadline"]:
                yield ("C08 csvreader-task-release-or-deadline-wrong", {"task": lab, "reader": [rt.release_time, rt.deadline], "actual": [t["release"], t["deadline"]]})
            if rt.name != t["name"] or rt.task_graph != t["graph"]:
                yield ("C08 csvreader-task-identity-wrong", {"task": lab, "reader": [rt.name, rt.task_graph]})
        if t["state"] in ("RUNNING",) + DONE and rt.start_time is not None and rt.start_time != t["start"]:
            yield ("C08 csvreader-task-start-time-wrong", {"task": lab, "reader": rt.start_time, "actual": t["start"]})
        if bool(rt.cancelled) != (t["state"] == "CANCELLED"):
            yield ("C08 csvreader-task-cancelled-flag-wrong", {"task": lab, "reader": bool(rt.cancelled), "state": t["state"]})
        if t["state"] in DONE:
            if rt.completion_time != t["completion"]:
                yield ("C08 csvreader-task-completion-time-wrong", {"task": lab, "reader": rt.completion_time, "actual": t["completion"]})
            if bool(rt.missed_deadline) != (t["completion"] > t["deadline"]):
                yield ("C08 csvreader-task-missed-deadline-wrong", {"task": lab, "reader": bool(rt.missed_deadline)})
        elif getattr(rt, "completion_time", None) is not None:
            yield ("C08 csvreader-reports-unfinished-task-complete", {"task": lab, "state": t["state"]})
    for name, rg in sim.task_graphs.items():
        g = graphs.get(name)
        if g is None:
            yield ("C08 csvreader-unknown-graph", {"graph": name})
            continue
        if bool(rg.was_completed) != g["complete"]:
            yield ("C08 csvreader-graph-completed-flag-wrong", {"graph": name, "reader": bool(rg.was_completed), "actual": g["complete"]})
        limbo = not g["complete"] and not g["cancelled"]
        if bool(rg.cancelled) != g["cancelled"] and not limbo:
            yield ("C08 csvreader-graph-cancelled-flag-wrong", {"graph": name, "reader": bool(rg.cancelled), "actual": g["cancelled"]})
        if g["complete"]:
            comp = max(tasks[s]["completion"] for s in g["sinks"]) if g["sinks"] else None
            if comp is not None and rg.completion_at != comp:
                yield ("C08 csvreader-graph-completion-time-wrong", {"graph": name, "reader": rg.completion_at, "actual": comp})


def shrink_world(world, seed, fails):
    """Greedy deletion of job graphs / invocations while the failure persists."""
    import copy

    w = copy.deepcopy(world)
    changed = True
    while changed:
        changed = False
        gs = w["workload"]["graphs"]
        for i in range(len(gs)):
            if len(gs) <= 1:
                break
            cand = copy.deepcopy(w)
            del cand["workload"]["graphs"][i]
            try:
                if fails(cand):
                    w, changed = cand, True
                    break
            except Exception:
                continue
        if changed:
            continue
        for i, g in enumerate(gs):
            if g.get("invocations", 1) > 1:
                cand = copy.deepcopy(w)
                cand["workload"]["graphs"][i]["invocations"] = g["invocations"] - 1
                try:
                    if fails(cand):
                        w, changed = cand, True
                        break
                except Exception:
                    continue
    return w


def duplicate_answers(decisions):
    """(number of scheduler answers that decide one task more than once, number of those in which a placed PLACE_TASK
    decision follows an earlier placed one of the same task)."""
    ndup = nretime = 0
    for d in decisions:
        seen, dup, retime = {}, False, False
        for p in d.get("placements", []):
            if p.get("kind") not in ("place", "cancel"):
                continue
            k = (p.get("g"), p.get("t"))
            placed = p["kind"] == "place" and p.get("pool") is not None
            if k in seen:
                dup = True
                if placed and seen[k]:
                    retime = True
            seen[k] = seen.get(k, False) or placed
        ndup += dup
        nretime += retime
    return ndup, nretime


def run_suite(chk: common.Check, prop: str, n_quick=400, n_thorough=4000, streams=("regular",), extra_specs=None):
    from harness.impl import sim_impl

    broken = chk.lean_obligations()
    n = n_quick if chk.tier == "quick" else n_thorough
    runs = run_worlds(chk, prop, n, streams=streams)
    dis, derr = compare(runs)
    if derr:
        broken.append(derr)
        dis = []
    reported = set()
    for i, r in enumerate(runs):
        obs, world = r["obs"], r["world"]
        states = {s for g in obs["final"] for s in g}
        nontrivial = len(obs["rows"]) > 12 and ("COMPLETED" in states or "CANCELLED" in states)
        chk.case(
            {"policy": world["policy"], "flags": world["flags"], "jobs": [(g["name"], g["release_policy"], len(g["graph"])) for g in world["workload"]["graphs"]],
             "pools": [[len(w["resources"]) for w in p["workers"]] for p in world["workers"]], "rows": len(obs["rows"]), "outcome": obs["err"]},
            nontrivial,
        )
        chk.count(f"policy:{world['policy']['name']}")
        chk.count(f"outcome:{obs['err']}")
        chk.count(f"stream:{world['stream']}")
        # scheduler answers that decide the same task more than once (second decision placed: the cached
        # TASK_PLACEMENT event is re-timed while it is still pending in `__handle_scheduler_finish`)
        ndup, nretime = duplicate_answers(r["case"].get("decisions", []))
        if ndup:
            chk.count("answers:task-decided-twice", ndup)
            chk.count("runs:task-decided-twice")
        if nretime:
            chk.count("answers:pending-placement-retimed", nretime)
        for rr in obs["rows"]:
            if len(rr) > 1:
                chk.count(f"row:{rr[1]}")
        for sig, detail in oracle(prop, r):
            if sig in reported and chk.matches_known(sig) is None:
                continue
            reported.add(sig)
            w = world
            if chk.matches_known(sig) is None:

                def fails(cand, sig=sig, seed=r["seed"]):
                    rr = sim_impl.Run(cand, seed=seed)
                    c2, o2 = rr.execute()
                    return any(s == sig for s, _ in oracle(prop, {"obs": o2, "world": cand, "case": c2}))

                try:
                    w = shrink_world(world, r["seed"], fails)
                except Exception:
                    w = world
            chk.violation(sig, {"suite": "sim", "world": w, "seed": r["seed"], "detail": detail, "how": "oracle on the real simulator run"})
    chk.traces_validated = len(runs) - len(dis)
    chk.extra["correspondence_disagreements"] = len(dis)
    chk.extra["rows_compared"] = sum(len(r["obs"]["rows"]) for r in runs)
    if dis:
        i, d = dis[0]
        broken.append(f"correspondence sim: {len(dis)} run(s) differ; first: {d}")
        chk.extra["first_disagreement"] = {"world": runs[i]["world"], "seed": runs[i]["seed"], "diff": d}
    if broken:

        def search():
            rng = common.Rng(chk.seed, f"{prop}-e2e-search")
            for k in range(400):
                world = sim_gen.gen_world(rng, streams[k % len(streams)])
                rr = sim_impl.Run(world, seed=k)
                c2, o2 = rr.execute()
                for sig, detail in oracle(prop, {"obs": o2, "world": world, "case": c2}):
                    if chk.matches_known(sig) is None:
                        chk.violation(sig, {"suite": "sim", "world": world, "seed": k, "detail": detail, "how": "failing-input search (oracle on the real simulator)"})
                        return

        common.broken_obligation(chk, broken, search)
    chk.rule = (
        "worlds: 1-2 pools x 1-3 workers x GPU/CPU with several instances per type; 1-3 job graphs from the grammar task|seq|par|cond or random DAGs "
        "(<=~10 tasks), 1-2 strategies per task, release policies fixed / closed_loop / periodic, deadline variance; policies EDF / FIFO / LSF "
        "(with and without deadline enforcement) and a RANDOM policy emitting arbitrary well-typed decisions (future placements, unplaced, cancel, "
        "lookahead, retraction, release_taskgraphs); flags: scheduler frequency/delay, run-at-worker-free, drop_skipped_tasks, runtime variance, "
        "update interval, loop timeout; non-trivial = more than 12 trace rows and at least one task completed or cancelled; distinct = hash of the summary"
    )
    chk.assumptions += [
        "the scheduler is a black box of the simulator model: its decisions are recorded from the real run and replayed (every theorem about the model is for any policy)",
        "random draws are recorded from the real run and replayed in program order; wall-clock true_runtime is masked; utilisation rows of one pool and instant are compared as a sorted block",
        "preemption / migration is out of scope of the simulator model (explicit NotImplementedError outcome)",
    ]


def licence_limited(obs):
    """The solver refused the model because of the size-restricted licence of this installation (an artefact of the
    environment, not of the code under test): the run says nothing."""
    msg = str(obs.get("exc") or "")
    return (obs["err"] == "GurobiError" and "size-limited license" in msg) or obs["err"] == "DOcplexLimitsExceeded"


def replanned_with_another_strategy(run):
    """Number of tasks that were placed by two decisions with different strategies before they started."""
    n, seen, started = 0, {}, set()
    counted = set()
    for e in run["obs"]["mon"]:
        if e["ev"] == "start":
            started.add(e["t"])
        elif e["ev"] == "decision":
            for p_ in run["case"]["decisions"][e["k"]]["placements"]:
                if p_["kind"] == "place" and p_["pool"] is not None and p_["strat"] is not None:
                    lab = f"g{p_['g']}.t{p_['t']}"
                    if lab in started:
                        continue
                    if lab in seen and seen[lab] != p_["strat"]["sid"] and lab not in counted:
                        counted.add(lab)
                        n += 1
                    seen[lab] = p_["strat"]["sid"]
    return n


def run_planner_pass(chk: common.Check, prop: str, n_quick=160, n_thorough=1600):
    """End-to-end runs of the REAL Simulator under the REAL optimisation planners (stream "plan"): the decision tape
    recorded from the planner is replayed through the Lean simulator model like any other policy (complete trace
    correspondence), and the run-level clauses of `prop` are judged on the implementation's own observations."""
    from harness.impl import sim_impl

    import time as _time

    t0 = _time.time()
    n = n_quick if chk.tier == "quick" else n_thorough
    runs = run_worlds(chk, prop, n, streams=("plan",), seed_tag="e2e-plan")
    skipped = [r for r in runs if licence_limited(r["obs"])]
    runs = [r for r in runs if not licence_limited(r["obs"])]
    dis, derr = compare(runs)
    broken = []
    if derr:
        broken.append(derr)
        dis = []
    reported = set()
    replanned = 0
    late_ok = 0
    for r in runs:
        obs, world = r["obs"], r["world"]
        pol = world["policy"]
        states = {s for g in obs["final"] for s in g}
        rp = replanned_with_another_strategy(r) if pol["name"] in PLANNER_POLICIES else 0
        replanned += rp
        nontrivial = len(obs["rows"]) > 12 and ("COMPLETED" in states or "CANCELLED" in states)
        chk.case(
            {"e2e": "plan", "policy": pol, "flags": world["flags"], "jobs": [(g["name"], g.get("period"), g.get("invocations"), len(g["graph"])) for g in world["workload"]["graphs"]],
             "pools": [[len(w["resources"]) for w in p["workers"]] for p in world["workers"]], "rows": len(obs["rows"]), "outcome": obs["err"]},
            nontrivial,
        )
        chk.count(f"e2e-plan:policy:{pol['name']}")
        chk.count(f"e2e-plan:outcome:{obs['err']}")
        chk.count(f"e2e-plan:retract:{bool(pol.get('retract'))}")
        chk.count("e2e-plan:decisions", len(r["case"]["decisions"]))
        chk.count("e2e-plan:tasks-completed", sum(1 for t in obs["tasks"].values() if t["state"] == "COMPLETED"))
        chk.count("e2e-plan:tasks-cancelled", sum(1 for t in obs["tasks"].values() if t["state"] == "CANCELLED"))
        if rp:
            chk.count("e2e-plan:runs-with-a-task-re-placed-with-another-strategy")
        for sig, detail in oracle(prop, r):
            if sig in reported and chk.matches_known(sig) is None:
                continue
            reported.add(sig)
            w = world
            if chk.matches_known(sig) is None:

                def fails(cand, sig=sig, seed=r["seed"]):
                    c2, o2 = sim_impl.Run(cand, seed=seed).execute()
                    return any(s == sig for s, _ in oracle(prop, {"obs": o2, "world": cand, "case": c2}))

                try:
                    w = shrink_world(world, r["seed"], fails)
                except Exception:
                    w = world
            chk.violation(sig, {"suite": "sim", "world": w, "seed": r["seed"], "detail": detail, "how": "oracle on the real simulator run under the real planner"})
    chk.traces_validated += len(runs) - len(dis)
    chk.extra["e2e_planner_pass"] = {
        "runs": len(runs), "skipped_solver_licence_size_limit": len(skipped), "correspondence_disagreements": len(dis),
        "rows_compared": sum(len(r["obs"]["rows"]) for r in runs), "tasks_re_placed_with_another_strategy": replanned,
        "wall_s": round(_time.time() - t0, 1),
    }
    if dis:
        i, d = dis[0]
        broken.append(f"correspondence sim (planner runs): {len(dis)} run(s) differ; first: {d}")
        chk.extra["e2e_planner_first_disagreement"] = {"world": runs[i]["world"], "seed": runs[i]["seed"], "diff": d}
    if broken:

        def search():
            rng = common.Rng(chk.seed, f"{prop}-e2e-plan-search")
            for k in range(200):
                world = sim_gen.gen_world(rng, "plan")
                c2, o2 = sim_impl.Run(world, seed=k).execute()
                if licence_limited(o2):
                    continue
                for sig, detail in oracle(prop, {"obs": o2, "world": world, "case": c2}):
                    if chk.matches_known(sig) is None:
                        chk.violation(sig, {"suite": "sim", "world": world, "seed": k, "detail": detail, "how": "failing-input search (oracle on the real simulator under the real planner)"})
                        return

        common.broken_obligation(chk, broken, search)
    chk.rule = (chk.rule + " || " if chk.rule else "") + (
        "end-to-end planner pass: worlds of 1-3 workers (GPU/CPU, quantity 1-2, mostly able to hold every strategy for ILP), 1-3 jobs of 1-3 tasks "
        "(single, chain, fork, join) released with a fixed period 1-3 times (<= 8 tasks per run), 1-2 strategies per task with different runtimes and "
        "resource kinds, deadline = release + slowest critical path * (1 + 0..200%); policies ILP / TetriSched-Gurobi / TetriSched-CPLEX with "
        "enforce_deadlines (85%), retract_schedules (60%), release_taskgraphs (30%, not CPLEX), lookahead 0/3/10/30, goal max_goodput / max_slack (ILP), "
        "plan-ahead 6-14 slots or default, discretisation 1-3; scheduler frequency -1/1/3/5, runtime 0, drop_skipped_tasks, run-at-worker-free, "
        "runtime variance 0 (90%); runs refused by the size-restricted solver licence are skipped and counted"
    )
    chk.assumptions += [
        "end-to-end planner pass: the planner is a black box of the simulator model (its decisions are recorded and replayed); the solvers run with one thread "
        "(the harness replaces multiprocessing.cpu_count in the scheduler modules) and the installation's size-restricted licences",
    ]


def replay(prop, path) -> int:
    from harness.impl import sim_impl

    data = json.loads(open(path).read())
    rr = sim_impl.Run(data["world"], seed=data["seed"])
    c2, o2 = rr.execute()
    sigs = [s for s, _ in oracle(prop, {"obs": o2, "world": data["world"], "case": c2})]
    print("signatures on the current tree:", sorted(set(sigs)))
    if data["signature"] in sigs:
        print(f"VIOLATION property={prop} replay={path}")
        return 1
    return 0
