"""C18 — task-graph suite (direct-call histories) — see _taskgraph_common.py."""
from harness import common
from harness.suites import _taskgraph_common as tg

TECHNIQUE = "Lean 4 theorems over an executable Task/TaskGraph model; model tied to /repo by differential call-history correspondence"


def run(chk: common.Check):
    tg.run_suite(chk, "C18")
    rule = chk.rule
    # the clauses about RUNS ("in runs of policies that do not plan ahead ...", starvation): every offer made to
    # the policy during end-to-end runs of the real simulator (the runs are also replayed through the simulator model)
    from harness.suites import _e2e_common as e2e

    e2e.run_suite(chk, "C18", n_quick=250, n_thorough=2500, streams=("regular", "dag", "batch", "dag"))
    chk.rule = rule + " || end-to-end: " + chk.rule


def replay(path) -> int:
    import json

    if json.loads(open(path).read()).get("suite") == "sim":
        from harness.suites import _e2e_common as e2e

        return e2e.replay("C18", path)
    return tg.replay("C18", path)
