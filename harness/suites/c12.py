"""C12 — decided per scheduling policy; see _planner_props.py and harness/planners/.  The last sentence of the property
("in runs of those planners with exact runtimes, every task that completes does so by its deadline") is judged on
end-to-end runs of the real Simulator under the real ILP / TetriSched planners: see _e2e_common.run_planner_pass and
docs/e2e_planners.md."""
import json

from harness import common
from harness.suites import _e2e_common as e2e
from harness.suites import _planner_props as pp

TECHNIQUE = "Lean 4 theorems over generated constraint systems / policy models; model tied to /repo by comparing the captured solver model and returned Placements on generated scheduler inputs; end-to-end runs of the real simulator under the real planners replayed through the Lean simulator model (decision tape) with run-level deadline oracles"


def run(chk: common.Check):
    pp.run_prop(chk, "C12")
    e2e.run_planner_pass(chk, "C12", n_quick=400, n_thorough=3000)


def replay(path) -> int:
    if json.load(open(path)).get("suite") == "sim":
        return e2e.replay("C12", path)
    return pp.replay("C12", path)
