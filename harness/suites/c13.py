"""C13 — EDF, FIFO and LSF honour their priority order (no priority inversion).

Correspondence: generated scheduler inputs (real Workload / TaskGraph / Task objects in
RELEASED / PREEMPTED / RUNNING / COMPLETED / VIRTUAL states with arbitrary deadlines,
releases and remaining times incl. ties; 1-3 strategies per task; 1-2 pools x 1-3 workers
with several resource types and instances, partially occupied by really placed RUNNING
tasks) are handed to the REAL `schedule(sim_time, workload, worker_pools)` of the three
policies and to the Lean model (`Model/Greedy.lean`, driver suite "greedy"); processing
order, every returned Placement, the virtual cluster after `copy` and at return and the
exception outcome are compared.  The machinery lives in harness/planners/greedy.py (it also
serves the greedy clauses of C10 and C12).

Oracle (independent of the model): the decisions come in priority order (ties in offer
order), and for every task answered "not placed" an independent re-implementation of the
fit arithmetic (per-type totals per worker, first-fit replay of the reported placements of
higher or equal priority on the real live occupancy) finds no strategy that fits.
"""
from __future__ import annotations

import json

from harness import common
from harness.planners import greedy as G

TECHNIQUE = "Lean 4 proof over hand-written model of the greedy policies + differential correspondence on generated scheduler inputs + independent fit-check oracle"
PROP = "C13"


def run(chk: common.Check):
    broken = chk.lean_obligations()
    rng = common.Rng(chk.seed, "c13")
    dis = G.run(PROP, chk, rng.sub(G.NAME), chk.tier)
    chk.extra["correspondence_disagreements"] = len(dis)
    if dis:
        chk.extra["first_disagreements"] = [d[:600] for d in dis[:3]]
    if broken or dis:
        common.broken_obligation(
            chk, broken + [d[:300] for d in dis[:3]], lambda: G.search(PROP, chk, rng.sub("search"), chk.tier)
        )
    chk.rule = (
        "hand-written corpus (witness of the former finding D13, string-order ties, admission boundary, two-pool occupied cluster) for each policy, then "
        "generated worlds round-robin over EDF/FIFO/LSF: 1-2 pools x 1-3 workers (35% of the priority worlds single-worker pools), 1-3 resource types "
        "with repeated instances, 1-4 graphs (independent/chain/fork) of up to 7-9 tasks with 1-3 strategies, deadlines/releases drawn from "
        "1-4 distinct values (ties), states RELEASED/RUNNING/PREEMPTED/COMPLETED/VIRTUAL/released-in-the-future, millisecond deadlines; "
        "non-trivial = returned normally with >= 2 offered tasks and >= 1 placed; distinct by canonical spec"
    )
    chk.assumptions += [
        "non-preemptive mode only (preemptive=False); scheduler runtime fixed to 0",
        "resource requests use `any` ids with one entry per resource name and every task has at least one strategy (what the loaders build)",
        "the offer is whatever the real Workload.get_schedulable_tasks returns (recorded); its own correctness is C07/C18's subject",
        "on multi-worker pools the oracle replays the reported placements first-fit in pool order at the level of per-type totals; it is exact on single-worker pools",
    ]


def replay(path) -> int:
    rp = json.load(open(path))
    if rp.get("spec") is None:
        print("obligation-broken record (no failing input); re-run the check")
        return 1
    return G.replay(rp)
