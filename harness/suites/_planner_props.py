"""Properties decided per scheduling policy (C10, C11, C12, C14): every plugin in
harness/planners/ that lists the property contributes its sub-suite (model vs real
policy on generated scheduler inputs, oracles, failing-input search)."""
from __future__ import annotations

import importlib
import json
import pkgutil

from harness import common


def plugins(prop):
    import harness.planners as pkg

    out = []
    for m in sorted(pkgutil.iter_modules(pkg.__path__), key=lambda m: m.name):
        if m.name.startswith("_") or m.name == "dev_run":
            continue
        mod = importlib.import_module(f"harness.planners.{m.name}")
        if prop in getattr(mod, "PROPS", set()):
            out.append(mod)
    return out


def run_prop(chk: common.Check, prop: str):
    broken = chk.lean_obligations()
    rng = common.Rng(chk.seed, prop.lower())
    pls = plugins(prop)
    dis = []
    for pl in pls:
        d = pl.run(prop, chk, rng.sub(pl.NAME), chk.tier)
        dis.extend(f"{pl.NAME}: {x}"[:300] for x in (d or []))
        chk.count(f"planner:{pl.NAME}")
    chk.extra["planners"] = [pl.NAME for pl in pls]
    chk.extra["correspondence_disagreements"] = len(dis)
    if broken or dis:

        def search():
            for pl in pls:
                pl.search(prop, chk, rng.sub(pl.NAME + "-search"), chk.tier)

        common.broken_obligation(chk, broken + dis[:3], search)
    if not chk.rule:
        chk.rule = "per-policy sub-suites: " + ", ".join(pl.NAME for pl in pls) + " (see docs/planner_*.md)"


def replay(prop: str, path: str) -> int:
    rp = json.load(open(path))
    if rp.get("spec") is None and rp.get("case") is None:
        print("obligation-broken record (no failing input); re-run the check")
        return 1
    name = rp.get("planner")
    for pl in plugins(prop):
        if pl.NAME == name:
            return pl.replay(rp)
    print(f"no plugin {name} for {prop}")
    return 2
