"""C17 — graph algorithms agree with their definitions on every DAG.

Correspondence: real `workload.graph.Graph` (also through real `TaskGraph` /
`JobGraph` objects) vs the Lean model M3 (`Model/Graph.lean`) on the same cases,
every public method, exception classes included.  Oracle: brute force
(`harness/impl/graph_oracle.py`), independent of the model, run on the
implementation's answers for every case.
"""
from __future__ import annotations

import json
import multiprocessing as mp
import sys
import threading
import time

from harness import common
from harness.gen import graph_gen as gg
from harness.impl import graph_impl as gi
from harness.impl import graph_oracle as go

TECHNIQUE = "Lean 4 proof over hand-written model + differential correspondence + brute-force oracle"
BATCH = 8000


# ---------------------------------------------------------------------------
# case streams
# ---------------------------------------------------------------------------


def _kind_cycle(i, kinds=gg.ALL_KINDS):
    return kinds[i % len(kinds)]


def case_stream(tier: str, seed: int):
    """Yields (family, case).  Deterministic in (tier, seed)."""
    rng = common.Rng(seed, "c17")
    for c in gg.corpus():
        yield "corpus", c
    # -- exhaustive: every labelled DAG (label = dict position), children in ascending order
    i = 0
    r = rng.sub("exh")
    top = 5
    for n in range(0, top + 1):
        for masks in gg.all_dags(n):
            yield f"exh-dag{n}", gg.dag_case(r, masks, _kind_cycle(i), "lex", "ops")
            i += 1
    # -- other edge / construction orders for the same DAGs
    r = rng.sub("orders")
    for n in range(2, 5):
        for masks in gg.all_dags(n):
            for order, style in (("rev", "ops"), ("shuf", "init"), ("shuf", "add_node")):
                yield f"ord-dag{n}", gg.dag_case(r, masks, _kind_cycle(i), order, style)
                i += 1
    dags5 = gg.all_dags(5)
    if tier == "thorough":
        for masks in dags5:
            for order, style in (("rev", "ops"), ("shuf", "init")):
                yield "ord-dag5", gg.dag_case(r, masks, _kind_cycle(i), order, style)
                i += 1
    else:
        for _ in range(1500):
            yield "ord-dag5", gg.dag_case(r, r.choice(dags5), _kind_cycle(i), r.choice(["rev", "shuf"]), r.choice(["ops", "init", "add_node"]))
            i += 1
    # -- 6 nodes: a seed-dependent arithmetic slice of all 3 781 503 labelled DAGs
    r = rng.sub("six")
    stride, limit = (31, 130000) if tier == "thorough" else (2521, 1500)
    for masks in gg.sample_dags6(r.randrange(stride), stride, limit):
        yield "dag6", gg.dag_case(r, masks, _kind_cycle(i), r.choice(["lex", "rev", "shuf"]), "ops")
        i += 1
    # -- every digraph with <= 3 nodes (self loops, 2-cycles …)
    r = rng.sub("digraphs")
    for n in range(1, 4):
        for masks in gg.all_digraphs(n):
            yield f"digraph{n}", gg.digraph_case(r, masks, _kind_cycle(i, gg.PLAIN_KINDS))
            i += 1
    # -- random DAGs up to 40 nodes, with and without parallel edges
    r = rng.sub("random")
    for k in range(6000 if tier == "thorough" else 500):
        yield "random-dag", gg.random_dag_case(r, _kind_cycle(i), 40, parallel=(k % 10 == 9))
        i += 1
    # -- random cyclic graphs
    r = rng.sub("cyclic")
    for _ in range(2000 if tier == "thorough" else 100):
        yield "random-cyclic", gg.cyclic_case(r, _kind_cycle(i))
        i += 1
    # -- update_edges: re-wire a live graph (every 2nd case a real TaskGraph)
    r = rng.sub("rewire")
    pool = gg.all_dags(3) + gg.all_dags(4) + dags5
    for k in range(6000 if tier == "thorough" else 600):
        yield "rewire", gg.rewire_case(r, r.choice(pool), "task" if k % 2 == 0 else _kind_cycle(i))
        i += 1
    # -- API histories with remove / re-add / errors
    r = rng.sub("mut")
    for _ in range(3000 if tier == "thorough" else 300):
        c = gg.mutation_case(r, _kind_cycle(i))
        yield "mutation", gg.decorate(r, c, range(8), jobcost=False)
        i += 1


# ---------------------------------------------------------------------------
# running
# ---------------------------------------------------------------------------


def _impl_one(case):
    """Worker: run the real code on one case and judge its answers with the oracle."""
    rep = gi.run_case(case)
    return rep, go.check_case(case, rep)


def run_impl(cases, pool):
    if pool is None:
        return [_impl_one(c) for c in cases]
    return pool.map(_impl_one, cases, chunksize=200)


def first_diff(a, b, path=""):
    if type(a) != type(b):
        return f"{path}: impl={json.dumps(a)[:120]} model={json.dumps(b)[:120]}"
    if isinstance(a, dict):
        for k in sorted(set(a) | set(b)):
            if k not in a or k not in b:
                return f"{path}.{k}: missing on one side"
            d = first_diff(a[k], b[k], f"{path}.{k}")
            if d:
                return d
        return None
    if isinstance(a, list):
        if len(a) != len(b):
            return f"{path}: impl={json.dumps(a)[:120]} model={json.dumps(b)[:120]}"
        for i, (x, y) in enumerate(zip(a, b)):
            d = first_diff(x, y, f"{path}[{i}]")
            if d:
                return d
        return None
    return None if a == b else f"{path}: impl={a!r} model={b!r}"


def nontrivial(case, reply):
    for op, rep in zip(case["ops"], reply.get("res", [])):
        if op["op"] == "query" and isinstance(rep, dict) and len(rep.get("nodes", [])) >= 2 and rep.get("edges"):
            return True
    return False


class Collector:
    def __init__(self, chk):
        self.chk = chk
        self.fail: dict[str, list] = {}  # signature -> [count, smallest case, detail]
        self.reported: set = set()
        self.disagree: list = []

    def oracle(self, case, verdicts):
        for sig, detail in verdicts:
            e = self.fail.setdefault(sig, [0, case, detail])
            e[0] += 1
            if len(json.dumps(case)) < len(json.dumps(e[1])):
                e[1], e[2] = case, detail

    def report(self):
        """Turn oracle failures into violations (known findings are only counted)."""
        for sig, (count, case, detail) in sorted(self.fail.items()):
            if self.chk.matches_known(sig):
                for _ in range(count):
                    self.chk.violation(sig, {})
            elif sig not in self.reported:
                self.reported.add(sig)
                self.chk.violation(sig, {"case": case, "detail": detail, "occurrences": count}, found_input=True)
        self.fail = {}


def process(chk, col, fam_cases, use_driver, pool):
    cases = [c for _, c in fam_cases]
    model = None
    box: dict = {}
    th = None
    if use_driver:
        # the Lean driver (a subprocess) runs while the pool runs the real code
        dcases = [gi.driver_case(c) for c in cases]
        half = (len(dcases) + 1) // 2

        def drive(key, part):
            try:
                box[key] = common.run_driver(part) if part else []
            except BaseException as e:  # re-raised in the main thread
                box[key] = e

        th = [threading.Thread(target=drive, args=(0, dcases[:half])), threading.Thread(target=drive, args=(1, dcases[half:]))]
        for t in th:
            t.start()
    impl = run_impl(cases, pool)
    if th:
        for t in th:
            t.join()
        for k in (0, 1):
            if isinstance(box[k], BaseException):
                raise box[k]
        model = box[0] + box[1]
    for idx, ((fam, case), (rep, verdicts)) in enumerate(zip(fam_cases, impl)):
        chk.count(f"family:{fam}")
        chk.count(f"kind:{case['kind']}")
        for op, r in zip(case["ops"], rep.get("res", [])):
            if op["op"] == "query" and isinstance(r, dict):
                chk.count(f"nodes:{min(len(r['nodes']), 41) // 5 * 5:02d}+")
                t = r["topo"]
                chk.count("topo:" + (t["err"] if isinstance(t, dict) else "ok"))
                for pn in r["per"]:
                    chk.count("bfs(node):" + (pn["bfs"]["err"] or "ok"))
            elif op["op"] in ("add_child", "remove", "update_edges"):
                chk.count(f"op:{op['op']}:" + (r["err"] if isinstance(r, dict) else "ok"))
        col.oracle(case, verdicts)
        if model is not None:
            chk.traces_validated += 1
            m = model[idx]
            if rep.get("timeout") or "res" not in m or m["res"] != rep["res"]:
                d = "timeout" if rep.get("timeout") else first_diff(rep.get("res"), m.get("res"), "res")
                if len(col.disagree) < 50:
                    col.disagree.append((case, d))
                else:
                    col.disagree.append((None, None))
        chk.case(case if len(json.dumps(case)) < 1500 else {"kind": case["kind"], "ops": len(case["ops"]), "family": fam}, nontrivial(case, rep))


def run(chk: common.Check):
    broken = chk.lean_obligations()
    use_driver = "lake-build-failed" not in broken and common.DRIVER.exists()
    col = Collector(chk)
    pool = mp.get_context("fork").Pool(4)
    t0 = time.time()
    try:
        batch = []
        for fc in case_stream(chk.tier, chk.seed):
            batch.append(fc)
            if len(batch) >= BATCH:
                process(chk, col, batch, use_driver, pool)
                batch = []
        if batch:
            process(chk, col, batch, use_driver, pool)

        problems = list(broken)
        real_dis = [d for d in col.disagree]
        if real_dis:
            problems.append(f"correspondence: {len(real_dis)} case(s) differ between /repo and the model; first: {real_dis[0][1]}")
            chk.extra["disagreements"] = [{"case": c, "diff": d} for c, d in real_dis[:5] if c is not None]
        if not use_driver and "lake-build-failed" not in broken:
            problems.append("driver-missing")

        if problems:

            def search():
                # 1. failing inputs already seen by the oracle in the main pass
                col.report()
                # 2. shrunk relatives of the disagreeing cases + a widened random stream
                rng = common.Rng(chk.seed, "c17-search")
                extra = []
                for c, _ in real_dis[:20]:
                    if c is not None:
                        extra.extend(("shrunk", v) for v in gg.shrink_variants(c))
                for k in range(3000):
                    extra.append(("search-random", gg.random_dag_case(rng, gg.ALL_KINDS[k % 7], 12, parallel=False)))
                for k in range(500):
                    extra.append(("search-mutation", gg.mutation_case(rng, gg.PLAIN_KINDS[k % 5])))
                reps = run_impl([c for _, c in extra], pool)
                for (_, c), (_r, verdicts) in zip(extra, reps):
                    col.oracle(c, verdicts)
                col.report()

            common.broken_obligation(chk, problems, search)
        else:
            col.report()
    finally:
        pool.close()
        pool.join()
    chk.extra["suite_s"] = round(time.time() - t0, 1)
    # the <=5-node DAG families and the <=3-node digraphs are enumerated completely; the run as a
    # whole also contains sampled families, so the global flag stays false
    chk.exhaustive = False
    chk.extra["exhaustive_families"] = ["exh-dag0..5 (all 29854 labelled DAGs with <= 5 nodes)", "digraph1..3 (all 530 digraphs with <= 3 nodes)", "ord-dag2..4"] + (["ord-dag5"] if chk.tier == "thorough" else [])
    chk.rule = (
        "corpus of past failures; EVERY labelled DAG with <= 5 nodes (label = dict position, so every insertion "
        "order that changes dict order is a distinct case; 1+1+3+25+543+29281) built by add_node/add_child with "
        "ascending child order, the same DAGs with reversed / shuffled edge order and through Graph(nodes=mapping) "
        "(all for <= 4 nodes; quick: 1500 sampled, thorough: all 5-node DAGs twice more); an arithmetic slice of the "
        "3 781 503 labelled 6-node DAGs (quick 1500, thorough ~122000; offset from the seed); every digraph with <= 3 "
        "nodes incl. self loops; random DAGs <= 40 nodes (every 10th with parallel edges); random cyclic graphs; "
        "random API histories with remove/re-add/update_edges/errors and a query after every mutation; re-wiring "
        "histories (build, query, update_edges with an edge dropped/reversed/added and keys permuted, query; every "
        "2nd on a real TaskGraph through TaskGraph.update_edges).  Half of the task/job cases give runtimes and SLOs "
        "in mixed units (us/ms/s).  Node labels rotate over "
        "int (1-based), int (0 falsy), str ('' falsy), tuple (() falsy), identity-hashed objects, real Task in a real "
        "TaskGraph, real Job in a real JobGraph.  Every query observes all public methods (for <= 6 nodes: every node, "
        "every ordered pair, a node outside the graph).  non-trivial = some query saw >= 2 nodes and >= 1 edge; "
        "distinct = hash of the canonical case."
    )
    chk.assumptions += [
        "Lean model M3 is tied to workload/graph.py only through the cases above (bounded differential testing)",
        "labels: hash/eq of the node objects is by identity or value; __bool__ of Task/Job is the default (truthy)",
        "CPython recursion limit (topological_sort recurses once per node on a path) is not modelled: graphs <= 40 nodes",
        "TaskGraph/JobGraph cached_property critical_path_runtime and JobGraph._completion_time are reset by the harness before each read",
        "oracle clauses for longest path / critical path are evaluated for all-positive weights only (zero / negative weights: correspondence only)",
        "parallel edges (multigraphs) and falsy start labels are outside the property: correspondence only",
        "a generator that yields more than 1000 nodes is not followed further (reported as Runaway on both sides); since /repo 13ffad9 no explored case does that (breadth_first(node) raises RuntimeError on a reachable cycle)",
    ]


# ---------------------------------------------------------------------------
# replay
# ---------------------------------------------------------------------------


def replay(path) -> int:
    data = json.loads(open(path).read())
    case = data.get("case")
    if not case:
        print(f"replay {path}: no concrete failing input was recorded ({data.get('signature')})")
        return 0
    rep = gi.run_case(case)
    fails = go.check_case(case, rep)
    known = common.known_findings("C17")
    import re

    bad = [(s, d) for s, d in fails if not any(re.search(k["match"], s) for k in known)]
    want = data.get("signature")
    for s, d in fails:
        tag = "REPRODUCED" if s == want else ("other" if (s, d) in bad else "known")
        print(f"replay: [{tag}] {s} :: {json.dumps(d)[:300]}")
    if bad:
        print(f"VIOLATION property=C17 replay={path}")
        return 1
    print(f"replay {path}: property holds on this input now")
    return 0


if __name__ == "__main__":
    sys.exit(replay(sys.argv[1]))
