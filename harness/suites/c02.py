"""C02 — end-to-end simulator suite — see _e2e_common.py."""
from harness import common
from harness.suites import _e2e_common as e2e

TECHNIQUE = "Lean 4 theorems over an executable simulator model (any policy = decision tape); model tied to /repo by replaying recorded end-to-end runs and comparing the complete trace"


def run(chk: common.Check):
    e2e.run_suite(chk, "C02", streams=("regular", "dag", "batch", "retime", "malformed"))


def replay(path) -> int:
    return e2e.replay("C02", path)
