"""Shared machinery of the task-graph suites (C06, C07, C18): online history
generation on the real TaskGraph, correspondence with the Lean model, and the
model-independent oracles of the three properties."""
from __future__ import annotations

import copy
import json
import random as _random

from harness import common
from harness.gen import taskgraph_gen as tgen

FINAL = {"COMPLETED", "CANCELLED"}
LEGAL = {
    ("VIRTUAL", "RELEASED"),
    ("RELEASED", "SCHEDULED"),
    ("VIRTUAL", "SCHEDULED"),
    ("SCHEDULED", "RUNNING"),
    ("RUNNING", "COMPLETED"),
    ("SCHEDULED", "VIRTUAL"),
    ("SCHEDULED", "RELEASED"),
    ("VIRTUAL", "CANCELLED"),
    ("RELEASED", "CANCELLED"),
    ("SCHEDULED", "CANCELLED"),
    ("RUNNING", "PREEMPTED"),
    ("PREEMPTED", "RUNNING"),
    ("RUNNING", "EVICTED"),
    ("PREEMPTED", "EVICTED"),
    ("PREEMPTED", "COMPLETED"),
    ("PREEMPTED", "SCHEDULED"),
}
DONE = {"COMPLETED", "EVICTED"}


def doomed(graph, states, root):
    """Least set containing root, every non-terminal child of a member, and every
    terminal node all of whose parents are members or already CANCELLED."""
    n = len(graph["tasks"])
    mem = {root}
    changed = True
    while changed:
        changed = False
        for m in list(mem):
            for c in graph["children"][m]:
                if c in mem:
                    continue
                if not graph["tasks"][c]["terminal"]:
                    mem.add(c)
                    changed = True
                elif all(p in mem or states[p] == "CANCELLED" for p in graph["parents"][c]):
                    mem.add(c)
                    changed = True
    return mem


def is_closed(graph, pst):
    """Cancellation is closed downstream in `pst`: every child of a cancelled task is cancelled, except a terminal
    (join) child that still has a parent which is not cancelled. States reached through TaskGraph.cancel /
    notify_task_completion only are closed; a bare Task.cancel() on one task breaks it."""
    for k0, st0 in enumerate(pst):
        if st0 != "CANCELLED":
            continue
        for c in graph["children"][k0]:
            if pst[c] == "CANCELLED":
                continue
            if graph["tasks"][c]["terminal"] and any(pst[q] != "CANCELLED" for q in graph["parents"][c]):
                continue
            return False
    return True


def has_dup_dfs(graph, root):
    seen, stack, out = set(), [root], []
    while stack:
        x = stack.pop()
        seen.add(x)
        out.append(x)
        for c in graph["children"][x]:
            if c not in seen:
                stack.append(c)
    return len(out) != len(set(out))


def oracle(prop, graph, init, ops, obs):
    """Yields (signature, detail). `graph` is the Lean-side graph (real positions)."""
    prev = init
    before_sched = {}
    for i, (op, o) in enumerate(zip(ops, obs)):
        cur = o["tasks"]
        if prop == "C06" and o["out"] == "ok" and "n" in op and op["n"] < len(prev):
            # "may fall back from SCHEDULED to its earlier state": the state it was scheduled from
            if op["op"] == "schedule" and prev[op["n"]][0] != "SCHEDULED":
                # (only the lifecycle the property describes: a task scheduled from PREEMPTED is outside it)
                if prev[op["n"]][0] in ("VIRTUAL", "RELEASED"):
                    before_sched[op["n"]] = prev[op["n"]][0]
                else:
                    before_sched.pop(op["n"], None)
            elif op["op"] == "unschedule" and op["n"] in before_sched and cur[op["n"]][0] in ("VIRTUAL", "RELEASED") and cur[op["n"]][0] != before_sched[op["n"]]:
                yield (f"C06 unschedule-falls-back-to-{cur[op['n']][0]}-instead-of-the-earlier-state-{before_sched[op['n']]}", {"step": i, "task": op["n"]})
        pst = [t[0] for t in prev]
        cst = [t[0] for t in cur]
        name = op["op"]
        if prop == "C06":
            for k, (a, b) in enumerate(zip(pst, cst)):
                if a != b and (a, b) not in LEGAL:
                    yield (f"C06 illegal-transition {a}->{b} by {name}", {"step": i, "task": k})
                if a in FINAL and cur[k] != prev[k] and name not in ("notify",):
                    yield (f"C06 final-state-mutated {a} by {name}", {"step": i, "task": k})
            if name in ("unschedule", "start", "finish") and o["out"] == "ok" and "n" in op and op["n"] < len(pst):
                # these calls must move the task on: SCHEDULED -> its state before scheduling / RUNNING / COMPLETED
                if cst[op["n"]] == pst[op["n"]]:
                    yield (f"C06 lifecycle-call-returned-without-changing-the-state via={name} state={pst[op['n']]}", {"step": i, "task": op["n"]})
            if name == "cancel" and o["out"] == "ok" and isinstance(o["ret"], list):
                # "returns the tasks that were cancelled as a result": exactly the tasks this call moved to CANCELLED
                # (a request for an already cancelled task cancels nothing and reports nothing)
                newly = sorted(k for k in range(len(cst)) if cst[k] == "CANCELLED" and pst[k] != "CANCELLED")
                if sorted(o["ret"]) != newly:
                    yield (f"C06 cancel-reports-other-tasks-than-it-cancelled root-state={pst[op['n']] if op['n'] < len(pst) else '?'}", {"step": i, "returned": sorted(o["ret"]), "cancelled": newly})
            if name == "cancel" and o["out"] == "ok":
                root = op["n"]
                # precondition (reachable through TaskGraph.cancel only): a cancelled task's
                # non-terminal children are cancelled too; a bare Task.cancel() breaks it
                closed = is_closed(graph, pst)
                if pst[root] in ("VIRTUAL", "RELEASED", "SCHEDULED") and closed:
                    mem = doomed(graph, pst, root)
                    live = [m for m in mem if pst[m] in ("VIRTUAL", "RELEASED", "SCHEDULED")]
                    missed = [m for m in live if cst[m] != "CANCELLED"]
                    if missed:
                        dup = has_dup_dfs(graph, root)
                        yield (
                            f"C06 cancel-closure-incomplete dup-dfs={dup} terminal-involved={any(graph['tasks'][m]['terminal'] for m in mem) or any(graph['tasks'][c]['terminal'] for m in mem for c in graph['children'][m])}",
                            {"step": i, "root": root, "not_cancelled": missed},
                        )
                    extra = [k for k in range(len(cst)) if k not in mem and cst[k] != pst[k]]
                    if extra:
                        yield ("C06 cancel-touched-outside-closure", {"step": i, "root": root, "touched": extra})
                    if sorted(o["ret"]) != sorted(k for k in range(len(cst)) if cst[k] == "CANCELLED" and pst[k] != "CANCELLED"):
                        yield ("C06 cancel-return-list-differs-from-cancelled-set", {"step": i, "root": root})
        if prop == "C08" and name == "graph_status" and o["out"] == "ok" and isinstance(o["ret"], dict):
            # what the TASK_GRAPH_RELEASE / TASK_GRAPH_FINISHED / MISSED_TASK_GRAPH_DEADLINE rows print about a task
            # graph: its deadline is the latest deadline of ALL its tasks (a graph is late when any task is)
            want = max((t[3] for t in cur), default=None)
            if want is not None and o["ret"]["deadline"] != want:
                yield ("C08 task-graph-deadline-differs-from-the-latest-task-deadline", {"step": i, "reported": o["ret"]["deadline"], "task_deadlines": [t[3] for t in cur]})
        if prop == "C07" and name == "notify" and o["out"] == "ok":
            n = op["n"]
            kids = graph["children"][n]
            if graph["tasks"][n]["conditional"] and kids and is_closed(graph, pst):
                probs = [prev[c][8] for c in kids]
                rel, can = o["ret"]["released"], o["ret"]["cancelled"]
                if all(p <= 0 for p in probs):
                    if rel:
                        yield ("C07 released-with-all-zero-probabilities", {"step": i})
                    untaken = kids
                else:
                    if len(rel) != 1 or rel[0] not in kids:
                        yield ("C07 not-exactly-one-child-released", {"step": i, "released": rel})
                        prev = cur
                        continue
                    if prev[rel[0]][8] <= 0:
                        yield ("C07 zero-probability-child-released", {"step": i, "released": rel})
                    untaken = [c for c in kids if c != rel[0]]
                # expected: every task on the branches not taken, up to but excluding the join
                exp = set()
                st = list(pst)
                for c in untaken:
                    if pst[c] in ("VIRTUAL", "RELEASED", "SCHEDULED"):
                        m = doomed(graph, st, c)
                        exp |= {x for x in m if pst[x] in ("VIRTUAL", "RELEASED", "SCHEDULED")}
                        for x in m:
                            if st[x] in ("VIRTUAL", "RELEASED", "SCHEDULED"):
                                st[x] = "CANCELLED"
                got = {k for k in range(len(cst)) if cst[k] == "CANCELLED" and pst[k] != "CANCELLED"}
                if got != exp:
                    missing = sorted(exp - got)
                    extra = sorted(got - exp)
                    fork = any(len(graph["children"][x]) > 1 for c in untaken for x in doomed(graph, pst, c))
                    yield (
                        f"C07 untaken-branches-not-exactly-cancelled missing={bool(missing)} extra={bool(extra)} fork-in-branch={fork}",
                        {"step": i, "missing": missing, "extra": extra},
                    )
                if sorted(can) != sorted(got):
                    yield ("C07 cancel-return-list-differs-from-cancelled-set", {"step": i})
        if prop == "C18":
            if name == "schedulable" and o["out"] == "ok":
                L = o["ret"]
                for k, t in enumerate(prev):
                    if t[0] == "RELEASED" and t[2] <= op["time"] + op["lookahead"] and k not in L:
                        yield ("C18 ready-task-not-offered", {"step": i, "task": k})
                for k in L:
                    s = pst[k]
                    if s in ("COMPLETED", "CANCELLED"):
                        yield (f"C18 {s.lower()}-task-offered", {"step": i, "task": k})
                    if s == "RUNNING":
                        yield ("C18 running-task-offered-without-preemption", {"step": i, "task": k})
                    if s == "SCHEDULED" and not op["retract"]:
                        yield ("C18 scheduled-task-offered-without-retraction", {"step": i, "task": k})
                if len(L) != len(set(L)):
                    yield ("C18 task-offered-twice", {"step": i})
                # a VIRTUAL task is offered only if every VIRTUAL predecessor that can be estimated at all is offered
                # too (its estimated release is no later): otherwise a task is offered whose predecessor cannot have
                # completed. Checked on graphs without conditionals (no branch prediction), without retraction and
                # without whole-graph release, where the offer is a pure horizon test.
                if not op["retract"] and not op["rtg"] and not any(t["conditional"] for t in graph["tasks"]):
                    est = {k for k in range(len(pst)) if pst[k] in ("COMPLETED", "RUNNING", "PREEMPTED", "EVICTED", "RELEASED", "SCHEDULED")}
                    todo = list(est)
                    while todo:
                        x = todo.pop()
                        for c in graph["children"][x]:
                            if pst[c] == "VIRTUAL" and c not in est:
                                est.add(c)
                                todo.append(c)
                    for k in L:
                        if pst[k] != "VIRTUAL":
                            continue
                        for q in graph["parents"][k]:
                            if pst[q] == "VIRTUAL" and q in est and q not in L:
                                yield ("C18 task-offered-although-its-virtual-predecessor-is-not", {"step": i, "task": k, "predecessor": q})
            if name == "notify" and o["out"] == "ok" and not graph["tasks"][op["n"]]["conditional"]:
                n = op["n"]
                exp = []
                for c in graph["children"][n]:
                    if pst[c] == "CANCELLED":
                        continue
                    if graph["tasks"][c]["terminal"] or all(pst[p] in DONE for p in graph["parents"][c]):
                        exp.append(c)
                if o["ret"]["released"] != exp:
                    yield ("C18 release-on-completion-differs", {"step": i, "expected": exp, "got": o["ret"]["released"]})
            if name == "releasable" and o["out"] == "ok":
                exp = [
                    k
                    for k in range(len(pst))
                    if pst[k] in ("VIRTUAL", "SCHEDULED", "PREEMPTED") and all(pst[p] in DONE for p in graph["parents"][k])
                ]
                if o["ret"] != exp:
                    yield ("C18 releasable-set-differs", {"step": i})
        prev = cur


def mono_probes(world, rec, now, rng):
    """Monotonicity of the offer in lookahead / release_taskgraphs on the REAL
    object, with the same random tape for both calls. Returns list of signatures."""
    from harness.impl import taskgraph_impl as impl

    out = []
    pol = rng.choice(tgen.POLICIES)
    retract = rng.random() < 0.3
    l1, l2 = sorted(rng.sample([0, 1, 2, 5, 10, 50, 1000], 2))

    def call(lookahead, rtg, replay):
        n0 = len(rec.tape)
        rec.replay = replay
        try:
            r = world.tg.get_schedulable_tasks(impl.et(now), impl.et(lookahead), False, retract, None, impl.POLICY[pol], 0.5, rtg)
            res = [world.pos[id(x)] for x in r]
        except Exception:
            res = None
        rec.replay = None
        draws = rec.tape[n0:]
        del rec.tape[n0:]
        return res, draws

    a, draws = call(l1, False, None)
    b, _ = call(l2, False, list(draws) + [{"k": "choice", "v": 0}, {"k": "coin", "v": True}] * 50)
    if a is not None and b is not None and not set(a) <= set(b):
        out.append(("C18 offer-shrinks-when-lookahead-grows", {"now": now, "l1": l1, "l2": l2, "policy": pol, "a": a, "b": b}))
    c, _ = call(l1, True, list(draws) + [{"k": "choice", "v": 0}, {"k": "coin", "v": True}] * 50)
    if a is not None and c is not None and not set(a) <= set(c):
        out.append(("C18 offer-shrinks-with-release-taskgraphs", {"now": now, "l": l1, "policy": pol, "a": a, "c": c}))
    return out


def run_history(spec, rng, length, fixed_ops=None, probes=False):
    """Online generation + execution on the real objects."""
    from harness.impl import taskgraph_impl as impl

    spec = dict(spec, nodes={int(k): v for k, v in spec["nodes"].items()})
    w = impl.GraphWorld(spec)
    rec = impl.Recorder()
    rec.install(_random.Random(rng.getrandbits(32)))
    init = w.snap()
    ops, lops, obs, probe_hits = [], [], [], []
    now = 0
    try:
        for step in range(length if fixed_ops is None else len(fixed_ops)):
            op = tgen.next_op(rng, w, now) if fixed_ops is None else fixed_ops[step]
            ops.append(op)
            rop = dict(op)
            if "n" in rop:
                rop["n"] = w.label_pos[rop["n"]]
            out, ret, lop = w.apply(rop, rec)
            obs.append({"out": out, "ret": ret, "tasks": w.snap()})
            lops.append(lop)
            if probes and rng.random() < 0.15:
                probe_hits.extend(mono_probes(w, rec, now, rng))
            if rng.random() < 0.4:
                now += rng.choice([1, 1, 2, 5])
    finally:
        rec.uninstall()
    tape = [d for d in rec.tape if d["k"] != "fuzzraw"]
    case = {"suite": "taskgraph", "graph": w.lean_graph(), "ops": lops, "tape": tape}
    return {"spec": spec, "gen_ops": ops, "case": case, "init": init, "obs": obs, "probe_hits": probe_hits}


def first_diff(a, b, path=""):
    if isinstance(a, dict) and isinstance(b, dict):
        for k in sorted(set(a) | set(b)):
            if k not in a or k not in b:
                return f"{path}/{k}: missing on one side"
            d = first_diff(a[k], b[k], f"{path}/{k}")
            if d:
                return d
        return None
    if isinstance(a, list) and isinstance(b, list):
        if len(a) != len(b):
            return f"{path}: len {len(a)} != {len(b)}: {a!r} vs {b!r}"
        for i, (x, y) in enumerate(zip(a, b)):
            d = first_diff(x, y, f"{path}[{i}]")
            if d:
                return d
        return None
    return None if a == b else f"{path}: impl {a!r} != model {b!r}"


def shrink_history(spec, gen_ops, fails):
    ops = list(gen_ops)
    changed = True
    while changed and len(ops) > 1:
        changed = False
        for i in range(len(ops)):
            cand = ops[:i] + ops[i + 1 :]
            try:
                if fails(cand):
                    ops = cand
                    changed = True
                    break
            except Exception:
                continue
    return ops


def specs(chk, prop):
    rng = common.Rng(chk.seed, f"{prop}-tg")
    quick = chk.tier == "quick"
    out = [tgen.fork_in_branch_graph(), tgen.diamond_graph()]
    n = 500 if quick else 8000
    for i in range(n):
        out.append(tgen.gen_grammar_graph(rng) if rng.random() < 0.7 else tgen.gen_random_dag(rng))
    return out, rng


def run_suite(chk: common.Check, prop: str, extra_after=None):
    broken = chk.lean_obligations()
    sp, rng = specs(chk, prop)
    runs = []
    # corpus first: deterministic scripted histories for the two known shapes
    fork = tgen.fork_in_branch_graph()
    scripted = [
        (fork, [
            {"op": "release", "n": 0, "time": 0},
            {"op": "schedule", "n": 0, "time": 0, "ptime": 0, "pool": 0, "s": fork["nodes"][0]["strategies"][0]},
            {"op": "start", "n": 0, "time": 0, "variance": 0},
            {"op": "step", "n": 0, "now": 0, "dt": 2},
            {"op": "finish", "n": 0, "time": 2},
            {"op": "notify", "n": 0, "time": 2},
            {"op": "graph_status"},
        ]),
        (fork, [{"op": "cancel", "n": 0, "time": 1}, {"op": "graph_status"}]),
        (tgen.diamond_graph(), [{"op": "cancel", "n": 0, "time": 1}, {"op": "dfs", "n": 0}]),
    ]
    for spec, ops in scripted:
        for choice in (0, 1):
            r = common.Rng(chk.seed + choice, "scripted")
            runs.append(run_history(spec, r, 0, fixed_ops=ops))
    for spec in sp:
        runs.append(run_history(spec, rng, rng.randint(4, 30), probes=(prop == "C18")))
    try:
        replies = common.run_driver([r["case"] for r in runs])
    except common.LeanFailure as e:
        broken.append(f"driver: {e.what}")
        replies = None
    disagreements = []
    reported = set()
    for ri, r in enumerate(runs):
        case, obs = r["case"], r["obs"]
        nontrivial = sum(1 for o in obs if o["out"] == "ok") >= 2 and len({t[0] for o in obs for t in o["tasks"]}) >= 2
        chk.case({"graph_nodes": len(case["graph"]["tasks"]), "children": case["graph"]["children"], "ops": r["gen_ops"][:8], "n_ops": len(obs)}, nontrivial)
        for op, o in zip(case["ops"], obs):
            chk.count(f"op:{op['op']}")
            chk.count(f"out:{o['out']}")
        for t in (obs[-1]["tasks"] if obs else []):
            chk.count(f"final-state:{t[0]}")
        hits = list(oracle(prop, case["graph"], r["init"], case["ops"], obs)) + [h for h in r["probe_hits"] if h[0].startswith(prop)]
        for sig, detail in hits:
            if sig in reported and chk.matches_known(sig) is None:
                continue
            reported.add(sig)
            gen_ops = r["gen_ops"]
            if chk.matches_known(sig) is None and not sig.startswith("C18 offer-shrinks"):

                def fails(cand, sig=sig, spec=r["spec"]):
                    rr = run_history(spec, common.Rng(0, "shrink"), 0, fixed_ops=cand)
                    return any(s == sig for s, _ in oracle(prop, rr["case"]["graph"], rr["init"], rr["case"]["ops"], rr["obs"]))

                # draws are re-drawn during shrinking, so only deterministic failures shrink
                try:
                    if fails(gen_ops):
                        gen_ops = shrink_history(r["spec"], gen_ops, fails)
                except Exception:
                    pass
            chk.violation(sig, {"suite": "taskgraph", "spec": r["spec"], "gen_ops": gen_ops, "detail": detail, "how": "oracle on the real TaskGraph/Task objects"})
        if replies is not None:
            rep = replies[ri]
            if "obs" not in rep:
                disagreements.append((ri, f"driver: {rep}"))
                continue
            d = first_diff(obs, rep["obs"])
            if d is None and rep.get("tape_left", 0) != 0:
                d = f"model left {rep['tape_left']} draws unconsumed"
            if d:
                disagreements.append((ri, d))
            else:
                chk.traces_validated += 1
    chk.extra["correspondence_disagreements"] = len(disagreements)
    if disagreements:
        ri, d = disagreements[0]
        broken.append(f"correspondence taskgraph: {len(disagreements)} history(ies) differ; first: {d}")
        chk.extra["first_disagreement"] = {"spec": runs[ri]["spec"], "gen_ops": runs[ri]["gen_ops"], "diff": d}
    if extra_after is not None:
        broken.extend(extra_after(chk) or [])
    if broken:

        def search():
            r2 = common.Rng(chk.seed, f"{prop}-search")
            for _ in range(4000):
                spec = tgen.gen_grammar_graph(r2) if r2.random() < 0.7 else tgen.gen_random_dag(r2)
                rr = run_history(spec, r2, r2.randint(4, 30), probes=(prop == "C18"))
                hits = list(oracle(prop, rr["case"]["graph"], rr["init"], rr["case"]["ops"], rr["obs"])) + [h for h in rr["probe_hits"] if h[0].startswith(prop)]
                for sig, detail in hits:
                    if chk.matches_known(sig) is None:
                        chk.violation(sig, {"suite": "taskgraph", "spec": spec, "gen_ops": rr["gen_ops"], "detail": detail, "how": "failing-input search (oracle on real code)"})
                        return

        common.broken_obligation(chk, broken, search)
    chk.rule = (
        "graphs: 70% from the grammar task|seq|par|cond(branches, terminal join) (depth<=3), 30% random DAGs <=7 nodes with stray "
        "conditional/terminal flags, random dict insertion orders; histories generated ONLINE on the real objects (next call chosen from the "
        "real states, 85% plausible / 15% arbitrary), 4-30 calls: release/schedule/unschedule/start/step/finish/cancel/preempt, "
        "TaskGraph.cancel, notify_task_completion, get_schedulable_tasks (all policies, lookahead, retract, release_taskgraphs), "
        "get_releasable_tasks, resolve_conditional, is_ready_to_run, status; non-trivial = >=2 successful calls and >=2 distinct task states seen"
    )
    chk.assumptions += [
        "structure (node order, parent order, topological order) is read from the real TaskGraph; the graph algorithms are C17's model",
        "random draws are recorded from the real run and replayed by the model in program order",
    ]


def replay(prop, path) -> int:
    data = json.loads(open(path).read())
    rr = run_history(data["spec"], common.Rng(0, "replay"), 0, fixed_ops=data["gen_ops"])
    sigs = [s for s, _ in oracle(prop, rr["case"]["graph"], rr["init"], rr["case"]["ops"], rr["obs"])]
    print("signatures on the current tree:", sorted(set(sigs)))
    if data["signature"] in sigs:
        print(f"VIOLATION property={prop} replay={path}")
        return 1
    return 0
