"""C10 — decided per scheduling policy; see _planner_props.py and harness/planners/."""
from harness import common
from harness.suites import _planner_props as pp

TECHNIQUE = "Lean 4 theorems over generated constraint systems / policy models; model tied to /repo by comparing the captured solver model and returned Placements on generated scheduler inputs"


def run(chk: common.Check):
    pp.run_prop(chk, "C10")


def replay(path) -> int:
    return pp.replay("C10", path)
