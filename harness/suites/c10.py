"""C10 — decided per scheduling policy; see _planner_props.py and harness/planners/.  Every decision of an end-to-end run
of the real Simulator under the real ILP / TetriSched planners is a scheduler input the simulator really reached: the
run-level clauses are judged by _e2e_common.planner_decision_oracle (docs/e2e_planners.md)."""
import json

from harness import common
from harness.suites import _e2e_common as e2e
from harness.suites import _planner_props as pp

TECHNIQUE = "Lean 4 theorems over generated constraint systems / policy models; model tied to /repo by comparing the captured solver model and returned Placements on generated scheduler inputs; decisions of end-to-end runs under the real planners judged by run-level oracles"


def run(chk: common.Check):
    pp.run_prop(chk, "C10")
    e2e.run_planner_pass(chk, "C10", n_quick=160, n_thorough=1500)


def replay(path) -> int:
    if json.load(open(path)).get("suite") == "sim":
        return e2e.replay("C10", path)
    return pp.replay("C10", path)
