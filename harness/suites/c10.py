"""TEMPORARY local test suite (owned by the integrator; not committed by the ILP slice)."""
import json
from harness import common
from harness.planners import ilp
TECHNIQUE = "Lean 4 proof over hand-written model + differential correspondence"
PROP = "C10"
def run(chk):
    broken = chk.lean_obligations()
    rng = common.Rng(chk.seed, PROP.lower())
    dis = ilp.run(PROP, chk, rng, chk.tier)
    chk.extra["disagreements"] = dis[:5]
    if broken or dis:
        common.broken_obligation(chk, broken + [d[:300] for d in dis[:3]], lambda: ilp.search(PROP, chk, rng, chk.tier))
    chk.rule = "generated ILP invocations; non-trivial = model built for >=1 offered task"
def replay(path):
    rp = json.load(open(path))
    if rp.get("spec") is None:
        print("no failing input recorded:", rp.get("broken"))
        return 1
    return ilp.replay(rp)
