"""C07 — task-graph suite (direct-call histories) — see _taskgraph_common.py."""
from harness import common
from harness.suites import _taskgraph_common as tg

TECHNIQUE = "Lean 4 theorems over an executable Task/TaskGraph model; model tied to /repo by differential call-history correspondence"


def run(chk: common.Check):
    tg.run_suite(chk, "C07")
    rule = chk.rule
    # run-level clauses: every state change of every task during end-to-end runs of the real simulator
    from harness.suites import _e2e_common as e2e

    e2e.run_suite(chk, "C07", n_quick=250, n_thorough=2500, streams=("regular", "resolve", "batch", "retime", "resolve", "dag"))
    chk.rule = rule + " || end-to-end: " + chk.rule


def replay(path) -> int:
    import json

    if json.loads(open(path).read()).get("suite") == "sim":
        from harness.suites import _e2e_common as e2e

        return e2e.replay("C07", path)
    return tg.replay("C07", path)
