"""C20 — STRL compilation: every model solution is a valid space-time allocation.

Correspondence: the real C++ classes (compiled from $ERDOS_REPO on every run,
driven by cxx/strl_driver.cpp) against the Lean model `ErdosVerif.Strl`:
the dumped constraint system is compared term by term with `compile`, and for
several feasible assignments per case (optimum, random directions, exhaustive
enumeration of tiny models) `populateResults` is compared with `populate`.
Oracle: harness/impl/strl_oracle.py checks what the C++ read back against the
reference semantics of the tree (capacity at every time, exact demand and
duration, Min / Max / LessThan structure, utility) and compares the optimum
with a brute force over schedules.  Optimisation passes are covered only here
(differential run with every subset of passes): a test, not a proof.
"""
from __future__ import annotations

import copy
import json
import sys
import time

from harness import common
from harness.gen import strl as gen
from harness.impl import strl_canon as canon
from harness.impl import strl_cxx as cxx
from harness.impl import strl_oracle as oracle
from harness.impl import strl_solve as solve

TECHNIQUE = "Lean 4 proof over hand-written model + differential correspondence (constraint system and read-back) + semantic oracle"

PROFILES = [
    # name, weight, generator profile
    ("aligned", 6, {"aligned": True}),
    ("unaligned", 2, {"aligned": False}),
    ("zero-util", 1, {"aligned": True, "zero_util": True}),
    ("dup-names", 1, {"aligned": True, "dup_task_names": True}),
    ("malformed", 1, {"aligned": True, "malformed": True}),
]


# ---------------------------------------------------------------------------
# features of a case: used to name the failing input class
# ---------------------------------------------------------------------------


def const_times(n) -> tuple[bool, bool]:
    """(start is a compile-time constant, end is a compile-time constant) of the node's parse result."""
    if n["t"] in ("choose", "alloc"):
        return (True, True)
    if n["t"] == "scale":
        return const_times(n["ch"][0])
    if n["t"] == "lt":
        return (const_times(n["ch"][0])[0], const_times(n["ch"][1])[1])
    return (False, False)


def static_lt(n) -> bool:
    """LessThan whose ordering is decided at compile time (first child's end and second child's start are constants)."""
    return n["t"] == "lt" and const_times(n["ch"][0])[1] and const_times(n["ch"][1])[0]


def const_ind(n) -> bool:
    """Does the node report the constant indicator 1?"""
    if n["t"] == "alloc":
        return True
    if n["t"] == "scale":
        return const_ind(n["ch"][0])
    if n["t"] == "lt":
        return static_lt(n)
    if n["t"] == "min":
        return all(const_ind(c) for c in n["ch"])
    return False


def window_features(case) -> set[str]:
    """Features of the WindowedChoose / MalleableChoose nodes of a case (none for the trees of the earlier rounds)."""
    f = set()
    g = case["gran"]
    for n in gen.walk(case["tree"]):
        if n["t"] == "wchoose":
            f.add("wchoose")
            if n["start"] < case["now"] <= n["end"]:
                f.add("wchoose-window-opens-before-now")
            if n["end"] % n["gran"] != 0:
                f.add("wchoose-window-end-off-grid")
            if n["gran"] != g:
                f.add("wchoose-own-granularity")
        if n["t"] == "mchoose":
            f.add("mchoose")
            if n["gran"] != g:
                f.add("mchoose-own-granularity")
        if n["t"] == "max" and any(c["t"] == "wchoose" for c in n["ch"]) and len(n["ch"]) >= 2:
            f.add("wchoose-max-sibling")
        if n["t"] == "lt":
            below = [x for c in n["ch"] for x in gen.walk(c)]
            if any(x["t"] == "mchoose" for x in below):
                f.add("mchoose-under-lessthan")
            if any(x["t"] == "max" and any(c["t"] == "wchoose" for c in x["ch"]) and len(x["ch"]) >= 2 for x in below):
                f.add("lessthan-over-wchoose-max-sibling")
    return f


QUIRKS = {"wchoose-window-opens-before-now", "wchoose-window-end-off-grid", "wchoose-own-granularity", "mchoose-own-granularity"}


def features(case) -> list[str]:
    f = window_features(case)
    g = case["gran"]
    if f:
        # unaligned / task-name features are those of the tree with every WindowedChoose written as Max over Chooses
        case = oracle.desugar(case)
    nodes = list(gen.walk(case["tree"]))
    starts = {n["start"] % g for n in nodes if n["t"] in ("choose", "alloc", "mchoose")}
    for n in nodes:
        if n["t"] == "mchoose":
            starts |= {t % g for t in oracle.mslots(n)}
    if g > 1 and len(starts) > 1:
        f.add("unaligned-granularity")
    if g > 1:
        f.add("coarse")
    for n in nodes:
        if static_lt(n):
            if any(x["t"] == "choose" for c in n["ch"] for x in gen.walk(c)):
                f.add("static-lessthan")
        if n["t"] == "lt" and not static_lt(n):
            f.add("lessthan-variable-times")
        if n["t"] == "lt" and any(x["t"] == "lt" for c in n["ch"] for x in gen.walk(c)):
            f.add("lessthan-under-lessthan")
        if n["t"] == "min" and all(const_ind(c) for c in n["ch"]):
            f.add("constant-utility-term")
        if n["t"] == "scale" and n["disregard"] and n["f"] != 0 and const_ind(n["ch"][0]):
            f.add("constant-utility-term")
        if n["t"] == "alloc":
            f.add("allocation")
        if n["t"] == "choose" and n["u"] == 0:
            f.add("zero-utility")
        if n["t"] == "scale" and n["f"] == 0:
            f.add("zero-utility")
    # a task name may be shared by the alternatives under one Max, nowhere else
    groups = {}

    def go(n, path, maxroot):
        # maxroot: path of the topmost Max of a chain of directly nested Max nodes (a desugared WindowedChoose is a Max)
        if n["t"] in ("choose", "mchoose"):
            groups.setdefault(n["name"], []).append(path if maxroot is None else maxroot)
        for i, c in enumerate(n.get("ch", [])):
            go(c, path + (i,), (path if maxroot is None else maxroot) if n["t"] == "max" else None)

    go(case["tree"], (), None)
    if any(len(set(v)) > 1 for v in groups.values()):
        f.add("task-name-shared-across-subtrees")
    return sorted(f)


def pruned_features(case, d0, d1) -> list[str]:
    """For a LessThan directly over a Min whose (Max) children have different durations: which valid-looking options
    did the passes remove?  `longer` = only options of children that last longer than the shortest child (known
    finding C20-F9: the pass pushes the Min's merged bounds, computed with the SHORTEST duration, to every child);
    `shortest` = an option of the shortest child itself, which the merged bounds describe exactly."""
    if not d0 or not d1 or d0.get("err") or d1.get("err"):
        return []

    def placed(d):
        out = set()
        for v in d.get("vars", []):
            nm = v["name"]
            if "_placed_at_" in nm:
                task, rest = nm.split("_placed_at_", 1)
                out.add((task, rest.split("_")[0]))
        return out

    gone = placed(d0) - placed(d1)
    tags = set()
    for n in gen.walk(case["tree"]):
        if n["t"] != "lt" or len(n.get("ch", [])) != 2:
            continue
        for side, c in enumerate(n["ch"]):
            if c["t"] != "min":
                continue
            kids = [k for k in c["ch"] if k["t"] in ("max", "choose")]
            durs = []
            for k in kids:
                ls = [x for x in gen.walk(k) if x["t"] == "choose"]
                if ls:
                    durs.append(min(x["dur"] for x in ls))
            if len(set(durs)) < 2:
                continue
            tags.add("lt-over-min-of-mixed-durations")
            other = [x for x in gen.walk(n["ch"][1 - side]) if x["t"] == "choose"]
            if not other:
                continue
            for k in kids:
                for x in gen.walk(k):
                    if x["t"] != "choose" or (x["name"], str(x["start"])) not in gone:
                        continue
                    ok = (x["start"] + x["dur"] <= max(o["start"] for o in other)) if side == 0 else (x["start"] >= min(o["start"] + o["dur"] for o in other))
                    if ok:
                        tags.add("pruned:shortest-child-of-min" if x["dur"] == min(durs) else "pruned:longer-child-of-min")
    if "pruned:shortest-child-of-min" in tags:
        tags.discard("pruned:longer-child-of-min")
    return sorted(tags)


def pclass(problem: str) -> str:
    """Problem class: capacity problems carry partition / time numbers, drop them."""
    return "capacity:oversubscribed" if problem.startswith("capacity:") else problem


def signatures(problems: list[str], feats: list[str], passes: int) -> list[str]:
    """One signature per violated clause: `C20 <clause> | features: … | passes: n`."""
    return [f"C20 {c} | features: {' '.join(feats) or 'none'} | passes: {passes}" for c in sorted({pclass(p) for p in problems})]


# ---------------------------------------------------------------------------
# corpus: minimised past failures / witnesses, always run first
# ---------------------------------------------------------------------------


def P(*q):
    return [{"id": i, "name": f"P{i}", "qty": x} for i, x in enumerate(q)]


def C(name, start, dur, n=1, u=1, parts=(0,)):
    return {"t": "choose", "name": name, "parts": list(parts), "n": n, "start": start, "dur": dur, "u": u}


def mk(tree_children, parts, gran=1, now=0, avail=None):
    return {"suite": "strl", "parts": parts, "avail": [p["id"] for p in parts] if avail is None else avail, "now": now, "gran": gran,
            "tree": {"t": "obj", "name": "O", "ch": tree_children}}


CORPUS = [
    # two unaligned leaves under granularity 2 overlap at time 1 on a 1-slot partition
    ("unaligned-g2", mk([C("A", 0, 2, u=2), C("B", 1, 2, u=3)], P(1), gran=2)),
    # statically ordered LessThan under a Min: only the first task fits
    ("static-lt-under-min", mk([{"t": "min", "name": "N", "ch": [{"t": "lt", "name": "L", "ch": [C("A", 0, 1, u=2), C("B", 1, 1, n=2, u=3)]}]}], P(1))),
    # Min over an Allocation only: utility constant 1
    ("min-of-alloc", mk([{"t": "min", "name": "N", "ch": [{"t": "alloc", "name": "A", "allocs": [[0, 1]], "start": 0, "dur": 1}]}, C("B", 1, 1)], P(1))),
    # F5: a satisfied zero-utility Choose under a Min gets no placement
    ("zero-utility-under-min", mk([{"t": "min", "name": "N", "ch": [C("A", 0, 1, u=0), C("B", 1, 1, u=2)]}], P(1))),
    # F6: the same task name in two independent subtrees, both satisfied
    ("shared-task-name", mk([{"t": "min", "name": "N", "ch": [C("A", 0, 1, u=2), C("A", 1, 1, u=3)]}], P(1))),
    # plain cases: Max alternatives, Min all-or-nothing, Scale, LessThan over Max
    ("max-alt", mk([{"t": "max", "name": "M", "ch": [C("T", 0, 2, n=2, u=3, parts=(0, 1)), C("T", 1, 2, n=2, u=2, parts=(0, 1))]},
                    {"t": "min", "name": "N", "ch": [C("U", 0, 1, u=5), {"t": "alloc", "name": "A", "allocs": [[1, 1]], "start": 0, "dur": 3}]}], P(2, 1))),
    ("lt-over-max", mk([{"t": "lt", "name": "L", "ch": [
        {"t": "max", "name": "M1", "ch": [C("T", 0, 2, u=2), C("T", 1, 2, u=1)]},
        {"t": "max", "name": "M2", "ch": [C("V", 1, 1, u=2), C("V", 3, 1, u=1)]}]}], P(1))),
    # the second child's best option starts exactly when the first child's EARLIEST option ends (and before its latest
    # option ends): time-bound propagation through LessThan must use the earliest end
    ("lt-over-max-tight", mk([{"t": "lt", "name": "L", "ch": [
        {"t": "max", "name": "M1", "ch": [C("T", 0, 2, u=2), C("T", 1, 2, u=1)]},
        {"t": "max", "name": "M2", "ch": [C("V", 1, 1, u=5), C("V", 2, 1, u=2), C("V", 3, 1, u=1)]}]}], P(1))),
    ("lt-over-max-three", mk([{"t": "lt", "name": "L", "ch": [
        {"t": "max", "name": "M1", "ch": [C("T", 0, 1, u=1), C("T", 2, 1, u=1), C("T", 4, 1, u=1)]},
        {"t": "max", "name": "M2", "ch": [C("V", 0, 1, u=4), C("V", 1, 2, u=3), C("V", 3, 1, u=2), C("V", 5, 1, u=1)]}]}], P(1))),
    # critical-path pass: a Max with options of different durations on either side of a LessThan,
    # the other side tightening the bound, the best option being the short one next to the bound
    ("lt-right-mixed-durations", mk([{"t": "lt", "name": "L", "ch": [
        {"t": "max", "name": "MA", "ch": [C("TA", 0, 2, u=1)]},
        {"t": "max", "name": "MB", "ch": [C("TB", 1, 3, u=1), C("TB", 2, 1, u=2), C("TB", 5, 1, u=1)]}]}], P(1))),
    ("lt-left-mixed-durations", mk([{"t": "lt", "name": "L", "ch": [
        {"t": "max", "name": "MA", "ch": [C("TA", 0, 3, u=1), C("TA", 2, 1, u=2), C("TA", 5, 1, u=1)]},
        {"t": "max", "name": "MB", "ch": [C("TB", 3, 1, u=1)]}]}], P(1))),
    # F8: the critical-path pass pushes `end = start + duration` into a nested LessThan
    ("cp-nested-lessthan", mk([{"t": "lt", "name": "L2", "ch": [
        {"t": "lt", "name": "L", "ch": [
            {"t": "max", "name": "M0", "ch": [C("TA", 1, 1, u=6), C("TA", 3, 4, u=3)]},
            {"t": "max", "name": "M1", "ch": [C("TB", 2, 2, u=2), C("TB", 5, 1, u=6), C("TB", 6, 2, u=1)]}]},
        C("TC", 7, 4, u=1)]}], P(1))),
    ("scale", mk([{"t": "scale", "name": "S", "f": 3, "disregard": False, "ch": [C("A", 0, 1, u=2)]},
                  {"t": "scale", "name": "S2", "f": 2, "disregard": True, "ch": [{"t": "min", "name": "N", "ch": [C("B", 0, 1), C("D", 1, 1)]}]}], P(1))),
    ("coarse-aligned", mk([C("A", 0, 3, u=2), C("B", 2, 2, u=3), C("D", 4, 1, u=1)], P(1), gran=2)),
]


# ---------------------------------------------------------------------------
# one batch: dump, compare, solve, read back, compare, oracle
# ---------------------------------------------------------------------------


class Batch:
    def __init__(self, chk: common.Check | None, use_lean=True):
        self.chk = chk
        self.use_lean = use_lean
        self.disagreements: list[dict] = []
        self.findings: list[tuple[str, dict]] = []  # (signature, replay)

    def count(self, k, n=1):
        if self.chk is not None:
            self.chk.count(k, n)

    def assignments(self, rng, case, model, tier):
        """Feasible assignments of the dumped model: optimum, random directions,
        and all of them when the model is tiny."""
        out = []
        status, opt, a = solve.solve_opt(model)
        if status == "optimal":
            out.append(("opt", a))
        cap = oracle.horizon(case) + 1
        for a in solve.solve_random(model, rng, 4 if tier == "quick" else 8, cap):
            out.append(("rand", a))
        allsol = solve.enumerate_all(model, cap, 20000 if tier == "quick" else 60000)
        enum_opt = None
        if allsol is not None:
            self.count("enumerated-models")
            if allsol:
                enum_opt = max(solve.objective(model, a) for a in allsol)
                step = max(1, len(allsol) // (12 if tier == "quick" else 40))
                for a in allsol[::step]:
                    out.append(("enum", a))
            if (status == "optimal") != bool(allsol) or (allsol and enum_opt != opt):
                raise RuntimeError(f"gurobi ({status}, {opt}) and exhaustive enumeration ({enum_opt}) disagree on {json.dumps(case)}")
        # dedupe
        seen, uniq = set(), []
        for k, a in out:
            t = tuple(a)
            if t not in seen:
                seen.add(t)
                uniq.append((k, a))
        for k, a in uniq:
            if not solve.holds(model, a):
                raise RuntimeError("solver returned an assignment that violates the dumped model")
        return status, opt, uniq

    def run(self, rng, cases: list[tuple[str, dict]], tier: str, passes_list=(0,)):
        """cases: (id, case). For passes == 0 the Lean model is compared as well."""
        chk = self.chk
        # phase 1: dump
        jobs = []
        for cid, case in cases:
            for ps in passes_list:
                c = dict(case)
                c["passes"] = ps
                jobs.append((f"{cid}/p{ps}", c, None))
        # the discretisation-selection pass is known to loop (C20-F8): those jobs run under the per-case watchdog
        # and so is the critical-path pass over a WindowedChoose (C20-F10)
        def risky(c):
            return bool(c["passes"] & 4) or bool(c["passes"] & 1 and oracle.wchoose_nodes(c["tree"]))

        dumps = cxx.run([j for j in jobs if not risky(j[1])], timeout=30 if tier == "quick" else 120)
        dumps.update(cxx.run([j for j in jobs if risky(j[1])], watchdog=True))
        lean = {}
        # WindowedChoose / MalleableChoose / shared nodes are not in the Lean model: those cases go through the
        # model-independent oracle (and the differential run with passes) only
        modelled = {cid for cid, case in cases if self.use_lean and not oracle.has_window(case["tree"])}
        if modelled:
            reqs = []
            for cid, case in cases:
                if cid not in modelled:
                    continue
                r = dict(case)
                # the Lean brute force is a plain product enumeration: only for small spaces
                r["semopt"] = oracle.search_space(case) <= (3000 if tier == "quick" else 20000)
                reqs.append(r)
            for cid, rep in zip([cid for cid, _ in cases if cid in modelled], common.run_driver(reqs)):
                lean[cid] = rep
        plan = []  # (jobid, case, passes, model, [(kind, assignment)], opt)
        base_opt = {}
        for cid, case in cases:
            feats = features(case)
            overflow = bool(oracle.usage_problems(case, {}))
            for ps in passes_list:
                jid = f"{cid}/p{ps}"
                d = dumps[jid]
                cerr = d["err"].split(":")[0] if d["err"] else None
                if cerr in ("TIMEOUT", "CRASH"):
                    what = "compile:does-not-terminate" if cerr == "TIMEOUT" else "compile:crashes"
                    self.findings.append((signatures([what], feats, ps)[0], {"case": case, "passes": ps, "problems": [d["err"]]}))
                    continue
                if ps == 0 and cid in modelled:
                    l = lean[cid]
                    if "protocol_error" in l:
                        raise RuntimeError(f"lean driver protocol error {l} on {json.dumps(case)}")
                    lerr = l.get("err")
                    if cerr != lerr:
                        self.disagreements.append({"what": "error-class", "cxx": d["err"], "lean": lerr, "case": case})
                        continue
                if cerr is not None:
                    self.count(f"err:{cerr}")
                    if chk is not None and ps == 0:
                        chk.case({"case": case, "err": cerr}, nontrivial=False)
                    continue
                if ps == 0 and cid in modelled:
                    if not canon.var_names_unique(d):
                        self.count("skipped:duplicate-variable-names")
                        continue
                    diff = canon.diff_models(canon.canon_model(d), canon.canon_model(lean[cid]))
                    if diff:
                        self.disagreements.append({"what": "constraint-system", "diff": diff, "case": case})
                        continue
                    self.count("models-compared")
                    self.count("constraints-compared", len(d["cons"]))
                if overflow:
                    # precondition of the property: the Allocations (already running tasks) fit the partitions
                    self.count("precondition-violated:allocations-exceed-capacity")
                    continue
                status, opt, assigns = self.assignments(rng.sub(jid), case, d, tier)
                self.count(f"solve:{status}")
                if ps == 0:
                    base_opt[cid] = (status, opt)
                plan.append((jid, cid, case, ps, d, assigns, status, opt, feats))
        # phase 2: read back
        jobs2 = []
        for jid, cid, case, ps, d, assigns, status, opt, feats in plan:
            c = dict(case)
            c["passes"] = ps
            jobs2.append((jid, c, [a for _, a in assigns]))
        back = cxx.run([j for j in jobs2 if not risky(j[1])], timeout=30 if tier == "quick" else 120)
        back.update(cxx.run([j for j in jobs2 if risky(j[1])], watchdog=True))
        lean2 = {}
        if modelled:
            reqs, ids = [], []
            for jid, cid, case, ps, d, assigns, status, opt, feats in plan:
                if ps != 0 or cid not in modelled:
                    continue
                lv = [v["name"] for v in lean[cid]["vars"]]
                pos = {v["name"]: i for i, v in enumerate(d["vars"])}
                r = dict(case)
                r["assigns"] = [[a[pos[n]] for n in lv] for _, a in assigns]
                reqs.append(r)
                ids.append(jid)
            if reqs:
                for jid, rep in zip(ids, common.run_driver(reqs)):
                    lean2[jid] = rep
        for jid, cid, case, ps, d, assigns, status, opt, feats in plan:
            results = back[jid]["results"]
            nontrivial = False
            for k, ((kind, a), res) in enumerate(zip(assigns, results)):
                if res["err"] is not None:
                    self.findings.append((signatures([f"populate:raised-{res['err'].split(':')[0]}"], feats, ps)[0],
                                          {"case": case, "passes": ps, "assignment": a, "problems": [res["err"]]}))
                    continue
                root = res["root"]
                if root["placements"]:
                    nontrivial = True
                self.count(f"assignment:{kind}")
                self.count("placements", len(root["placements"]))
                if ps == 0 and cid in modelled:
                    lr = lean2[jid]["results"][k]
                    mine = {"placements": canon.canon_placements(root["placements"]), "utility": root["utility"], "objective": res["objective_value"]}
                    theirs = {"placements": canon.canon_placements(lr["root"]["placements"]), "utility": lr["root"]["utility"], "objective": lr["objective_value"]}
                    if root["utility"] != 0:
                        mine["span"] = [root["start"], root["end"]]
                        theirs["span"] = [lr["root"]["start"], lr["root"]["end"]]
                    if mine != theirs or not lr["feasible"]:
                        self.disagreements.append({"what": "read-back", "cxx": mine, "lean": theirs, "lean_feasible": lr["feasible"], "case": case, "assignment": a})
                    else:
                        if chk is not None:
                            chk.traces_validated += 1
                probs = oracle.check_result(case, root, res["objective_value"])
                for sig in signatures(probs, feats, ps):
                    self.findings.append((sig, {"case": case, "passes": ps, "assignment": a, "problems": probs}))
            # optimum against the brute force over schedules
            so = oracle.sem_opt(case)
            # two independent brute forces (Python oracle, Lean `optUtility`) must agree
            if ps == 0 and cid in modelled and "semopt" in lean.get(cid, {}) and so is not None:
                self.count("semopt:lean-vs-python")
                if lean[cid]["semopt"] != so:
                    raise RuntimeError(f"brute-force optimum: python {so} vs lean {lean[cid]['semopt']} on {json.dumps(case)}")
            if so is None:
                self.count("semopt:too-large")
            elif status == "optimal":
                self.count("semopt:compared")
                coarse = case["gran"] > 1 or (ps & 4)
                bad = None
                if opt > so:
                    bad = "optimum:model-exceeds-brute-force"
                elif opt < so and not coarse:
                    bad = "optimum:model-below-brute-force"
                if bad:
                    self.findings.append((signatures([bad], feats, ps)[0], {"case": case, "passes": ps, "problems": [bad], "model_opt": opt, "brute_force_opt": so}))
            elif status == "infeasible":
                self.findings.append((signatures(["optimum:model-infeasible"], feats, ps)[0], {"case": case, "passes": ps, "problems": ["optimum:model-infeasible"], "brute_force_opt": so}))
            # pruning passes may never lose utility with respect to the unpruned model
            if ps != 0 and not (ps & 4) and cid in base_opt and base_opt[cid][0] == "optimal":
                if status != "optimal" or opt < base_opt[cid][1]:
                    feats = sorted(set(feats) | set(pruned_features(case, dumps.get(f"{cid}/p0"), dumps.get(f"{cid}/p{ps}"))))
                    self.findings.append((signatures(["optimum:decreases-with-passes"], feats, ps)[0],
                                          {"case": case, "passes": ps, "problems": ["optimum:decreases-with-passes"], "without": base_opt[cid][1], "with": opt}))
            # the same tree with and without passes
            # (only informative when the brute force was too large: otherwise both were compared with it above)
            if so is None and ps != 0 and cid in base_opt and base_opt[cid][0] == "optimal" and status == "optimal" and not (ps & 4):
                if base_opt[cid][1] != opt:
                    self.findings.append((signatures(["optimum:changes-with-passes"], feats, ps)[0],
                                          {"case": case, "passes": ps, "problems": ["optimum:changes-with-passes"], "without": base_opt[cid][1], "with": opt}))
            if chk is not None and ps == 0:
                chk.case({"case": case, "opt": opt, "n_assignments": len(assigns)}, nontrivial=nontrivial, sample_every=50)
                for t in gen.kinds(case["tree"]):
                    chk.count(f"node:{t}")
                chk.count(f"gran:{case['gran']}")
                chk.count(f"size:{min(gen.size(case['tree']), 12)}")


def gen_cases(rng, n, only=None):
    out = []
    weights = [w for name, w, _ in PROFILES if only is None or name in only]
    profs = [(name, p) for name, w, p in PROFILES if only is None or name in only]
    for i in range(n):
        name, prof = rng.choices(profs, weights)[0]
        g = gen.Gen(rng.sub(f"case{i}"), prof)
        out.append((f"{name}-{i}", g.case()))
    return out


def _file_corpus():
    """Minimised past failures kept as JSON (harness/corpus/strl/*.json), run with the fixed corpus."""
    import os

    d_ = os.path.join(os.path.dirname(os.path.dirname(os.path.abspath(__file__))), "corpus", "strl")
    out = []
    if os.path.isdir(d_):
        for fn in sorted(os.listdir(d_)):
            if fn.endswith(".json"):
                out.append((fn[:-5], json.load(open(os.path.join(d_, fn)))))
    return out


def run(chk: common.Check):
    broken = chk.lean_obligations()
    t0 = time.time()
    chk.extra["cxx_build_s"] = round(cxx.build(), 1)
    rng = common.Rng(chk.seed, "c20")
    quick = chk.tier == "quick"
    b = Batch(chk, use_lean=not any(x.startswith("lake-build") for x in broken))
    # 1. corpus, every subset of the two pruning passes
    b.run(rng.sub("corpus"), [(f"corpus-{n}", c) for n, c in CORPUS + _file_corpus()], chk.tier, passes_list=(0, 1, 2, 3))
    # corpus cases about the discretisation selector (names dyn-*) also run with that pass
    dyn = [(f"corpus-{n}", c) for n, c in _file_corpus() if n.startswith("dyn-")]
    if dyn:
        b.run(rng.sub("corpus-dyn"), dyn, chk.tier, passes_list=(0, 4, 7))
    # 2. random trees, no passes: full correspondence + oracle
    n_rand = 240 if quick else 3000
    for k in range(0, n_rand, 200):
        b.run(rng.sub(f"rand{k}"), gen_cases(rng.sub(f"gen{k}"), min(200, n_rand - k)), chk.tier)
    # 3. random trees with every subset of passes (differential test of the unmodelled passes)
    n_pass = 40 if quick else 600
    for k in range(0, n_pass, 100):
        cs = [(f"pass-{k}-{i}", c) for i, (_, c) in enumerate(gen_cases(rng.sub(f"pgen{k}"), min(100, n_pass - k), only=("aligned", "unaligned")))]
        b.run(rng.sub(f"pass{k}"), cs, chk.tier, passes_list=(0, 1, 2, 3, 4, 7))
    # 4. the LessThan-over-Max family with mixed durations (what the critical-path pass reasons about)
    n_fam = 40 if quick else 400
    for k in range(0, n_fam, 100):
        fr = rng.sub(f"fam{k}")
        cs = [(f"ltfam-{k}-{i}", gen.lt_family(fr.sub(str(i)))) for i in range(min(100, n_fam - k))]
        b.run(rng.sub(f"famrun{k}"), cs, chk.tier, passes_list=(0, 1, 3))
        chk.count("family:lt-over-max-mixed-durations", len(cs))
    # 5. contention between Max options of different sizes (what the capacity-constraint purge pass reasons about)
    n_pf = 40 if quick else 400
    for k in range(0, n_pf, 100):
        fr = rng.sub(f"pfam{k}")
        cs = [(f"purgefam-{k}-{i}", gen.purge_family(fr.sub(str(i)))) for i in range(min(100, n_pf - k))]
        b.run(rng.sub(f"pfamrun{k}"), cs, chk.tier, passes_list=(0, 2, 3))
        chk.count("family:max-options-of-different-sizes-under-contention", len(cs))
    # 6. LessThan over Min nodes whose children have different durations (bounds pushed down by the critical-path pass)
    n_lm = 30 if quick else 300
    for k in range(0, n_lm, 100):
        fr = rng.sub(f"lmfam{k}")
        cs = [(f"ltminfam-{k}-{i}", gen.lt_min_family(fr.sub(str(i)))) for i in range(min(100, n_lm - k))]
        b.run(rng.sub(f"lmfamrun{k}"), cs, chk.tier, passes_list=(0, 1, 3))
        chk.count("family:lt-over-min-of-mixed-durations", len(cs))
    # 7. WindowedChoose / MalleableChoose trees (not in the Lean model: oracle + differential run with the pruning passes)
    n_w = 40 if quick else 600
    for k in range(0, n_w, 100):
        fr = rng.sub(f"wfam{k}")
        cs = [(f"winfam-{k}-{i}", gen.window_family(fr.sub(str(i)))) for i in range(min(100, n_w - k))]
        b.run(rng.sub(f"wfamrun{k}"), cs, chk.tier, passes_list=(0, 1, 2, 3))
        chk.count("family:windowed-and-malleable-choose", len(cs))
        chk.count("family:windowed-and-malleable-choose:clean-trees", sum(1 for _, c in cs if not (window_features(c) & QUIRKS)))
    for sig, rep in b.findings:
        chk.violation(sig, rep)
    chk.extra["suite_s"] = round(time.time() - t0, 1)
    chk.extra["disagreements"] = len(b.disagreements)
    chk.rule = ("random STRL trees (1-3 partitions of 1-3 slots, depth <= 3, <= 3 children per node, times 0..6, granularity 1-3; "
                "profiles aligned / unaligned / zero-utility / shared task names / malformed) + a fixed corpus; every case is compiled by the real C++ "
                "and by the Lean model, solved (optimum, random directions, exhaustive enumeration when the box is < 20k/60k points) and read back by both; "
                "non-trivial = at least one placement was read back; distinct = hash of the canonical case")
    chk.assumptions += [
        "utilities and scale factors are integers (the C++ uses double; exact below 2^53)",
        "uniform granularity, useOverlapConstraints=false; WindowedChoose / MalleableChoose trees (family 7) are judged by the model-independent oracle "
        "and the differential run with passes only (they are not in the Lean model); shared sub-expressions are not generated; the reference semantics "
        "of a WindowedChoose is Max over Choose at every multiple of its granularity in [startTime, endTime] (endTime = latest START, as the callers use it)",
        "optimisation passes are not modelled: covered by the differential run only (a test)",
        "Gurobi returns assignments that satisfy the dumped model (re-checked in Python for every assignment) and are optimal (cross-checked by exhaustive enumeration on tiny models)",
    ]
    if broken or b.disagreements:
        if b.disagreements:
            chk.extra["first_disagreement"] = b.disagreements[0]

        def search():
            # the disagreeing cases, their shrunk variants and a widened run through the oracle alone
            sb = Batch(None, use_lean=False)
            cs = []
            for i, dsg in enumerate(b.disagreements[:5]):
                cs.append((f"dis-{i}", dsg["case"]))
                for j, s in enumerate(gen.shrink(dsg["case"])):
                    if j < 20:
                        cs.append((f"dis-{i}-s{j}", s))
            cs += gen_cases(rng.sub("widened"), 300)
            sb.run(rng.sub("search"), cs, chk.tier, passes_list=(0, 3))
            for sig, rep in sb.findings:
                chk.violation(sig, rep, found_input=True)

        common.broken_obligation(chk, broken + [f"correspondence: {d['what']}" for d in b.disagreements[:3]], search)


def _is_known(sig: str) -> bool:
    import re

    return any(re.search(e["match"], sig) for e in common.known_findings("C20"))


def replay(path) -> int:
    """Re-run one replay file against $ERDOS_REPO alone (C++ build + solver + oracle, no Lean).
    Exit 1 iff a violation that is not a recorded known finding reproduces."""
    rep = json.loads(open(path).read())
    if "case" not in rep:
        print(f"replay {path}: no failing input was recorded (broken obligation: {rep.get('broken')})")
        return 1
    cxx.build()
    case = dict(rep["case"])
    case["passes"] = rep.get("passes", 0)
    feats = features(case)
    if rep.get("assignment") is not None:
        r = cxx.run([("replay", case, [rep["assignment"]])], watchdog=True)["replay"]
        if r["err"]:
            print("REPRODUCED compile error:", r["err"])
            return 1
        if not solve.holds(r, rep["assignment"]):
            print("the recorded assignment no longer satisfies the compiled model; searching again")
        else:
            res = r["results"][0]
            probs = [res["err"]] if res["err"] else oracle.check_result(case, res["root"], res["objective_value"])
            sigs = [s for s in signatures(probs, feats, case["passes"]) if not _is_known(s)]
            if sigs:
                print(f"REPRODUCED {sigs}")
                print(" placements:", json.dumps(res.get("root", {}).get("placements")))
                print(" problems:", probs)
                return 1
    b = Batch(None, use_lean=False)
    b.run(common.Rng(0, "replay"), [("replay", rep["case"])], "thorough", passes_list=tuple(sorted({0, case["passes"]})))
    bad = [(sig, r) for sig, r in b.findings if not _is_known(sig)]
    for sig, r in bad:
        print(f"REPRODUCED {sig}\n problems: {r['problems']}")
    if not bad:
        print("not reproduced (only recorded known findings, if any)")
    return 1 if bad else 0
