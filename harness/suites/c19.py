"""C19 — workload and cluster descriptions are instantiated faithfully.

Correspondence: generated YAML / JSON descriptions are loaded by the real
`WorkloadLoader` / `WorkerLoader` (real absl flags, scratch directory outside
/repo and /verif) and compared object by object with the Lean model
(`Model/Loader.lean`, `Model/Release.lean`); release policies, `EventTime.fuzz`
and the closed-loop counters are also driven directly.  Every random draw of
the real code comes from a tape chosen here and is handed to the model.

Oracle (independent of the model): the loaded object graph is checked against
the *description* (names, strategies, resource vectors, sharing, release times
per policy, isomorphic fresh copies, deadline interval, closed-loop in-flight
bound and total).
"""
from __future__ import annotations

import copy
import json
import shutil
import sys
import tempfile
from fractions import Fraction
from pathlib import Path

from harness import common
from harness.gen import c19_gen as G
from harness.impl import c19_impl as I

TECHNIQUE = "Lean 4 proof over hand-written model + differential correspondence (loaders, release policies, fuzz) + description-vs-objects oracle"
EPS = sys.float_info.epsilon
MAXSIZE = sys.maxsize

SIZES = {
    "quick": {"workload": 800, "workers": 300, "policy": 600, "fuzz": 1000, "search": 300},
    "thorough": {"workload": 10000, "workers": 3000, "policy": 8000, "fuzz": 20000, "search": 3000},
}

# ---------------------------------------------------------------------------
# driver cases
# ---------------------------------------------------------------------------


def draws_for_model(np_calls):
    out = []
    for c in np_calls:
        if c["size"] is None or c["size"] < 0:
            continue
        out.append({"ints": c["vals"]} if c["m"] == "poisson" else G.dyadic(c["vals"]))
    return out


def driver_case(case, real):
    k = case["kind"]
    if k == "workload":
        return {
            "suite": "release",
            "op": "workload",
            "desc": G.model_desc(case["desc"]) if case["ext"].lower() in ("json", "yaml", "yml") else None,
            "flags": G.model_flags(case["flags"]),
            # only as much of the tape as the real code consumed (+4): the model must
            # consume exactly the same number of draws
            "tape": case["fuzz"][: (len(case["fuzz"]) - real["tape_left"] + 4) if "tape_left" in real else 40],
            "draws": draws_for_model(real.get("np_calls", [])),
            "history": real.get("history", []),
        }
    if k == "workers":
        return {"suite": "release", "op": "workers", "pools": case["pools"]}
    if k == "policy":
        p = case["policy"]
        d = draws_for_model(real.get("np_calls", []))
        return {
            "suite": "release",
            "op": "policy",
            "kind": p["kind"],
            "period": p.get("period", -1),
            "n": p.get("n", -1),
            "conc": p.get("conc", 0),
            "start": p.get("start", 0),
            "horizon": case["horizon"],
            "draws": d[0] if d else None,
        }
    if k == "fuzz":
        return {"suite": "release", "op": "fuzz", **{x: case[x] for x in ("T", "a", "b", "minb", "maxb", "rn")}}
    raise ValueError(k)


def canon_model_workload(m):
    """Relabel the model's profile instances by first appearance (the same walk
    the observer of the real objects uses) and drop the raw task ids."""
    ok = copy.deepcopy(m["ok"])
    label = {}
    for jg in ok["job_graphs"]:
        for j in jg["jobs"]:
            label.setdefault(j["profile"], len(label))
            j["profile"] = label[j["profile"]]
    insts = [ok["insts"][raw] for raw in sorted(label, key=label.get)]
    rel = copy.deepcopy(m.get("history", []))
    for tg in ok["task_graphs"] + [x for x in rel if x and "tasks" in x]:
        tg.pop("ids", None)
        for t in tg["tasks"]:
            t["profile"] = label.get(t["profile"], "unknown")
    return {"insts": insts, "job_graphs": ok["job_graphs"], "task_graphs": ok["task_graphs"]}, rel


# ---------------------------------------------------------------------------
# comparison (model vs real)
# ---------------------------------------------------------------------------


def first_diff(a, b, path=""):
    if type(a) != type(b):
        return f"{path}: {a!r} != {b!r}"
    if isinstance(a, dict):
        for k in sorted(set(a) | set(b)):
            if k not in a or k not in b:
                return f"{path}.{k}: missing on one side"
            d = first_diff(a[k], b[k], f"{path}.{k}")
            if d:
                return d
        return None
    if isinstance(a, list):
        if len(a) != len(b):
            return f"{path}: len {len(a)} != {len(b)}"
        for i, (x, y) in enumerate(zip(a, b)):
            d = first_diff(x, y, f"{path}[{i}]")
            if d:
                return d
        return None
    return None if a == b else f"{path}: {a!r} != {b!r}"


def slack_deadlines(case, real_ok, real_rel, model_ok, model_rel, chk):
    """Where real and model deadlines differ by one and the exact value is a
    near tie (decided from the exact value), adopt the real one and count it."""
    tgs_r = real_ok["task_graphs"] + [x for x in real_rel if x and "tasks" in x]
    tgs_m = model_ok["task_graphs"] + [x for x in model_rel if x and "tasks" in x]
    Tmap = {jg["name"]: jg for jg in real_ok["job_graphs"]}
    fl = G.model_flags(case["flags"])
    for k, (tr, tm) in enumerate(zip(tgs_r, tgs_m)):
        if not tr["tasks"] or not tm["tasks"] or len(tr["tasks"]) != len(tm["tasks"]):
            continue
        dr, dm = tr["tasks"][0]["deadline"], tm["tasks"][0]["deadline"]
        if dr == dm or abs(dr - dm) > 1 or 2 * k + 1 >= len(case["fuzz"]):
            continue
        jg = Tmap.get(tr["name"].rsplit("@", 1)[0])
        if not jg or not isinstance(jg["T"], int) or not jg.get("variance"):
            continue
        x = I.fuzz_exact(jg["T"], jg["variance"][0], jg["variance"][1], fl["min_deadline"], fl["max_deadline"], case["fuzz"][2 * k + 1])
        if I.near_tie(x):
            chk.count("float_slack:deadline")
            for t in tm["tasks"]:
                t["deadline"] = dr


def slack_gamma(real_list, model_list, start, vals, chk):
    """Gamma releases: accept a ±1 difference only at exact near ties."""
    if len(real_list) != len(model_list):
        return model_list
    out = list(model_list)
    acc = Fraction(start)
    for i in range(len(out)):
        if i > 0:
            acc += Fraction(vals[i - 1])
        if out[i] != real_list[i] and abs(out[i] - real_list[i]) <= 1 and I.near_tie(acc):
            chk.count("float_slack:gamma")
            out[i] = real_list[i]
    return out


def compare(case, real, model, chk):
    """Returns None or a description of the first disagreement."""
    if "protocol_error" in model:
        return f"driver protocol error: {model['protocol_error']}"
    k = case["kind"]
    if "err" in real or "err" in model:
        if real.get("err") != model.get("err"):
            return f"outcome: real {real.get('err', 'ok')} vs model {model.get('err', 'ok')}"
        return None
    if k == "workload":
        mok, mrel = canon_model_workload(model)
        # gamma releases with float slack are folded in before the structural diff
        slack_gamma_workload(case, real, mok, chk)
        slack_deadlines(case, real["ok"], real["released"], mok, mrel, chk)
        d = first_diff(real["ok"], mok, "loaded")
        if d:
            return d
        d = first_diff(real["released"], mrel, "released")
        if d:
            return d
        d = first_diff(real["loops"], model["loops"], "loops")
        if d:
            return d
        if model["tape_left"] != 4:
            return f"fuzz draws consumed: real {len(case['fuzz']) - real['tape_left']}, model leaves {model['tape_left']} of the 4 spare"
        return None
    if k == "workers":
        return first_diff(real["ok"], model["ok"], "pools")
    if k == "policy":
        ml = model["ok"]
        if case["policy"]["kind"] == "gamma" and real.get("np_calls"):
            ml = slack_gamma(real["ok"], ml, case["policy"].get("start", 0), real["np_calls"][0]["vals"], chk)
        return first_diff(real["ok"], ml, "releases")
    if k == "fuzz":
        if real["ok"] != model["ok"]:
            x = I.fuzz_exact(case["T"], case["a"], case["b"], case["minb"], case["maxb"], case["rn"])
            if abs(real["ok"] - model["ok"]) <= 1 and I.near_tie(x):
                chk.count("float_slack:fuzz")
                return None
            return f"fuzz: real {real['ok']} vs model {model['ok']}"
        return None
    raise ValueError(k)


def slack_gamma_workload(case, real, mok, chk):
    """Per gamma job graph: compare the release times of its task graphs with
    the float-slack rule, then align the model's sources' release field."""
    calls = [c for c in real.get("np_calls", []) if c["size"] is not None and c["size"] >= 0]
    ci = 0
    for jg in real["ok"]["job_graphs"]:
        pol = jg["policy"]
        if pol["kind"] not in ("poisson", "gamma") or pol["n"] <= 0:
            continue
        call = calls[ci] if ci < len(calls) else None
        ci += 1
        if pol["kind"] != "gamma" or call is None:
            continue
        names = [f"{jg['name']}@{i}" for i in range(pol["n"])]
        rt = {tg["name"]: tg for tg in real["ok"]["task_graphs"]}
        mt = {tg["name"]: tg for tg in mok["task_graphs"]}
        acc = Fraction(pol["start"])
        for i, nm in enumerate(names):
            if i > 0 and i - 1 < len(call["vals"]):
                acc += Fraction(call["vals"][i - 1])
            if nm not in rt or nm not in mt:
                continue
            r_rel = max((t["release"] for t in rt[nm]["tasks"]), default=None)
            m_rel = max((t["release"] for t in mt[nm]["tasks"]), default=None)
            if r_rel is None or m_rel is None or r_rel == m_rel:
                continue
            if abs(r_rel - m_rel) <= 1 and I.near_tie(acc):
                chk.count("float_slack:gamma")
                for t in mt[nm]["tasks"]:
                    if t["release"] != -1:
                        t["release"] += r_rel - m_rel
                    t["deadline"] += r_rel - m_rel


# ---------------------------------------------------------------------------
# the model-independent oracle
# ---------------------------------------------------------------------------


def well_formed(case):
    """Is this a description the loader has no excuse to refuse?  (Computed from
    the description and flags only.)"""
    d, fl = case["desc"], case["flags"]
    if case["ext"].lower() not in ("json", "yaml", "yml"):
        return False
    if not d.get("profiles") or not d.get("graphs"):
        return False
    pn = set()
    for p in d["profiles"]:
        if p["name"] is None or not p["exec"]:
            return False
        for s in (p["exec"] or []) + (p["loading"] or []):
            for key, _ in s["res"] or []:
                if len(key.split(":")) != 2:
                    return False
        pn.add(p["name"])
    for g in d["graphs"]:
        if g["name"] is None or not g["nodes"] or g["policy"] is None:
            return False
        names = [n["name"] for n in g["nodes"]]
        if len(set(names)) != len(names):
            return False
        idx = {n: i for i, n in enumerate(names)}
        for n in g["nodes"]:
            if n["profile"] is None or n["profile"] not in pn:
                return False
            for c in n["children"] or []:
                if c not in idx:
                    return False
        # acyclic?
        color = {}

        def dfs(u):
            color[u] = 1
            for c in g["nodes"][idx[u]]["children"] or []:
                if color.get(c) == 1 or (color.get(c) is None and not dfs(c)):
                    return False
            color[u] = 2
            return True

        for n in names:
            if color.get(n) is None and not dfs(n):
                return False
        pol = g["policy"]
        period = fl.get("period") or g["period"]
        n_inv = g["invocations"]
        if (g["start"] or 0) < 0:
            return False
        if pol == "periodic":
            if g["period"] is None and not fl.get("period"):
                return False
            if (fl.get("period") or g["period"]) <= 0:
                return False
            if (fl.get("loop_timeout", MAXSIZE) - (g["start"] or 0)) // (fl.get("period") or g["period"]) > 1000:
                return False  # unbounded horizon: nothing finite to instantiate
        elif pol == "fixed":
            if period is None or (n_inv is None and not fl.get("n")):
                return False
            if (fl.get("n") or n_inv) < 0 or period < 0:
                return False
        elif pol == "poisson":
            if (g["rate"] is None and not fl.get("rate")) or n_inv is None or (fl.get("n") or n_inv) < 0:
                return False
        elif pol == "gamma":
            if (g["rate"] is None and not fl.get("rate")) or (g["coefficient"] is None and not fl.get("coef")):
                return False
            if (n_inv is None and not fl.get("n")) or (fl.get("n") or n_inv) < 0:
                return False
        elif pol == "closed_loop":
            if g["concurrency"] is None or n_inv is None or g["concurrency"] <= 0 or (fl.get("n") or n_inv) <= 0:
                return False
        else:
            return False
    return True


def chains(children, n):
    """All contiguous paths (as index lists) of a small DAG."""
    out = []

    def ext(path):
        out.append(list(path))
        for c in children[path[-1]]:
            if c not in path:
                path.append(c)
                ext(path)
                path.pop()

    for s in range(n):
        ext([s])
    return out


def t_candidates(jg):
    """Critical-path (or SLO) times of a loaded JobGraph object, computed here:
    over every runtime-longest chain, the sum of SLO-or-slowest-runtime."""
    jobs = list(jg.get_nodes())
    idx = {id(j): i for i, j in enumerate(jobs)}
    children = [[idx[id(c)] for c in jg.get_children(j)] for j in jobs]

    def slowest(j):
        return max(s.runtime.time for s in j.execution_strategies)

    w = [slowest(j) if j.probability > EPS else 0 for j in jobs]
    val = [j.slo.time if j.slo.time != -1 else slowest(j) for j in jobs]
    ch = chains(children, len(jobs))
    best = max(sum(w[i] for i in p) for p in ch)
    return {sum(val[i] for i in p) for p in ch if sum(w[i] for i in p) == best}


def clamp(v, lo, hi):
    return max(lo, min(hi, v))


def deadline_interval(T, a, b, minb, maxb):
    lo, hi = sorted((abs(a), abs(b)))
    return clamp((T * lo) // 100, minb, maxb), clamp(-((-T * hi) // 100), minb, maxb)


def expected_strategy(s):
    res = None
    if s["res"] is not None:
        res = [[k.split(":")[0], k.split(":")[1], q] for k, q in s["res"]]
    return {"res": res, "batch": 1 if s["batch"] is None else s["batch"], "runtime": 0 if s["runtime"] is None else s["runtime"]}


def oracle_workload(case, real, live):
    """-> list of (signature, detail)."""
    v = []
    d, fl = case["desc"], case["flags"]
    if "err" in real:
        if well_formed(case):
            pols = sorted({g["policy"] for g in d["graphs"]})
            if "periodic" in pols and real["err"] in ("AttributeError", "MemoryError"):
                v.append(("periodic-via-loader: WorkloadLoader cannot instantiate a periodic release policy (" + real["err"] + ")", real["err"]))
            else:
                v.append((f"valid-description-refused: policies {pols} raised {real['err']}", real["err"]))
        return v
    wl = live["workload"]
    repl = fl.get("repl", 1)
    unique = fl.get("unique", False)
    pdesc = {p["name"]: p for p in d["profiles"]}
    # 1. job graph names
    exp_names = []
    for g in d["graphs"]:
        exp_names += [f"{g['name']}_{i}" for i in range(1, repl + 1)] if repl > 1 else [g["name"]]
    got_names = list(wl.job_graphs.keys())
    if got_names != exp_names:
        v.append(("job-graph-names: loaded job graphs are not the described ones", f"{got_names} vs {exp_names}"))
        return v
    jgs = list(wl.job_graphs.values())
    gdesc = []
    for g in d["graphs"]:
        gdesc += [g] * (repl if repl > 1 else 1)
    tgs_by_jg = {id(jg): [] for jg in jgs}
    for tg in wl.task_graphs.values():
        tgs_by_jg.setdefault(id(tg.job_graph), []).append(tg)
    calls = [c for c in real["np_calls"] if c["size"] is not None and c["size"] >= 0]
    ci = 0
    seen_profile_objs = {}
    for gi, (jg, g) in enumerate(zip(jgs, gdesc)):
        where = f"graph {jg.name}"
        jobs = list(jg.get_nodes())
        # 2. jobs
        if [j.name for j in jobs] != [n["name"] for n in g["nodes"]]:
            v.append(("job-names: jobs differ from the described nodes", where))
            continue
        override_slo = fl.get("slo", -1)
        earlier_slos = []
        for j, n in zip(jobs, g["nodes"]):
            exp_slo = override_slo if override_slo > 0 else (n["slo"] if n["slo"] is not None else -1)
            if j.slo.time != exp_slo:
                if override_slo <= 0 and j.slo.time in earlier_slos:
                    v.append(("slo-leak: a node gets the SLO of an earlier node of its graph instead of its own / none", f"{where} node {n['name']}: loaded {j.slo.time}, described {n['slo']}"))
                else:
                    v.append(("slo-mismatch: loaded SLO differs from the description", f"{where} node {n['name']}: {j.slo.time} vs {exp_slo}"))
            if n["slo"] is not None:
                earlier_slos.append(n["slo"])
            if bool(j.conditional) != bool(n["cond"]) or bool(j.terminal) != bool(n["term"]):
                v.append(("job-flags: conditional/terminal differ", f"{where} {n['name']}"))
            exp_p = 1.0 if n["prob"] is None else n["prob"] / 1000
            if j.probability != exp_p:
                v.append(("job-probability: differs", f"{where} {n['name']}"))
            if [c.name for c in jg.get_children(j)] != list(n["children"] or []):
                v.append(("job-children: edges differ from the description", f"{where} {n['name']}"))
            # 3. profile content / name / sharing
            pd = pdesc.get(n["profile"])
            if pd is None:
                continue
            prof = j.profile
            got = I.obs_profile(prof)
            exp_exec = [expected_strategy(s) for s in pd["exec"] or []]
            exp_load = [expected_strategy(s) for s in pd["loading"] or []]
            if got["exec"] != exp_exec or got["loading"] != exp_load:
                v.append(("profile-content: strategies / resource vectors differ from the description", f"{where} {n['name']} profile {n['profile']}"))
            if unique:
                if prof.name != pd["name"]:
                    v.append(("profile-name: shared profile renamed", f"{prof.name} vs {pd['name']}"))
                key = ("shared", pd["name"])
            else:
                tail = prof.name[len(pd["name"]):]
                if not (prof.name.startswith(pd["name"]) and tail.startswith("_") and tail[1:].isdigit()):
                    v.append(("profile-name: copy not named after the described profile", f"{prof.name} vs {pd['name']}"))
                key = (gi, pd["name"])
            prev = seen_profile_objs.setdefault(key, prof)
            if prev is not prof:
                v.append(("profile-sharing: one described profile became several objects within its scope", f"{where} {n['name']}"))
        if not unique:
            for (k_gi, k_name), obj in list(seen_profile_objs.items()):
                if k_gi != "shared" and k_gi != gi:
                    for j in jobs:
                        if j.profile is obj:
                            v.append(("profile-sharing: a copied profile is shared between job graphs", where))
        # 4. policy parameters
        pol = jg.release_policy
        kind = I.KIND.get(pol._policy_type.name)
        if kind != g["policy"]:
            v.append(("policy-kind: differs", where))
            continue
        exp_start = g["start"] or 0
        if pol._start.time != exp_start:
            v.append(("policy-start: differs", where))
        exp_period = fl.get("period") or g["period"]
        if kind in ("fixed", "periodic") and pol._period.time != exp_period:
            v.append(("policy-period: differs", where))
        exp_n = None
        if kind != "periodic":
            exp_n = fl.get("n") or g["invocations"]
            if pol._fixed_invocation_nums != exp_n:
                if fl.get("n") and pol._fixed_invocation_nums == g["invocations"] and kind != "fixed":
                    v.append((f"override-num-invocation-ignored: --override_num_invocation has no effect on the {kind} policy", f"{where}: n={pol._fixed_invocation_nums}, flag {fl.get('n')}"))
                    exp_n = pol._fixed_invocation_nums
                else:
                    v.append(("policy-invocations: differs", where))
        if kind == "closed_loop" and pol._concurrency != g["concurrency"]:
            v.append(("policy-concurrency: differs", where))
        # 5/6. releases
        tgs = tgs_by_jg.get(id(jg), [])
        initial = [tg for tg in tgs if tg.name in live["initial_names"]]
        rels = []
        for i, tg in enumerate(initial):
            if tg.name != f"{jg.name}@{i}":
                v.append(("task-graph-name: not <job graph>@<index>", f"{tg.name} at {i}"))
            srcs = [t.release_time.time for t in tg.get_nodes() if len(tg.get_parents(t)) == 0]
            non = [t.release_time.time for t in tg.get_nodes() if len(tg.get_parents(t)) != 0]
            if len(set(srcs)) != 1 or any(x != -1 for x in non):
                v.append(("task-release: sources must carry the graph release time, the rest -1", tg.name))
            rels.append(srcs[0] if srcs else None)
        s = exp_start
        if kind == "fixed" and exp_n is not None and exp_n >= 0:
            if rels != [s + i * exp_period for i in range(exp_n)]:
                v.append(("release-fixed: not N releases one period apart from the start", f"{where}: {rels}"))
        elif kind == "periodic" and exp_period > 0:
            h_ = fl.get("loop_timeout", MAXSIZE)
            if (h_ - s) // exp_period > 100000:
                pass  # unbounded horizon (default --loop_timeout): nothing finite is described; numpy overflows / MemoryError
            elif rels != list(range(s, h_, exp_period)):
                v.append(("release-periodic: not every period from the start until the horizon (--loop_timeout)", f"{where}: {rels}"))
        elif kind in ("poisson", "gamma") and exp_n is not None and exp_n > 0:
            call = calls[ci] if ci < len(calls) else None
            ci += 1
            rate = fl.get("rate") or g["rate"]
            coef = fl.get("coef") or g["coefficient"]
            if call is None or call["m"] != kind or call["size"] != exp_n - 1:
                v.append(("release-random: numpy not asked for n-1 draws of the described distribution", where))
            elif kind == "poisson" and call["lam"] != 1 / rate:
                v.append(("release-random: poisson parameter is not 1/rate", where))
            elif kind == "gamma" and (call["shape"] != 1 / coef or call["scale"] != coef / rate):
                v.append(("release-random: gamma parameters are not (1/coefficient, coefficient/rate)", where))
            if len(rels) != exp_n or (rels and rels[0] != s) or any(b < a for a, b in zip(rels, rels[1:])):
                v.append((f"release-{kind}: not N non-decreasing releases from the start", f"{where}: {rels}"))
            elif call is not None and all(x >= 0 for x in call["vals"]):
                acc = Fraction(s)
                for i, r_ in enumerate(rels):
                    if i > 0:
                        acc += Fraction(call["vals"][i - 1])
                    if abs(Fraction(r_) - acc) > 1:
                        v.append((f"release-{kind}: release is not start + sum of the inter-arrival draws", f"{where} #{i}"))
                        break
        elif kind in ("poisson", "gamma"):
            if rels:
                v.append((f"release-{kind}: releases for n=0", where))
        elif kind == "closed_loop" and exp_n > 0 and g["concurrency"] > 0:
            if rels != [s] * min(g["concurrency"], exp_n):
                v.append(("release-closed-loop: first batch is not min(concurrency, N) releases at the start", f"{where}: {rels}"))
        # 7/9. every task graph (initial and follow-ups)
        var = g["variance"] or [0, 0]
        try:
            Ts = t_candidates(jg)
        except Exception:  # noqa: BLE001
            Ts = None
        for tg in tgs:
            tasks = list(tg.get_nodes())
            if sorted(t.name for t in tasks) != sorted(j.name for j in jobs):
                v.append(("iso: task names are not the job names", tg.name))
                continue
            jb = {j.name: j for j in jobs}
            idx = int(tg.name.rsplit("@", 1)[1])
            for t in tasks:
                j = jb[t.name]
                if t.job is not j or t.profile is not j.profile or t.probability != j.probability:
                    v.append(("iso: task does not carry its job / the job's profile / probability", f"{tg.name}:{t.name}"))
                if [c.name for c in tg.get_children(t)] != [c.name for c in jg.get_children(j)]:
                    v.append(("iso: task edges differ from the job edges", f"{tg.name}:{t.name}"))
                if t.timestamp != idx or t.task_graph != tg.name:
                    v.append(("iso: timestamp / task graph name", f"{tg.name}:{t.name}"))
            dls = {t.deadline.time for t in tasks}
            srcs = [t.release_time.time for t in tasks if len(tg.get_parents(t)) == 0]
            if len(dls) != 1 or not srcs:
                v.append(("deadline: tasks of one graph must share one deadline", tg.name))
                continue
            if Ts is not None:
                D, rel = dls.pop(), srcs[0]
                ok = False
                for T in Ts:
                    lo, hi = deadline_interval(T, var[0], var[1], fl.get("min_deadline", 0), fl.get("max_deadline", MAXSIZE))
                    if lo <= D - rel - T <= hi:
                        ok = True
                if not ok:
                    v.append(("deadline: not release + critical-path/SLO time stretched within variance and bounds", f"{tg.name}: D={D} rel={rel} T in {sorted(Ts)} var={var}"))
        # 10. closed loop
        if kind == "closed_loop" and exp_n > 0 and g["concurrency"] > 0:
            for step in live.get("inflight_trace", []):
                if step.get(gi, 0) > g["concurrency"]:
                    v.append(("closed-loop: more than `concurrency` graphs in flight", where))
                    break
            tr = live.get("inflight_trace", [])
            drained = bool(tr) and tr[-1].get(gi, 0) == 0
            if drained and len(tgs) != exp_n:
                v.append(("closed-loop: total released differs from N after every graph completed", f"{where}: {len(tgs)} vs {exp_n}"))
            if len(tgs) > exp_n:
                v.append(("closed-loop: more than N released", where))
    # follow-ups: release = finish + 1
    for h, r_ in zip(real.get("history", []), real.get("released", [])):
        if r_ and "tasks" in r_:
            src = [t["release"] for t in r_["tasks"] if t["release"] != -1]
            if not src or any(x != h[2] + 1 for x in src):
                v.append(("closed-loop: follow-up not released one microsecond after the completion", r_["name"]))
    # 8. fresh ids
    ids = live["task_ids"]
    if len(set(ids)) != len(ids):
        v.append(("fresh-ids: two tasks share an id", ""))
    return v


def oracle_workers(case, real, loader):
    v = []
    pools = case["pools"]
    ok_desc = case["ext"] in ("json", "yaml", "yml") and pools and all(
        p["name"] is not None and p["workers"] is not None and all(
            w["name"] is not None and w["resources"] is not None and all(
                r["name"] is not None and r["quantity"] is not None and len(r["name"].split(":")) <= 2 for r in w["resources"])
            for w in p["workers"]) for p in pools)
    if "err" in real:
        if ok_desc:
            v.append((f"valid-worker-description-refused: {real['err']}", ""))
        return v
    got = real["ok"]
    if [p["name"] for p in got] != [p["name"] for p in pools]:
        v.append(("worker-pools: names differ", ""))
        return v
    fresh_seen = set()
    for pg, pd in zip(got, pools):
        if [w["name"] for w in pg["workers"]] != [w["name"] for w in pd["workers"]]:
            v.append(("workers: names differ", pd["name"]))
            continue
        for wg, wd in zip(pg["workers"], pd["workers"]):
            keyed = [r["name"] for r in wd["resources"] if ":" in r["name"]]
            if len(set(keyed)) != len(keyed):
                continue  # duplicate keys: meaning of the description is not defined
            exp_keyed = sorted([r["name"].split(":")[0], r["name"].split(":")[1], r["quantity"]] for r in wd["resources"] if ":" in r["name"])
            exp_typed = sorted([r["name"], r["quantity"]] for r in wd["resources"] if ":" not in r["name"])
            got_keyed = sorted(x for x in wg["resources"] if not x[1].startswith("#"))
            got_typed = sorted([x[0], x[2]] for x in wg["resources"] if x[1].startswith("#"))
            if exp_keyed != got_keyed or exp_typed != got_typed:
                v.append(("worker-resources: resource vector differs from the description", wd["name"]))
            for x in wg["resources"]:
                if x[1].startswith("#"):
                    if x[1] in fresh_seen:
                        v.append(("worker-resources: two untyped resources share an id", wd["name"]))
                    fresh_seen.add(x[1])
    # availability = total on a fresh cluster
    for p in loader.get_worker_pools().worker_pools:
        for w in p.workers:
            for r, q in w.resources.resources:
                if r.id != "any" and w.resources.get_available_quantity(r) != w.resources.get_total_quantity(r):
                    v.append(("worker-resources: fresh worker has allocated resources", w.name))
    return v


def oracle_policy(case, real):
    v = []
    p = case["policy"]
    k, s = p["kind"], p.get("start", 0)
    if "err" in real:
        valid = (k in ("fixed", "poisson", "gamma") and p["n"] >= 0) or (k == "periodic" and p["period"] > 0 and case["horizon"] is not None) or (
            k == "closed_loop" and p["conc"] > 0 and p["n"] > 0)
        if valid:
            v.append((f"valid-policy-refused: {k} raised {real['err']}", ""))
        return v
    rel = real["ok"]
    if k == "fixed" and rel != [s + i * p["period"] for i in range(p["n"])]:
        v.append(("release-fixed: not N releases one period apart from the start", str(rel)))
    if k == "periodic" and p["period"] != 0 and rel != list(range(s, case["horizon"], p["period"])):
        v.append(("release-periodic: not every period until the horizon", str(rel)))
    if k in ("poisson", "gamma"):
        if len(rel) != p["n"] or (rel and rel[0] != s) or any(b < a for a, b in zip(rel, rel[1:])):
            v.append((f"release-{k}: not N non-decreasing releases from the start", str(rel)))
    if k == "closed_loop" and p["conc"] > 0 and p["n"] > 0 and rel != [s] * min(p["conc"], p["n"]):
        v.append(("release-closed-loop: first batch is not min(concurrency, N) releases at the start", str(rel)))
    return v


def oracle_fuzz(case, real):
    T = case["T"]
    lo, hi = deadline_interval(T, case["a"], case["b"], case["minb"], case["maxb"])
    if case["minb"] <= case["maxb"] and not (lo <= real["ok"] - T <= hi):
        return [("fuzz: result outside [T + clamp(T*lo%), T + clamp(T*hi%)]", f"{real['ok']} for {case}")]
    return []


# ---------------------------------------------------------------------------
# running one case against the real code (+ oracle)
# ---------------------------------------------------------------------------


def run_real(case, scratch):
    k = case["kind"]
    if k == "workload":
        real, live = I.run_workload(case, scratch)
        if real.get("tape_overrun"):
            # the tape holds as many draws as the description calls for (it is sized from the model of the case):
            # a loader that asks for more instantiates something the description does not contain
            viol = []
            try:
                viol = list(oracle_workload(case, real, live))
            except Exception:  # noqa: BLE001
                pass
            return real, viol + [("loader drew more random numbers than the description calls for (more releases / task graphs than described)", f"{case.get('flags')}")]
        try:
            return real, oracle_workload(case, real, live)
        except (TypeError, KeyError, AttributeError, IndexError) as e:
            # the oracle reads the loaded objects next to the description; it can only trip over objects of a
            # kind the description does not describe (e.g. a release policy of another type than the one described)
            return real, [("loaded objects are not of the kind the description describes (the clauses cannot be evaluated)", f"{type(e).__name__}: {e}")]
    if k == "workers":
        real, loader = I.run_workers(case, scratch)
        return real, oracle_workers(case, real, loader)
    if k == "policy":
        real = I.run_policy(case)
        return real, oracle_policy(case, real)
    if k == "fuzz":
        real = I.run_fuzz(case)
        return real, oracle_fuzz(case, real)
    raise ValueError(k)


def gen_case(kind, r, i):
    return {"workload": G.gen_workload_case, "workers": G.gen_workers_case, "policy": G.gen_policy_case, "fuzz": G.gen_fuzz_case}[kind](r, i)


def corpus():
    """Minimised past failures / the known findings first."""
    base_p = [{"name": "P", "loading": None, "exec": [{"res": [["CPU:any", 1]], "batch": 1, "runtime": 100}]}]

    def g(nodes, **kw):
        d = {"name": "G", "nodes": nodes, "policy": "fixed", "period": 10, "invocations": 2, "concurrency": None, "start": None, "rate": None, "coefficient": None, "variance": None}
        d.update(kw)
        return d

    def n(name, **kw):
        d = {"name": name, "profile": "P", "slo": None, "cond": False, "term": False, "prob": None, "children": None}
        d.update(kw)
        return d

    def case(graph, flags=None, ext="yaml", plan=()):
        return {"kind": "workload", "idx": -1, "bad": None, "desc": {"profiles": copy.deepcopy(base_p), "graphs": [graph]}, "flags": flags or {}, "ext": ext,
                "fuzz": [0, G.TWO53 // 2] * 20, "batches": [[3, 4, 5, 6]], "history_plan": list(plan)}

    return [
        case(g([n("a", slo=500, children=["b"]), n("b")])),  # slo leak
        case(g([n("a", slo=500, children=["b"]), n("b", slo=900)])),  # slo leak (own slo lost)
        case(g([n("a")], policy="periodic", period=100, invocations=None), flags={"loop_timeout": 350}),  # periodic via loader (was L1)
        case(g([n("a")], policy="poisson", rate=0.01, invocations=2), flags={"n": 4}),  # override ignored
        case(g([n("a")], policy="closed_loop", concurrency=2, invocations=5), plan=[[0, 0, 10 * i] for i in range(8)], ext="json"),
        case(g([n("a", children=["c"]), n("b"), n("c")], variance=[15, 15]), flags={"repl": 2}),
    ]


# ---------------------------------------------------------------------------
# entry points
# ---------------------------------------------------------------------------


def summarize(case):
    """Canonical, compact identity of a case for the evidence."""
    c = {k: v for k, v in case.items() if k not in ("fuzz", "batches", "history_plan", "idx")}
    return c


def nontrivial(case, real):
    if "err" in real:
        return False
    if case["kind"] == "workload":
        return len(real["ok"]["task_graphs"]) > 0
    if case["kind"] == "workers":
        return any(w["resources"] for p in real["ok"] for w in p["workers"])
    if case["kind"] == "policy":
        return len(real["ok"]) > 1
    return case["T"] > 0 and (case["a"] or case["b"])


def account(chk, case, real):
    k = case["kind"]
    chk.count(f"kind:{k}")
    chk.count("outcome:" + real.get("err", "ok"))
    if k == "workload":
        chk.count("ext:" + case["ext"].lower())
        if case.get("bad"):
            chk.count("malformed:" + case["bad"])
        for g in (case["desc"].get("graphs") or []):
            chk.count(f"policy:{g['policy']}")
            if g.get("variance"):
                chk.count("variance:given")
        for f in ("period", "n", "rate", "coef", "slo", "unique", "repl", "min_deadline", "max_deadline", "loop_timeout"):
            if case["flags"].get(f):
                chk.count(f"flag:{f}")
        if "ok" in real:
            chk.count("task_graphs", len(real["ok"]["task_graphs"]))
            chk.count("closed_loop_followups", sum(1 for x in real["released"] if x))
            chk.count("unseeded_default_rng_calls", sum(1 for s in real.get("seeds", []) if s == "None"))
    elif k == "workers":
        chk.count("ext:" + case["ext"].lower())
        if case.get("bad"):
            chk.count("malformed:" + case["bad"])
    elif k == "policy":
        chk.count("policy:" + case["policy"]["kind"])


def process(chk, cases, scratch, with_model=True):
    """Real code + oracle on every case; optionally the model comparison.
    Returns the list of disagreements [(case, text)]."""
    reals, dcases = [], []
    for case in cases:
        real, viol = run_real(case, scratch)
        reals.append(real)
        seen_sig = set()
        for sig, detail in viol:
            if sig in seen_sig:
                continue
            seen_sig.add(sig)
            sigs = chk.extra.setdefault("oracle_signatures", {})
            sigs[sig] = sigs.get(sig, 0) + 1
            chk.violation(sig, {"case": case, "detail": detail})
        account(chk, case, real)
        chk.case(summarize(case), nontrivial(case, real))
        if with_model:
            dcases.append(driver_case(case, real))
    dis = []
    if with_model:
        replies = common.run_driver(dcases)
        for case, real, rep in zip(cases, reals, replies):
            if case["kind"] in ("workload", "workers") and case["ext"].lower() not in ("json", "yaml", "yml"):
                # the model starts after the extension check
                if real.get("err") != "ValueError":
                    dis.append((case, f"unsupported extension: real {real}", {"err": "ValueError"}))
                continue
            d = compare(case, real, rep, chk)
            if d:
                dis.append((case, d, rep))
            else:
                chk.traces_validated += 1
    return dis


def shrink_variants(case):
    """Smaller relatives of a disagreeing case for the failing-input search."""
    out = []
    if case["kind"] == "workload" and case["desc"].get("graphs"):
        for g in case["desc"]["graphs"]:
            c = copy.deepcopy(case)
            c["desc"]["graphs"] = [copy.deepcopy(g)]
            c["history_plan"] = c["history_plan"][:6]
            out.append(c)
            c2 = copy.deepcopy(c)
            c2["flags"] = {}
            out.append(c2)
    return out


def run(chk: common.Check):
    broken = chk.lean_obligations()
    sizes = SIZES[chk.tier]
    scratch = Path(tempfile.mkdtemp(prefix="c19_verif_"))
    try:
        I.mods()
        cases = corpus()
        for kind in ("workload", "workers", "policy", "fuzz"):
            r = common.Rng(chk.seed, f"c19/{kind}")
            cases += [gen_case(kind, r, i) for i in range(sizes[kind])]
        dis = []
        model_ok = common.DRIVER.exists() and "lake-build-failed" not in broken
        if model_ok:
            dis = process(chk, cases, scratch, with_model=True)
        else:
            process(chk, cases, scratch, with_model=False)
        chk.extra["disagreements"] = [{"case": summarize(c), "what": t} for c, t, _ in dis[:10]]
        chk.extra["disagreements_total"] = len(dis)
        chk.extra["known_note_D12"] = (
            "ReleasePolicy builds np.random.default_rng() without a seed (WorkloadLoader never passes one): "
            f"{chk.dist.get('unseeded_default_rng_calls', 0)} unseeded constructions observed in this run although --random_seed was given"
        )
        if broken or dis:
            def search():
                r = common.Rng(chk.seed, "c19/search")
                extra = []
                for c, _, _ in dis[:20]:
                    extra += shrink_variants(c)
                for kind in ("workload", "policy", "workers", "fuzz"):
                    extra += [gen_case(kind, r, i) for i in range(sizes["search"])]
                before = len(chk.violations)
                process(chk, extra, scratch, with_model=False)
                if len(chk.violations) == before:
                    # no input on which the real code fails the property itself: report the
                    # model/code disagreements with a replay that re-runs the real code
                    # against the recorded model answer
                    for c, t, rep in dis[:3]:
                        chk.violation(
                            "correspondence-broken: " + t.split(":")[0][:80],
                            {"case": c, "model": rep, "what": t, "broken": broken},
                            found_input=False,
                        )

            common.broken_obligation(chk, broken + [f"correspondence: {t}" for _, t, _ in dis[:5]], search)
    finally:
        shutil.rmtree(scratch, ignore_errors=True)
    # the closed-loop clauses as the SIMULATOR drives them (in-flight <= concurrency, total <= invocations): end-to-end
    # runs of the real simulator, also replayed through the simulator model
    from harness.suites import _e2e_common as e2e

    e2e.run_suite(chk, "C19", n_quick=250, n_thorough=2500, streams=("regular", "dag", "batch", "regular"))
    e2e_rule = chk.rule
    chk.rule = (
        "cases = corpus of known findings + generated workload descriptions (1-4 profiles, 1-3 graphs of 1-6 nodes, every release "
        "policy, overrides/replication/unique flags, variance and bounds; ~30% carry one malformation) rendered to JSON or YAML, "
        "worker descriptions (typed / any / specific ids, duplicates, malformations), direct release-policy calls, direct fuzz calls; "
        "non-trivial = loads and yields >=1 task graph (workload), >=1 resource (workers), >=2 releases (policy), T>0 with variance (fuzz); "
        "distinct = canonical description+flags || end-to-end: " + e2e_rule
    )
    chk.assumptions += [
        "names of profiles, graphs and of the nodes of one graph are pairwise different in generated descriptions",
        "times stay below 2^53 µs (numpy linspace / float accumulation exact); descriptions with a periodic graph get a finite --loop_timeout (<= ~13 releases per graph); the default sys.maxsize horizon (np.arange MemoryError) is not generated",
        "float evaluation of fuzz / gamma accumulation is compared exactly except at near ties of the exact value (|frac-1/2| <= 1e-6), counted as float_slack",
        "flags resolve_conditionals_at_submission, use_branch_predicated_deadlines, decompose_deadlines at their defaults (False)",
        "closed-loop histories report each in-flight graph complete at most once (what the simulator does)",
        "FIXED_AND_GAMMA policy is not reachable from a description and is not modelled",
    ]


def replay(path) -> int:
    data = json.loads(Path(path).read_text())
    if data.get("suite") == "sim":
        from harness.suites import _e2e_common as e2e

        return e2e.replay("C19", path)
    if "case" not in data:
        print("replay holds no input (broken proof obligation): " + "; ".join(data.get("broken", [])))
        print("re-run ./check C19 to see whether the obligation is still broken")
        return 1
    case = data["case"]
    scratch = Path(tempfile.mkdtemp(prefix="c19_replay_"))
    try:
        I.mods()
        real, viol = run_real(case, scratch)
    finally:
        shutil.rmtree(scratch, ignore_errors=True)
    if "model" in data:
        # correspondence replay: the real code against the recorded answer of the model
        chk = common.Check("C19", "quick", TECHNIQUE)
        d = compare(case, real, data["model"], chk)
        for s_, dd in viol:
            print(f"oracle: {s_} [{dd}]")
        if d:
            print(f"REPRODUCED property=C19 correspondence: real code differs from the model's recorded answer: {d}")
            return 1
        print("not reproduced: the real code agrees with the model's recorded answer on this input")
        return 0
    want = data.get("signature")
    hits = [s for s, _ in viol if want is None or s == want]
    for s, d in viol:
        print(f"oracle: {s} [{d}]")
    if hits:
        print(f"REPRODUCED property=C19 signature={hits[0]!r}")
        return 1
    print("not reproduced: the oracle accepts the real code's result on this input")
    return 0
